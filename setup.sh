#!/bin/bash
# Build the verification harness from files on disk only (offline).
set -euo pipefail
VERIF="$(cd "$(dirname "${BASH_SOURCE[0]}")" && pwd)"
export CARGO_NET_OFFLINE=true RUST_BACKTRACE=0 RUST_LIB_BACKTRACE=0
"$VERIF/links.sh"
cd "$VERIF/harness"
mkdir -p "$VERIF/.work" "$VERIF/evidence" "$VERIF/replays"
cargo build --offline --release 2>&1 | tail -3
cargo build --offline --profile ovf 2>&1 | tail -3
( cd /repo && CARGO_TARGET_DIR="$VERIF/.cache/repo-target" cargo build --offline --release 2>&1 | tail -1 )
echo "setup ok"
