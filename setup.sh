#!/bin/bash
# Build the verification harness from files on disk only (offline).
set -euo pipefail
VERIF="$(cd "$(dirname "${BASH_SOURCE[0]}")" && pwd)"
export CARGO_NET_OFFLINE=true RUST_BACKTRACE=0 RUST_LIB_BACKTRACE=0
"$VERIF/links.sh"
cd "$VERIF/harness"
mkdir -p "$VERIF/.work" "$VERIF/evidence" "$VERIF/replays"
export CARGO_TARGET_DIR="$VERIF/harness/target"
cargo build --offline --release 2>&1 | tail -3
cargo build --offline --profile ovf 2>&1 | tail -3
unset CARGO_TARGET_DIR
( cd /repo && CARGO_TARGET_DIR="$VERIF/.cache/repo-target" cargo build --offline --release 2>&1 | tail -1 )
echo "setup ok"
