#!/usr/bin/env python3
"""Append a fixed:/known: line to KNOWN_FINDINGS.txt.
usage: addfinding.py fixed <prop> <commit-subject-prefix> <codehex> <desc> [erN=hex ...] [ccr=hex] [pc=hex] [patch=addr=val,...] [irq=N] [cycles=1]
       addfinding.py known <prop> <key> <codehex> <desc> [...]
"""
import json, subprocess, sys
kind, prop, ref, code, desc = sys.argv[1:6]
er = ["119223a4", "219f3cab", "31ac55b2", "41b96eb9", "51c687c0", "61d3a0c7", "71e0b9ce", "81edd2d5"]
ccr = "00"; pc = "ffc000"; patches = []; k = "step"; cycles = False
for a in sys.argv[6:]:
    key, val = a.split("=", 1)
    if key.startswith("er"): er[int(key[2:])] = val.rjust(8, "0")
    elif key == "ccr": ccr = val
    elif key == "pc": pc = val
    elif key == "patch": patches += val.split(",")
    elif key == "irq": k = {"irq": int(val)}
    elif key == "cycles": cycles = True
code = code + "f000" * ((24 - len(code)) // 4)
w = json.dumps({"kind": k, "pc": pc, "code": code, "er": er, "ccr": ccr, "patches": patches, "check_cycles": cycles}, separators=(",", ":"))
if kind == "fixed":
    h = None
    for l in subprocess.check_output(["git", "-C", "/repo", "log", "--format=%h %s"]).decode().splitlines():
        hh, s = l.split(" ", 1)
        if s.startswith(ref): h = hh; break
    assert h, "no commit with subject prefix " + ref
    line = "fixed: property=%s commit=%s witness=%s :: %s" % (prop, h, w, desc)
else:
    line = "known: property=%s key=%s witness=%s :: %s" % (prop, ref, w, desc)
open("/verif/KNOWN_FINDINGS.txt", "a").write(line + "\n")
print(line[:160])
