#!/bin/bash
# usage: tools/try_mutant.sh <prop> <Mx> [extra props to run...]
# Confirms a sub-agent's mutant (tests pass with it, demo fails with / passes without), then runs the
# registered quick check(s) against it on /repo and records everything under /verif/seeded/<prop>-<Mx>/.
set -u
P=$1; M=$2; shift 2
WT=/tmp/wt-$P
D=$WT/MUTANTS/$M
OUT=/verif/seeded/$P-$M
export CARGO_NET_OFFLINE=true CARGO_TARGET_DIR=/tmp/mut-target RUST_BACKTRACE=0
demo=$(echo "$M" | tr 'A-Z' 'a-z'); demo="demo_$demo"
# a demonstration that is an integration test (tests/demo_mN.rs) is selected with --test
if grep -q "^+++ b/tests/" "$D/demo.diff" 2>/dev/null; then demo="--test $demo"; fi
mkdir -p "$OUT"
cd "$WT" && git checkout -q -- . && git clean -fdq src tests 2>/dev/null
# (a) demo alone on the untouched tree must pass
git apply "$D/demo.diff" || { echo "demo.diff does not apply"; exit 2; }
r_clean=$(cargo test --offline $demo 2>&1 | grep -E "^test result" | head -1)
git checkout -q -- . && git clean -fdq src tests
# (b) patch alone: full suite must pass
git apply "$D/patch.diff" || { echo "patch.diff does not apply"; exit 2; }
r_suite=$(cargo test --offline 2>&1 | grep -E "^test result" | head -1)
# (c) patch + demo: demo must fail
git apply "$D/demo.diff" || { echo "demo.diff does not apply on the mutant"; }
r_mut=$(cargo test --offline $demo 2>&1 | grep -E "^test result" | head -1)
git checkout -q -- . && git clean -fdq src tests
echo "clean+demo : $r_clean"
echo "mutant     : $r_suite"
echo "mutant+demo: $r_mut"
# (d) the registered checks against the mutant, on /repo itself
unset CARGO_TARGET_DIR
cd /repo && git apply "$D/patch.diff" || { echo "patch does not apply to /repo"; exit 2; }
results=""
for q in $P "$@"; do
  out=$(cd /verif && ./check.sh $q quick 2>&1)
  line=$(echo "$out" | grep -E "^(PASS|FAIL|MACHINERY)" | tail -1 | cut -c1-160)
  first=$(echo "$out" | grep -E "unit-summary" | head -2 | cut -c1-260)
  echo "check $q: $line"; echo "$first"
  results="$results$q: $line\n$first\n"
done
git -C /repo checkout -- . ; git -C /repo clean -fdq src
cp "$D/patch.diff" "$D/demo.diff" "$D/README.md" "$OUT/"
python3 - "$P" "$M" "$r_clean" "$r_suite" "$r_mut" "$results" <<'PY'
import json,sys
p,m,rc,rs,rm,res=sys.argv[1:7]
meta={"property":p,"mutant":m,"source":"independent sub-agent given only the property text and a scratch worktree",
 "confirmed":{"demo_on_untouched_tree":rc,"existing_suite_with_change":rs,"demo_with_change":rm},
 "checks_run_against_it":res.replace("\\n","\n").strip().split("\n"),
 "needs_to_manifest":"see README.md"}
import os
nf="/verif/seeded/notes.json"
if os.path.exists(nf):
    n=json.load(open(nf)).get(f"{p}-{m}")
    if n: meta["note"]=n
json.dump(meta,open(f"/verif/seeded/{p}-{m}/meta.json","w"),indent=1)
PY
