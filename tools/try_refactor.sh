#!/bin/bash
# usage: tools/try_refactor.sh <prop> <Rx> [extra props to run...]
# A behaviour-preserving refactoring from an independent sub-agent (/tmp/wr-<prop>/REFACTORS/<Rx>):
# confirms the repository's suite still passes with it, then runs the registered quick check(s)
# against it on /repo and expects them to stay SILENT (exit 0, no VIOLATION line).
# Records everything under /verif/seeded/refactors/<prop>-<Rx>/.
set -u
P=$1; R=$2; shift 2
WT=/tmp/wr-$P
D=$WT/REFACTORS/$R
OUT=/verif/seeded/refactors/$P-$R
export CARGO_NET_OFFLINE=true RUST_BACKTRACE=0
mkdir -p "$OUT"
cd "$WT" && git checkout -q -- . && git clean -fdq src 2>/dev/null
git apply "$D/patch.diff" || { echo "patch.diff does not apply"; exit 2; }
r_suite=$(CARGO_TARGET_DIR=/tmp/mut-target cargo test --offline 2>&1 | grep -E "^test result" | head -1)
git checkout -q -- . && git clean -fdq src
echo "refactored suite: $r_suite"
cd /repo && git apply "$D/patch.diff" || { echo "patch does not apply to /repo"; exit 2; }
results=""
for q in $P "$@"; do
  out=$(cd /verif && ./check.sh $q quick 2>&1); rc=$?
  line=$(echo "$out" | grep -E "^(PASS|FAIL|MACHINERY)" | tail -1 | cut -c1-200)
  first=$(echo "$out" | grep -E "unit-summary|VIOLATION" | head -3 | cut -c1-260)
  echo "check $q: rc=$rc $line"; [ -n "$first" ] && echo "$first"
  results="$results$q: rc=$rc $line\n$first\n"
done
git -C /repo checkout -- . ; git -C /repo clean -fdq src
cp "$D/patch.diff" "$D/README.md" "$OUT/" 2>/dev/null
python3 - "$P" "$R" "$r_suite" "$results" <<'PY'
import json,sys
p,r,rs,res=sys.argv[1:5]
meta={"property":p,"refactoring":r,"kind":"behaviour-preserving refactoring (the property still holds); the checks are expected to stay silent",
 "source":"independent sub-agent given only the property text and a scratch worktree",
 "confirmed":{"existing_suite_with_change":rs},
 "checks_run_against_it":[x for x in res.replace("\\n","\n").strip().split("\n") if x]}
import os
nf="/verif/seeded/notes.json"
if os.path.exists(nf):
    n=json.load(open(nf)).get(f"{p}-{r}")
    if n: meta["note"]=n
json.dump(meta,open(f"/verif/seeded/refactors/{p}-{r}/meta.json","w"),indent=1)
PY
