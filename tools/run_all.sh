#!/bin/bash
# usage: tools/run_all.sh <tier>   — run every check once, print one line per property
cd "$(dirname "$0")/.."
./setup.sh >/dev/null 2>&1
for i in 01 02 03 04 05 06 07 08 09 10 11 12 13 14 15 16 17 18 19 20; do
  s=$(date +%s)
  out=$(./check.sh C$i "${1:-quick}" 2>&1); rc=$?
  e=$(date +%s)
  echo "C$i rc=$rc t=$((e-s))s $(echo "$out" | grep -E '^(PASS|FAIL|MACHINERY)' | tail -1 | cut -c1-170)"
  echo "$out" | grep -E '^(VIOLATION|KNOWN-FINDING|  unit-summary)' | cut -c1-220 | head -5
done
