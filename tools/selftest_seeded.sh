#!/bin/bash
# Re-apply every kept seeded change to /repo, run the registered quick check of its property, undo.
# Prints one line per change; exit 1 if a change that breaks its property is no longer reported.
# (Uses /repo itself: do not run anything else against /repo meanwhile.)
cd "$(dirname "$0")/.."
bad=0
for d in seeded/*/; do
  id=$(basename "$d"); prop=${id%%-*}
  patch="$d/patch.diff"; [ -f "$d/patch-ported-to-current-tree.diff" ] && patch="$d/patch-ported-to-current-tree.diff"
  if ! git -C /repo apply --check "$(realpath "$patch")" 2>/dev/null; then echo "$id: patch no longer applies (tree moved on)"; continue; fi
  git -C /repo apply "$(realpath "$patch")"
  line=$(./check.sh "$prop" quick 2>&1 | grep -E "^(PASS|FAIL|MACHINERY)" | tail -1 | cut -c1-60)
  git -C /repo checkout -- . ; git -C /repo clean -fdq src
  expect=FAIL; grep -q "NOT A VIOLATION" "$d/meta.json" && expect=PASS
  case "$line" in
    $expect*) echo "$id: $line (as expected)";;
    *) echo "$id: $line  <-- expected $expect"; bad=1;;
  esac
done
exit $bad
