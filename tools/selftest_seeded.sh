#!/bin/bash
# Re-apply every kept seeded change to /repo, run the registered quick check of its property, undo.
#   seeded/<prop>-Mx/           property-breaking change: the check must FAIL, unless meta.json's note says
#                               NOT A VIOLATION (check must PASS) or NOT REPORTED (a recorded limit: PASS expected,
#                               a FAIL is welcome and printed as such)
#   seeded/refactors/<prop>-Rx/ behaviour-preserving refactoring: the property's check and the other checks that
#                               were run when it was recorded must stay silent (PASS)
# Prints one line per change; exit 1 if anything is not as expected.
# (Uses /repo itself: do not run anything else against /repo meanwhile.)
# usage: tools/selftest_seeded.sh [mutants|refactors|all] [id-prefix]
cd "$(dirname "$0")/.."
what=${1:-all}; only=${2:-}
bad=0
undo() { git -C /repo checkout -- . ; git -C /repo clean -fdq src tests 2>/dev/null; }
if [ "$what" != refactors ]; then
for d in seeded/C*/; do
  id=$(basename "$d"); prop=${id%%-*}
  case "$id" in $only*) ;; *) continue;; esac
  patch="$d/patch.diff"; [ -f "$d/patch-ported-to-current-tree.diff" ] && patch="$d/patch-ported-to-current-tree.diff"
  if ! git -C /repo apply --check "$(realpath "$patch")" 2>/dev/null; then echo "$id: patch no longer applies (tree moved on)"; continue; fi
  git -C /repo apply "$(realpath "$patch")"
  line=$(./check.sh "$prop" quick 2>&1 | grep -E "^(PASS|FAIL|MACHINERY)" | tail -1 | cut -c1-60)
  undo
  expect=FAIL
  grep -q "NOT A VIOLATION" "$d/meta.json" && expect=PASS
  if grep -q "NOT REPORTED" "$d/meta.json"; then
    case "$line" in
      PASS*) echo "$id: $line (recorded limit: not reported, as recorded)";;
      FAIL*) echo "$id: $line (recorded as NOT REPORTED but it is reported now - update the note)";;
      *) echo "$id: $line  <-- machinery problem"; bad=1;;
    esac
    continue
  fi
  case "$line" in
    $expect*) echo "$id: $line (as expected)";;
    *) echo "$id: $line  <-- expected $expect"; bad=1;;
  esac
done
fi
if [ "$what" != mutants ]; then
for d in seeded/refactors/*/; do
  id=$(basename "$d"); prop=${id%%-*}
  case "$id" in $only*) ;; *) continue;; esac
  patch="$d/patch.diff"
  if ! git -C /repo apply --check "$(realpath "$patch")" 2>/dev/null; then echo "refactor $id: patch no longer applies (tree moved on)"; continue; fi
  git -C /repo apply "$(realpath "$patch")"
  props=$(python3 -c "
import json,re,sys
m=json.load(open('$d/meta.json'))
print(' '.join(dict.fromkeys(re.match(r'(C\d+):',l).group(1) for l in m['checks_run_against_it'] if re.match(r'(C\d+):',l))))")
  res=""
  for q in $props; do
    line=$(./check.sh "$q" quick 2>&1 | grep -E "^(PASS|FAIL|MACHINERY)" | tail -1 | cut -c1-12)
    case "$line" in PASS*) res="$res $q:silent";; *) res="$res $q:ALARM($line)"; bad=1;; esac
  done
  undo
  echo "refactor $id:$res"
done
fi
exit $bad
