#!/usr/bin/env python3
"""Print the markdown table of /verif/seeded/*/meta.json for DESIGN.md section 11."""
import json, glob, os, re
rows = []
for d in sorted(glob.glob('/verif/seeded/C*/')):
    m = json.load(open(d + 'meta.json'))
    readme = open(d + 'README.md').read() if os.path.exists(d + 'README.md') else ''
    title = ''
    for l in readme.splitlines():
        l = l.strip('# ').strip()
        if l:
            title = l
            break
    files = sorted(set(re.findall(r'^\+\+\+ b/(\S+)', open(d + 'patch.diff').read(), re.M)))
    res = []
    for l in m['checks_run_against_it']:
        mm = re.match(r'(C\d+): (PASS|FAIL|MACHINERY)', l)
        if mm:
            res.append(f"{mm.group(1)} {'**detects**' if mm.group(2)=='FAIL' else ('passes' if mm.group(2)=='PASS' else 'machinery')}")
    first = [l.strip() for l in m['checks_run_against_it'] if 'unit-summary' in l]
    unit = ''
    if first:
        mm = re.search(r'unit=(.+?) violations=', first[0])
        unit = mm.group(1) if mm else ''
    note = m.get('note', '')
    rows.append(f"| {m['property']}-{m['mutant']} | {', '.join(files)} | {title[:110]} | {'; '.join(res)} | {unit} | {note} |")
print("| id | files changed | change (sub-agent's title) | registered quick checks | first reporting unit | note |")
print("|----|------|------|------|------|------|")
print("\n".join(rows))

# ---- behaviour-preserving refactorings (checks must stay silent)
rows = []
for d in sorted(glob.glob('/verif/seeded/refactors/*/')):
    m = json.load(open(d + 'meta.json'))
    readme = open(d + 'README.md').read() if os.path.exists(d + 'README.md') else ''
    title = ''
    for l in readme.splitlines():
        l = l.strip('# ').strip()
        if l:
            title = l
            break
    files = sorted(set(re.findall(r'^\+\+\+ b/(\S+)', open(d + 'patch.diff').read(), re.M)))
    res = []
    for l in m['checks_run_against_it']:
        mm = re.match(r'(C\d+): rc=(\d+) (PASS|FAIL|MACHINERY)?', l)
        if mm:
            res.append(f"{mm.group(1)} {'silent' if mm.group(2)=='0' else '**ALARM**'}")
    rows.append(f"| {m['property']}-{m['refactoring']} | {', '.join(files)} | {title[:120]} | {'; '.join(res)} | {m.get('note','')} |")
print()
print("| id | files changed | refactoring (sub-agent's title) | registered quick checks | note |")
print("|----|------|------|------|------|")
print("\n".join(rows))
