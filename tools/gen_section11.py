#!/usr/bin/env python3
"""Regenerate section 11 of DESIGN.md from /verif/seeded/*/meta.json (run from anywhere).
Usage: tools/gen_section11.py            print the section
       tools/gen_section11.py --write    replace the section in /verif/DESIGN.md"""
import json, glob, os, re, sys

def title_of(d):
    readme = open(d + 'README.md').read() if os.path.exists(d + 'README.md') else ''
    for l in readme.splitlines():
        l = l.strip('# ').strip()
        if l:
            return l
    return ''

def files_of(d):
    return sorted(set(re.findall(r'^\+\+\+ b/(\S+)', open(d + 'patch.diff').read(), re.M)))

def mutant_rows(which):
    rows, stats = [], {'n': 0, 'own': 0, 'notviol': 0, 'missed_first': 0, 'notrep': 0}
    for d in sorted(glob.glob('/verif/seeded/C*/'), key=lambda x: (x.split('/')[-2].split('-')[0], int(x.split('/')[-2].split('-M')[1]))):
        m = json.load(open(d + 'meta.json'))
        if m['mutant'] not in which:
            continue
        res, own = [], False
        for l in m['checks_run_against_it']:
            mm = re.match(r'(C\d+): (PASS|FAIL|MACHINERY)', l)
            if mm:
                det = mm.group(2) == 'FAIL'
                if det and mm.group(1) == m['property']:
                    own = True
                res.append(f"{mm.group(1)} {'**detects**' if det else ('passes' if mm.group(2) == 'PASS' else 'machinery')}")
        first = [l.strip() for l in m['checks_run_against_it'] if 'unit-summary' in l]
        unit = ''
        if first:
            mm = re.search(r'unit=(.+?) violations=', first[0])
            unit = mm.group(1) if mm else ''
        note = m.get('note', '')
        stats['n'] += 1
        stats['own'] += own
        if 'NOT A VIOLATION' in note:
            stats['notviol'] += 1
        if 'MISSED' in note or 'missed by' in note or 'MACHINERY error' in note:
            stats['missed_first'] += 1
        if 'NOT REPORTED' in note:
            stats['notrep'] += 1
        t = re.sub(r'^(C\d+ / )?M\d\s*[-:–]\s*', '', title_of(d))
        rows.append(f"| {m['property']}-{m['mutant']} | {', '.join(files_of(d))} | {t[:130]} | {'; '.join(res)} | {unit} | {note} |")
    return rows, stats

def refactor_rows():
    rows, n, alarms = [], 0, 0
    for d in sorted(glob.glob('/verif/seeded/refactors/*/')):
        m = json.load(open(d + 'meta.json'))
        res = []
        for l in m['checks_run_against_it']:
            mm = re.match(r'(C\d+): rc=(\d+)', l)
            if mm:
                res.append(f"{mm.group(1)} {'silent' if mm.group(2) == '0' else '**ALARM**'}")
        note = m.get('note', '')
        n += 1
        if 'FALSE ALARM' in note:
            alarms += 1
        t = re.sub(r'^R\d\s*[-:–]\s*', '', title_of(d))
        rows.append(f"| {m['property']}-{m['refactoring']} | {', '.join(files_of(d))[:160]} | {t[:140]} | {'; '.join(dict.fromkeys(res))} | {note} |")
    return rows, n, alarms

def refactor_props():
    return len({json.load(open(d + 'meta.json'))['property'] for d in glob.glob('/verif/seeded/refactors/*/')})

HEAD = "| id | files changed | change (sub-agent's title) | registered quick checks | first reporting unit | note |\n|----|------|------|------|------|------|"

def section():
    r1, s1 = mutant_rows({'M1', 'M2'})
    r2, s2 = mutant_rows({'M3', 'M4'})
    r3, s3 = mutant_rows({'M5', 'M6'})
    r4, s4 = mutant_rows({'M7', 'M8'})
    r5, s5 = mutant_rows({'M9', 'M10', 'M11'})
    rr, nr, alarms = refactor_rows()
    out = []
    out.append("## 11. Seeded changes and refactorings: which check catches which, and which stays silent\n")
    out.append("""All changes in this section were written by **fresh sub-agents that were given only the text
of one property** and a scratch git worktree of /repo under /tmp (nothing from /verif), and
were confirmed here before they were kept (`tools/try_mutant.sh`, `tools/try_refactor.sh`):
the demonstration passes on the untouched tree, the full suite (226 tests) passes with the
change, the demonstration fails with the change; then the change was applied to /repo itself
(`git apply`), the registered **quick** checks were run, and /repo was restored
(`git checkout -- .`).  Each kept change lives in `/verif/seeded/<property>-<Mx>/` (`patch.diff`,
`demo.diff`, the sub-agent's `README.md`, `meta.json` with what was run and observed);
refactorings in `/verif/seeded/refactors/<property>-<Rx>/`.  None was ever committed to /repo.
`tools/selftest_seeded.sh` re-applies every kept change and re-runs the property's quick check
(expects a report for every change except the ones marked NOT A VIOLATION, and silence for every
refactoring).  The tables below are generated from the `meta.json` files by
`tools/gen_section11.py`.

*Hand-made probes.*  At the very end the seeded patches were grouped by file: 24 source files had never
been touched by a sub-agent (mostly single-instruction files).  Seven hand-made changes were applied to
seven of them (ROTXR.L, SHAR.L and NEG.W for one value each, ADDS #4 on ER7 at a carry, `get_addr_ern`
keeping bit 24 for ER6, `@(d:16,ER4)` without sign extension under one upper byte, `write_rn_w` on E5
damaging R5); the suite stayed green for six of them and all six were reported - five at once, the
`get_addr_ern` one only by C04's check: C01 and C08 swept all 256 upper bytes through one address register
and all registers under the upper byte 5A, whose bit 24 is clear.  C01 / C04 / C08 now run every address
register under upper bytes that set and clear every bit (§6).  An eighth probe (the loader copying a segment to
p_paddr instead of p_vaddr) was invisible because the ELF generator always wrote p_paddr = p_vaddr; C11 now
also loads files in which they differ (and p_align / e_entry vary).  Two more constants of the harness were
varied for the same reason: the binding / type / section index of the symbol `___exit` (C12) and the fd word of
the write call (C14: a write that is carried out for fd <= 2 only was invisible, every scenario used fd 1).
In the following session the same was done for the loader's three table look-ups (`seeded/hand/`): a loader that
reads the program headers at e_ehsize instead of e_phoff, one that takes "the last e_shnum entries of the file"
for the section header table instead of e_shoff, and one that looks the symbol names up in the section called
`.strtab` instead of the one `.symtab` links to all kept the suite green and were invisible to C11 / C12 - every
generated file (like everything GNU ld writes) had e_phoff = 52, the section headers last and the linked string
table called `.strtab`.  The generator now also writes files with a gap in front of the program headers, with
the program headers at the very end of the file, with padding behind the section headers, and with the symbol
string table called `.dynstr` / `.strtab2` next to a decoy `.strtab` (x three section orders); all three probes
are reported.  Six more one-point changes in instruction files no sub-agent had touched (SUBS #2 for one value,
EXTU.L with Z from the low byte, ROTL.L with Z from the low word, SHLR.L keeping N for one value, NOT.L keeping
V for one value, BST #7,@H'1F:8 not clearing) kept the suite green and were all reported at once by C02 / C03 /
C04 (a seventh, ROTR.W, turned out to be equivalent).  A `__write` whose loop counter is narrowed to 16 bits
(an H8 `int`) was invisible to C14 - the longest write had 4096 bytes; the write unit now also writes H'FFFF,
H'10000, H'10001 and H'1FFFF bytes from DRAM and reports it.
""")
    out.append(f"""### 11.1 Round 1 - two changes per property ("needs something specific to manifest")

{s1['n']} changes; {s1['n'] - s1['notviol']} break their property and **all of them are reported by the registered quick
check of that property** (several also by a neighbouring property's check); {s1['notviol']} (C17-M2) does not break
the property as stated and the check is, correctly, silent.  {s1['missed_first']} were **missed by the first version**
of the check and led to strengthenings, each of which closes a class, not the one input:

* C09-M2 -> W/L accesses at odd addresses are checked in C09's histories;
* C10-M2 -> every vector number 1-63 (pairs, bursts, every CCR at a boundary), not a 5-vector alphabet;
* C15-M1 -> time elapses after every pair of timer-control writes; panics inside C16/C17 transitions are verdicts, not shard crashes;
* C18-M2 -> control lines that store into a port data register, with a port model behind them;
* C20-M1 -> the charge of forms whose data register is the address register;
* C20-M2 -> stack pointers exactly at the first address above a region.

The real-binary units (E6) additionally found, on the unchanged tree, the exit race D30
(last message lost when the process ends; `fix:` 7b1577a) - by sampling OS schedules, so it
is recorded as a supplementary finding, not as the product of an exhaustive exploration.

{HEAD}
""" + "\n".join(r1) + "\n")
    out.append(f"""### 11.2 Round 2 - "state carried over from earlier operations, interactions, rarely used forms"

The sub-agents were told the titles of the round-1 changes and asked for subtler ones of a
different kind: memoised values that are not invalidated, scratch state hoisted into a struct
field, "already done" flags, short-cuts when a new value equals an old one, interactions of two
features, rare forms, single boundary values.  {s2['n']} changes.  **First run: {s2['missed_first']} of {s2['n']} were not
reported by the property's own quick check** (for C01-C10: 17 of 20).  That result is the reason
for engine E2x and the other units listed in §0.3: a checker that enumerates one form at a time
is blind to state carried between different forms, whatever its value coverage.  After the
strengthenings **all {s2['own']} of {s2['n']} are reported by the property's own quick check**.  The note column says
what each one needed.

{HEAD}
""" + "\n".join(r2) + "\n")
    if r3:
        out.append(f"""### 11.3 Round 3 - "what a bounded-exhaustive checker cannot afford"

The sub-agents were told the titles of the four earlier changes of their property and that all
had been found by systematic bounded-exhaustive checking, and were asked to aim at what such
a checker cannot afford: specific multi-byte constants and interior addresses, long histories,
counters that must reach hundreds or thousands, three-feature interactions, tables that fill up,
rarely used peripheral registers.  {s3['n']} changes.  Most of them are *new features* (a DMA controller,
watchdog password registers, interrupt priority registers, read-only segments, a loop accelerator,
native libgcc helpers, host-service gates) rather than slips in existing code.  **{s3['own']} are reported by
the property's own quick check, {s3['missed_first']} of them only by units written after the change was delivered**
(long programs in lock step, loaded machine, I/O-page backgrounds, word sweeps of the register blocks,
queue histories, I/O-register values at a boundary, sequences with trace logging - each closes a class);
**{s3['notrep']} are not reported** and are kept as recorded limits of the bounds (§9): magic 32-bit constants,
a seven-instruction magic window, a peripheral that needs four to five cooperating register values,
behaviour that depends on the instruction trace being printed, and one (C18-M6, a 30 s read time-out) that
needs 30 s of real time and is reported by the thorough tier only.  {s3['notviol']} judged not to violate the property as stated.

{HEAD}
""" + "\n".join(r3) + "\n")
    if r4:
        out.append(f"""### 11.4 Round 4 - "a maintainer's refactoring gone wrong / an optimisation with a gap"

The sub-agents were told the titles of the six earlier changes of their property and were asked for
changes of the kind that get through review: de-duplicating refactorings that reorder two effects
(push before fetch, cost after transfer, `?` that skips a clean-up), iterator rewrites that drop an
error, narrowing integer types, fast paths and caches with one missing invalidation or one
off-by-one guard, coalesced copies keyed on a coincidence.  {s4['n']} changes so far.  **{s4['own']} are reported by the
property's own quick check; {s4['missed_first']} of them only after strengthenings** - and two of the misses (C07-M7,
C08-M7) were a defect of the machinery, not of the bounds: the unit that constructs the case existed,
but the known-finding defect models were evaluated on post-step memory and "explained" an instruction
that had overwritten its own extension word (§7.4).  The other strengthenings close classes the earlier
units left open: refused steps inside sequences, placements at region ends, stores into the instruction
stream at both alignments, coincidences among three ELF segments, call numbers above 2^16, argument
blocks over the call's own bookkeeping, zero / equal compare values without a clear source, 65536 register
rewrites between two cost queries, the whole address space at a stride, a vector table that the handlers
rewrite, lines cut into three pieces on the wire, the socket stream up to the end of the connection.
{s4['notrep']} not reported; {s4['notviol']} judged not to violate the property as stated.

{HEAD}
""" + "\n".join(r4) + "\n")
    if r5:
        out.append(f"""### 11.5 Rounds 5, 6 and 7 - "an edge of the quantifier / an interaction of two existing features" (all 20 properties), "a dimension the generator keeps constant" (4)

Round 5: twelve properties, while the final self-tests ran; round 6 (the following session): the other eight
(C02, C03, C04, C07, C08, C15, C18, C20), same brief.  Round 7 (M11, four properties: C12, C13, C14, C17): a change that keys on an *input
dimension a systematic generator keeps constant because it looks irrelevant* (a header field everyone writes the same
way, the unused top byte of a pointer, the neighbouring channel of a peripheral) - two of the four were missed and
led to strengthenings (C12: meaningless section-header / symbol fields vary; C17: writes to channel 1's registers),
one is a wrong JSR target that C13's guests do not exercise and C05 / C08 report.  The sub-agents were told the titles of
the eight earlier changes and asked for (M9) a natural-looking slip at an extreme-but-legal corner that the
FOR ALL explicitly includes and (M10) a change that breaks the property only where two existing features
of the emulator meet (an interrupt next to the operation, pause / resume, a host message in the same poll,
a sync threshold, the loader's layout, print / log flags, two peripherals at once).  {s5['n']} changes;
**{s5['own']} are reported by the property's own quick check, {s5['missed_first']} of them only after a strengthening**;
{s5['notrep']} are not reported by their own property's check (C01-M10: an unwind in run()'s trace line, reported by C15's check after
a strengthening; C13-M11: a wrong JSR @ERn target, reported by C05's and C08's checks); {s5['notviol']} judged not to violate the property as stated (C09-M10: a register moved by an instruction that ends in
an access error).

{HEAD}
""" + "\n".join(r5) + "\n")
    out.append(f"""### 11.{6 if r5 else (5 if r4 else (4 if r3 else 3))} Behaviour-preserving refactorings - the checks must stay silent

The opposite experiment: {nr} refactorings for {refactor_props()} properties.  R1 / R2: two per property; half of
them were explicitly asked to be *correct* optimisations that carry state across operations - memos
with complete keys, latches, lazily decoded settings - the kind of change the E2x units are most
likely to trip over.  R3 / R4 (after round 4): *correct* versions of exactly the kinds of change the
round-4 sub-agents had got subtly wrong - an instruction read-ahead with complete invalidation, an
aligned-read fast path that knows where the second register block ends, coalesced ELF copies checked
pairwise, a send worker that flushes on every exit path, a block-wise line splitter that appends its
tail, a timer loop on locals that compares after the wrap, a generation-counter cache of bus timings
that cannot come round, merged call / exception-entry routines that keep the order of fetch and push,
merged field parsers that do not widen what is accepted, a multi-entry instruction cache with correct
tags, a decoded-instruction memo validated at use, a dispatch table, one-decode immediates, a two-level
address decode, string tables indexed once with tail sharing, a handler cache validated against the
vector bytes, hoisted load / store tails that price the access before the register changes.  R5 / R6
(after round 5, eight properties): correct versions of the round-5 kinds - `try_interrupt` with Option
combinators that never pops under the mask, TRAPA and interrupts sharing an entry helper that leaves the
queue alone, a lazy argv iterator with a trace line that does not consume it, pacing state re-initialised
on cmd:start without touching the sync grid, an ioport validity check for exactly ports 1-B, messages
moved into the channel and still printed, timer events from a table, merged `pc_rel`, a GOT walk over
entry addresses, one PT_LOAD list for copy loop and image end, shared cost helpers for +/- forms and
RTS / RTE.  Each keeps the suite green and, by its
author's argument (most of them backed by a differential test against the old code), the property.
Result: the registered checks were silent on {nr - alarms} of {nr}; **{alarms} raised an alarm that turned out
to be a false alarm of the machinery** (C10-R2: order among simultaneously pending requests;
C01-R3, C09-R3 and C04-R3: a correct read-ahead / instruction cache made stale by the harness's own
set-up writes; §7.4), all corrected - the last three by moving every set-up write of the harness onto
`Bus::write`.  Where a refactoring deliberately picked a different behaviour that
the statement allows (C01-R2: `MOV Rs,@-ERn` with Rs inside ERn; C10-R2: lowest vector first;
C17-R2: no overflow of the elapsed-state accumulator), the checks accept it.

| id | files changed | refactoring (sub-agent's title) | registered quick checks | note |
|----|------|------|------|------|
""" + "\n".join(rr) + "\n")
    out.append("""(`first reporting unit` is the first unit in report order that fails; the evidence and replay
files of such a run name all of them.)

---------------------------------------------------------------------------
""")
    return "\n".join(out)

if __name__ == '__main__':
    sec = section()
    if '--write' in sys.argv:
        p = '/verif/DESIGN.md'
        s = open(p).read()
        a = s.index('## 11. Seeded changes')
        b = s.index('## Appendix A')
        open(p, 'w').write(s[:a] + sec + "\n" + s[b:])
        print("section 11 rewritten")
    else:
        print(sec)
