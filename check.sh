#!/bin/bash
# usage: ./check.sh <property-id> <quick|thorough>      run one property check
#        ./check.sh replay <path>                       replay a counterexample file
# Rebuilds the harness from /repo's current working tree (hooks on: --cfg koge29_verif
# is emitted by harness/build.rs) and runs the check.
# exit 0 = property held on everything explored; 1 = VIOLATION; 2 = machinery error.
set -uo pipefail
VERIF="$(cd "$(dirname "${BASH_SOURCE[0]}")" && pwd)"
export CARGO_NET_OFFLINE=true RUST_BACKTRACE=0 RUST_LIB_BACKTRACE=0
export VERIF_DIR="$VERIF"
REPLAY_PATH=""
if [ "${1:-}" = "replay" ]; then REPLAY_PATH="$(realpath "${2:?path}")"; fi
mkdir -p "$VERIF/.work" "$VERIF/evidence" "$VERIF/replays"
# links + builds are serialised across checks that are started at the same time (the runs themselves are not)
exec 9>"$VERIF/.work/build.lock"
command -v flock >/dev/null 2>&1 && flock 9
"$VERIF/links.sh" || { echo "MACHINERY-ERROR: links.sh failed"; exit 2; }
cd "$VERIF/harness"
build() {
  local log
  log="$(mktemp "$VERIF/.work/build.XXXXXX")"
  if ! CARGO_TARGET_DIR="$VERIF/harness/target" cargo build --offline "$@" >"$log" 2>&1; then
    grep -E '^(error|warning: unused)' -A12 "$log" | head -80
    echo "MACHINERY-ERROR: harness build failed (cargo build $*)"
    rm -f "$log"
    exit 2
  fi
  rm -f "$log"
}
build --release
# E6 units run the repository's own binary (guard off), built into a cache under /verif
case "${1:-}" in
  C12|C13|C18)
    if ! ( cd /repo && CARGO_TARGET_DIR="$VERIF/.cache/repo-target" cargo build --offline --release >"$VERIF/.work/repo-build.log" 2>&1 ); then
      tail -20 "$VERIF/.work/repo-build.log"
      echo "MACHINERY-ERROR: building the repository binary failed"
      exit 2
    fi
    export VERIF_REPO_BIN="$VERIF/.cache/repo-target/release/koge29_h8-3069f_emulator"
    ;;
esac
case "${1:-}" in
  C15|replay) build --profile ovf ;;
esac
command -v flock >/dev/null 2>&1 && flock -u 9
exec 9>&-
if [ "${1:-}" = "replay" ]; then
  exec "$VERIF/harness/target/release/h8verif" replay "$REPLAY_PATH"
fi
ID="${1:?property id}"
TIER="${2:-${VERIF_TIER:-quick}}"
exec "$VERIF/harness/target/release/h8verif" check "$ID" --tier "$TIER"
