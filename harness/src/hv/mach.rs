//! The real emulator object plus a shadow ("expected") copy of all guest memory.
//!
//! Invariant between cases: real memory == shadow memory == pristine image
//! (address-tagged pattern).  Every byte is either compared at the periodic full
//! comparison or checked immediately before it is next overwritten, so a stray
//! write by the implementation is always detected (DESIGN.md §5-E1).

use crate::cpu::Cpu;
use super::sem::{self, MemRead};

pub const VEC_LO: u32 = 0x000000;
pub const VEC_HI: u32 = 0x0000ff;
pub const DRAM_LO: u32 = 0x400000;
pub const DRAM_HI: u32 = 0x5fffff;
pub const IO1_LO: u32 = 0xfee000;
pub const IO1_HI: u32 = 0xfee0ff;
pub const RAM_LO: u32 = 0xffbf20;
pub const RAM_HI: u32 = 0xffff1f;
pub const IO2_LO: u32 = 0xffff20;
pub const IO2_HI: u32 = 0xffffe9;

pub const ABWCR: u32 = 0xfee020;
pub const ASTCR: u32 = 0xfee021;
pub const WCRH: u32 = 0xfee022;
pub const WCRL: u32 = 0xfee023;
pub const DRCRA: u32 = 0xfee026;

/// Address tag: neighbouring bytes differ and any aligned 2/4-byte group identifies its
/// address among its neighbours, so a misplaced access shows up in the data.
#[inline]
pub fn tag(a: u32) -> u8 {
    let x = a.wrapping_mul(0x9E37_79B1);
    ((x >> 24) ^ (x >> 11) ^ a) as u8
}

/// Content of the pristine image at a mapped address.
#[inline]
pub fn pristine(a: u32) -> u8 {
    match a {
        IO1_LO..=IO1_HI => match a {
            // bus-controller registers as `run()` initialises them
            ABWCR => 0xff,
            ASTCR => 0xfb,
            WCRH => 0xff,
            WCRL => 0xcf,
            DRCRA => 0xe0,
            _ => 0,
        },
        IO2_LO..=IO2_HI => {
            if sem::is_port_reg(a) || sem::is_timer_reg(a) {
                0
            } else {
                tag(a)
            }
        }
        _ => tag(a),
    }
}

pub struct Shadow {
    pub vec: Box<[u8]>,
    pub dram: Box<[u8]>,
    pub io1: Box<[u8]>,
    pub ram: Box<[u8]>,
    pub io2: Box<[u8]>,
}

pub struct Mach {
    pub cpu: Cpu,
    pub sh: Shadow,
    dirty: Vec<u32>,
    sticky: Vec<(u32, u8)>,
    sticky_lo: u32,
    sticky_hi: u32,
    /// set when a pre-overwrite check found real != shadow (stray write by an earlier case)
    pub stray: Option<u32>,
    /// incremented whenever the sticky set changes (decode cache key)
    pub sticky_gen: u64,
}

#[inline]
fn slot<'a>(vec: &'a mut [u8], dram: &'a mut [u8], io1: &'a mut [u8], ram: &'a mut [u8], io2: &'a mut [u8], a: u32) -> Option<&'a mut u8> {
    match a {
        VEC_LO..=VEC_HI => Some(&mut vec[a as usize]),
        DRAM_LO..=DRAM_HI => Some(&mut dram[(a - DRAM_LO) as usize]),
        IO1_LO..=IO1_HI => Some(&mut io1[(a - IO1_LO) as usize]),
        RAM_LO..=RAM_HI => Some(&mut ram[(a - RAM_LO) as usize]),
        IO2_LO..=IO2_HI => Some(&mut io2[(a - IO2_LO) as usize]),
        _ => None,
    }
}

impl Mach {
    pub fn new() -> Mach {
        let cpu = Cpu::new();
        let sh = Shadow {
            vec: vec![0u8; 0x100].into_boxed_slice(),
            dram: vec![0u8; 0x200000].into_boxed_slice(),
            io1: vec![0u8; 0x100].into_boxed_slice(),
            ram: vec![0u8; (RAM_HI - RAM_LO + 1) as usize].into_boxed_slice(),
            io2: vec![0u8; (IO2_HI - IO2_LO + 1) as usize].into_boxed_slice(),
        };
        let mut m = Mach { cpu, sh, dirty: Vec::with_capacity(64), sticky: Vec::with_capacity(64), sticky_lo: u32::MAX, sticky_hi: 0, stray: None, sticky_gen: 1 };
        assert_eq!(m.cpu.bus.exception_handling_vector.len(), 0x100);
        assert_eq!(m.cpu.bus.dram.len(), 0x200000);
        assert_eq!(m.cpu.bus.io_registrs1.len(), 0x100);
        assert_eq!(m.cpu.bus.memory.len(), (RAM_HI - RAM_LO + 1) as usize);
        assert_eq!(m.cpu.bus.io_registrs2.len(), (IO2_HI - IO2_LO + 1) as usize);
        m.fill_pristine();
        m
    }

    pub fn fill_pristine(&mut self) {
        for r in [(VEC_LO, VEC_HI), (DRAM_LO, DRAM_HI), (IO1_LO, IO1_HI), (RAM_LO, RAM_HI), (IO2_LO, IO2_HI)] {
            for a in r.0..=r.1 {
                let p = pristine(a);
                self.store_real(a, p);
                *self.shadow_slot(a).unwrap() = p;
            }
        }
        self.dirty.clear();
        self.sticky.clear();
        self.sticky_lo = u32::MAX;
        self.sticky_hi = 0;
        self.stray = None;
    }

    #[inline]
    pub fn real_slot(&mut self, a: u32) -> Option<&mut u8> {
        let b = &mut self.cpu.bus;
        slot(&mut b.exception_handling_vector, &mut b.dram, &mut b.io_registrs1, &mut b.memory[..], &mut b.io_registrs2, a)
    }

    /// Store into the real machine.  Bus-controller and other non-port registers of the first register block
    /// are written through `Bus::write`, the path the emulator itself (init_registers) and its own tests use,
    /// so that an implementation that decodes these registers when they are written stays coherent; plain
    /// memory is written into the storage arrays directly, as the ELF loader does.
    #[inline]
    pub fn store_real(&mut self, a: u32, v: u8) {
        let plain = matches!(a, VEC_LO..=VEC_HI | DRAM_LO..=DRAM_HI | RAM_LO..=RAM_HI);
        if plain || ((IO1_LO..=IO1_HI).contains(&a) && !sem::is_port_reg(a)) {
            let _ = self.cpu.bus.write(a, v);
            if plain {
                // (a store the implementation refuses or diverts is not the harness's to hide: the byte is then
                // simply not there and the next comparison with the shadow says so)
                return;
            }
        } else if let Some(s) = self.real_slot(a) {
            *s = v;
        }
    }

    /// Set-up write in the *middle* of a sequence (code loaded at a new PC after a jump or a refused step):
    /// plain memory goes through `Bus::write`, the path an external writer (a host `u8:` message) takes while a
    /// program runs, so that an implementation that keeps a word read ahead sees the store.
    pub fn poke_mid_sequence(&mut self, a: u32, v: u8) {
        if !sem::mapped(a) {
            return;
        }
        self.pre_check(a);
        let plain = matches!(a, VEC_LO..=VEC_HI | DRAM_LO..=DRAM_HI | RAM_LO..=RAM_HI);
        if plain {
            let _ = self.cpu.bus.write(a, v);
        } else {
            self.store_real(a, v);
        }
        *self.shadow_slot(a).unwrap() = v;
        self.dirty.push(a);
    }

    #[inline]
    pub fn shadow_slot(&mut self, a: u32) -> Option<&mut u8> {
        let s = &mut self.sh;
        slot(&mut s.vec, &mut s.dram, &mut s.io1, &mut s.ram, &mut s.io2, a)
    }

    #[inline]
    pub fn peek(&self, a: u32) -> Option<u8> {
        let b = &self.cpu.bus;
        match a {
            VEC_LO..=VEC_HI => Some(b.exception_handling_vector[a as usize]),
            DRAM_LO..=DRAM_HI => Some(b.dram[(a - DRAM_LO) as usize]),
            IO1_LO..=IO1_HI => Some(b.io_registrs1[(a - IO1_LO) as usize]),
            RAM_LO..=RAM_HI => Some(b.memory[(a - RAM_LO) as usize]),
            IO2_LO..=IO2_HI => Some(b.io_registrs2[(a - IO2_LO) as usize]),
            _ => None,
        }
    }

    #[inline]
    pub fn peek_shadow(&self, a: u32) -> Option<u8> {
        let s = &self.sh;
        match a {
            VEC_LO..=VEC_HI => Some(s.vec[a as usize]),
            DRAM_LO..=DRAM_HI => Some(s.dram[(a - DRAM_LO) as usize]),
            IO1_LO..=IO1_HI => Some(s.io1[(a - IO1_LO) as usize]),
            RAM_LO..=RAM_HI => Some(s.ram[(a - RAM_LO) as usize]),
            IO2_LO..=IO2_HI => Some(s.io2[(a - IO2_LO) as usize]),
            _ => None,
        }
    }

    /// check real == shadow at `a` before the byte is overwritten
    #[inline]
    fn pre_check(&mut self, a: u32) {
        if self.peek(a) != self.peek_shadow(a) && self.stray.is_none() {
            self.stray = Some(a);
        }
    }

    /// Case set-up write (both copies); restored by `restore()`.  Unmapped addresses are ignored.
    #[inline]
    pub fn poke(&mut self, a: u32, v: u8) {
        if !sem::mapped(a) {
            return;
        }
        self.pre_check(a);
        self.store_real(a, v);
        *self.shadow_slot(a).unwrap() = v;
        self.dirty.push(a);
    }

    /// Set-up write that survives `restore()` until `end_sticky()`.
    pub fn poke_sticky(&mut self, a: u32, v: u8) {
        if !sem::mapped(a) {
            return;
        }
        self.pre_check(a);
        self.store_real(a, v);
        *self.shadow_slot(a).unwrap() = v;
        self.sticky.push((a, v));
        self.sticky_gen += 1;
        self.sticky_lo = self.sticky_lo.min(a);
        self.sticky_hi = self.sticky_hi.max(a);
    }

    pub fn poke_bytes(&mut self, a: u32, bytes: &[u8]) {
        for (k, &b) in bytes.iter().enumerate() {
            self.poke(a.wrapping_add(k as u32), b);
        }
    }

    pub fn poke_bytes_sticky(&mut self, a: u32, bytes: &[u8]) {
        for (k, &b) in bytes.iter().enumerate() {
            self.poke_sticky(a.wrapping_add(k as u32), b);
        }
    }

    /// Announce that the implementation is expected to write `a` in the coming step.
    #[inline]
    pub fn expect_write_pre(&mut self, a: u32) {
        self.pre_check(a);
        self.dirty.push(a);
    }

    /// Mark `a` as written by the case (no pre-check): restored to pristine by `restore()`.
    #[inline]
    pub fn mark_dirty(&mut self, a: u32) {
        self.dirty.push(a);
    }

    /// After the step: make the shadow agree with the accepted content of `a`.
    #[inline]
    pub fn accept(&mut self, a: u32) {
        if let Some(v) = self.peek(a) {
            *self.shadow_slot(a).unwrap() = v;
        }
    }

    /// Undo the per-case writes (both copies back to the pristine image).
    #[inline]
    pub fn restore(&mut self) {
        let mut touched_sticky = false;
        while let Some(a) = self.dirty.pop() {
            let p = pristine(a);
            self.store_real(a, p);
            *self.shadow_slot(a).unwrap() = p;
            if a >= self.sticky_lo && a <= self.sticky_hi {
                touched_sticky = true;
            }
        }
        if touched_sticky {
            // a case overwrote a sticky byte (e.g. a store into the code): put the sticky value back
            for k in 0..self.sticky.len() {
                let (a, v) = self.sticky[k];
                self.store_real(a, v);
                *self.shadow_slot(a).unwrap() = v;
            }
        }
    }

    pub fn end_sticky(&mut self) {
        self.sticky_gen += 1;
        self.sticky_lo = u32::MAX;
        self.sticky_hi = 0;
        while let Some((a, _)) = self.sticky.pop() {
            let p = pristine(a);
            self.store_real(a, p);
            *self.shadow_slot(a).unwrap() = p;
        }
    }

    /// Full comparison of every guest byte, real vs shadow.  Returns the first differing address.
    pub fn full_compare(&self) -> Option<u32> {
        let b = &self.cpu.bus;
        let s = &self.sh;
        if b.dram[..] != s.dram[..] {
            let k = b.dram.iter().zip(s.dram.iter()).position(|(x, y)| x != y).unwrap();
            return Some(DRAM_LO + k as u32);
        }
        if b.memory[..] != s.ram[..] {
            let k = b.memory.iter().zip(s.ram.iter()).position(|(x, y)| x != y).unwrap();
            return Some(RAM_LO + k as u32);
        }
        if b.exception_handling_vector[..] != s.vec[..] {
            let k = b.exception_handling_vector.iter().zip(s.vec.iter()).position(|(x, y)| x != y).unwrap();
            return Some(VEC_LO + k as u32);
        }
        if b.io_registrs1[..] != s.io1[..] {
            let k = b.io_registrs1.iter().zip(s.io1.iter()).position(|(x, y)| x != y).unwrap();
            return Some(IO1_LO + k as u32);
        }
        if b.io_registrs2[..] != s.io2[..] {
            let k = b.io_registrs2.iter().zip(s.io2.iter()).position(|(x, y)| x != y).unwrap();
            return Some(IO2_LO + k as u32);
        }
        None
    }

    /// The shadow takes over whatever real memory holds now (after the real ELF loader has written an image).
    pub fn shadow_from_real(&mut self) {
        let b = &self.cpu.bus;
        let s = &mut self.sh;
        s.dram.copy_from_slice(&b.dram);
        s.ram.copy_from_slice(&b.memory[..]);
        s.vec.copy_from_slice(&b.exception_handling_vector);
        s.io1.copy_from_slice(&b.io_registrs1);
        s.io2.copy_from_slice(&b.io_registrs2);
        self.stray = None;
    }

    /// Make real memory equal to the shadow again (after a reported / tolerated divergence).
    pub fn resync_from_shadow(&mut self) {
        let s = &self.sh;
        let b = &mut self.cpu.bus;
        b.dram.copy_from_slice(&s.dram);
        b.memory[..].copy_from_slice(&s.ram);
        b.exception_handling_vector.copy_from_slice(&s.vec);
        b.io_registrs1.copy_from_slice(&s.io1);
        b.io_registrs2.copy_from_slice(&s.io2);
        for a in IO1_LO..=IO1_HI {
            if !sem::is_port_reg(a) {
                let v = self.sh.io1[(a - IO1_LO) as usize];
                let _ = self.cpu.bus.write(a, v);
            }
        }
        self.stray = None;
    }
}

/// Read-only view of the real pre-state memory for the reference semantics.
pub struct RealMem<'a>(pub &'a Mach);
impl<'a> MemRead for RealMem<'a> {
    #[inline]
    fn rd(&self, a: u32) -> u8 {
        self.0.peek(a).unwrap_or(0)
    }
}
