//! E1 — single-transition lock-step engine: one case = one instruction step (or one
//! interrupt acceptance) of the real `Cpu`, compared with the reference outcome.

use super::isa::{Decoded, Fields, Isa, ROWS};
use super::mach::{self, Mach, RealMem};
use super::sem::{self, Class, Cyc, Defects, RefIn, RefOut, Small};
use crate::cpu::StateType;
use serde_json::{json, Value};
use std::collections::BTreeMap;
use std::panic::{catch_unwind, AssertUnwindSafe};

#[derive(Clone, Copy, PartialEq, Eq, Debug)]
pub enum Kind {
    Step,
    /// request + accept interrupt `vector` at the boundary (no instruction executed)
    Irq(u8),
    /// a peripheral requests interrupt `vector`; nothing is accepted here (sequences only)
    Req(u8),
    /// an instruction boundary: the CPU looks at its pending requests (sequences only)
    Bound,
    /// a byte written through `Bus::write` from outside the CPU, as the control socket's `u8:` line does
    Host(u32, u8),
}

#[derive(Clone, Debug)]
pub struct Case {
    pub kind: Kind,
    pub pc: u32,
    pub code: [u8; 12],
    pub code_len: u8,
    /// code bytes are already in memory (sticky pokes by the unit)
    pub code_sticky: bool,
    pub er: [u32; 8],
    pub ccr: u8,
    pub patches: Small<(u32, u8), 24>,
    pub check_cycles: bool,
    /// larger memory image (programs): (address, bytes) blocks poked before the run
    pub image: Vec<(u32, Vec<u8>)>,
}

impl Case {
    pub fn new(pc: u32, code: &[u8]) -> Case {
        let mut c = Case {
            kind: Kind::Step,
            pc,
            code: [0; 12],
            code_len: 12,
            code_sticky: false,
            er: [0; 8],
            ccr: 0,
            patches: Small::new(),
            check_cycles: false,
            image: Vec::new(),
        };
        c.code[..code.len()].copy_from_slice(code);
        // benign padding after the instruction: BRN-like words would be "implemented"; use 0xffff-free
        // filler that decodes to MOV.B #imm (harmless, no memory access) so that an over-long fetch is visible in PC only
        for k in code.len()..12 {
            c.code[k] = if k % 2 == 0 { 0xf0 } else { 0x00 };
        }
        c
    }
    pub fn patch(&mut self, a: u32, v: u8) {
        self.patches.push((a, v));
    }
    pub fn patch_bytes(&mut self, a: u32, bytes: &[u8]) {
        for (k, &b) in bytes.iter().enumerate() {
            self.patches.push((a.wrapping_add(k as u32), b));
        }
    }
    pub fn patch_l(&mut self, a: u32, v: u32) {
        self.patch_bytes(a, &v.to_be_bytes());
    }
    pub fn to_json(&self) -> Value {
        json!({
            "kind": match self.kind { Kind::Step => json!("step"), Kind::Irq(v) => json!({"irq": v}), Kind::Req(v) => json!({"req": v}), Kind::Bound => json!("bound"), Kind::Host(a, v) => json!({"host": format!("{:06x}={:02x}", a, v)}) },
            "pc": format!("{:06x}", self.pc),
            "code": hex(&self.code[..self.code_len as usize]),
            "er": self.er.iter().map(|x| format!("{:08x}", x)).collect::<Vec<_>>(),
            "ccr": format!("{:02x}", self.ccr),
            "patches": self.patches.as_slice().iter().map(|(a, v)| format!("{:06x}={:02x}", a, v)).collect::<Vec<_>>(),
            "check_cycles": self.check_cycles,
            "image": self.image.iter().map(|(a, b)| format!("{:06x}:{}", a, hex(b))).collect::<Vec<_>>(),
        })
    }
    pub fn from_json(v: &Value) -> Option<Case> {
        let pc = u32::from_str_radix(v["pc"].as_str()?, 16).ok()?;
        let code = unhex(v["code"].as_str()?)?;
        let mut c = Case::new(pc, &[]);
        c.code_len = code.len() as u8;
        c.code[..code.len()].copy_from_slice(&code);
        c.kind = if v["kind"] == "bound" {
            Kind::Bound
        } else if v["kind"].is_string() {
            Kind::Step
        } else if let Some(r) = v["kind"]["req"].as_u64() {
            Kind::Req(r as u8)
        } else if let Some(h) = v["kind"]["host"].as_str() {
            let (a, b) = h.split_once('=')?;
            Kind::Host(u32::from_str_radix(a, 16).ok()?, u8::from_str_radix(b, 16).ok()?)
        } else {
            Kind::Irq(v["kind"]["irq"].as_u64()? as u8)
        };
        for (k, e) in v["er"].as_array()?.iter().enumerate() {
            c.er[k] = u32::from_str_radix(e.as_str()?, 16).ok()?;
        }
        c.ccr = u8::from_str_radix(v["ccr"].as_str()?, 16).ok()?;
        for p in v["patches"].as_array()? {
            let s = p.as_str()?;
            let (a, b) = s.split_once('=')?;
            c.patches.push((u32::from_str_radix(a, 16).ok()?, u8::from_str_radix(b, 16).ok()?));
        }
        c.check_cycles = v["check_cycles"].as_bool().unwrap_or(false);
        if let Some(img) = v["image"].as_array() {
            for b in img {
                let (a, h) = b.as_str()?.split_once(':')?;
                c.image.push((u32::from_str_radix(a, 16).ok()?, unhex(h)?));
            }
        }
        Some(c)
    }
}

pub fn hex(b: &[u8]) -> String {
    b.iter().map(|x| format!("{:02x}", x)).collect::<Vec<_>>().join("")
}
pub fn unhex(s: &str) -> Option<Vec<u8>> {
    if s.len() % 2 != 0 {
        return None;
    }
    (0..s.len() / 2).map(|i| u8::from_str_radix(&s[2 * i..2 * i + 2], 16).ok()).collect()
}

#[derive(Clone, Debug, PartialEq, Eq)]
pub enum Actual {
    Ok(u8),
    Err(String),
    Panic(String),
}

#[derive(Clone, Debug)]
pub struct Violation {
    /// which replay handler understands `case` ("e1" unless stated)
    pub engine: String,
    pub unit: String,
    pub what: String,
    pub case: Value,
    pub expected: Value,
    pub actual: Value,
}
impl Violation {
    pub fn to_json(&self) -> Value {
        json!({"engine": self.engine, "unit": self.unit, "what": self.what, "case": self.case, "expected": self.expected, "actual": self.actual})
    }
}

#[derive(Clone, Debug, Default)]
pub struct Stats {
    pub cases: u64,
    /// cases whose reference outcome is Ok and changed architectural state beyond PC, or is an error outcome
    pub nontrivial: u64,
    pub exp_ok: u64,
    pub exp_err: u64,
    pub exp_any: u64,
    pub act_ok: u64,
    pub act_err: u64,
    pub act_panic: u64,
    pub any_executed: u64,
    pub cycles_checked: u64,
    pub full_compares: u64,
    pub paranoid_reruns: u64,
    pub outcome_bits: Vec<u64>, // bitmap of outcome hashes (lower bound on distinct outcomes)
    pub forms: BTreeMap<String, u64>,
    pub form_counts: Vec<u64>,
    pub open_notes: BTreeMap<&'static str, u64>,
    pub known: BTreeMap<String, (u64, Value)>,
    pub violations: Vec<Violation>,
    pub violations_total: u64,
    pub samples: Vec<Value>,
    pub notes: BTreeMap<String, u64>,
}

const OUTCOME_WORDS: usize = 1024; // 65536 bits

impl Stats {
    pub fn new() -> Stats {
        Stats { outcome_bits: vec![0; OUTCOME_WORDS], form_counts: vec![0; ROWS.len()], ..Default::default() }
    }
    /// fold the fast counters into the string-keyed maps
    pub fn fold(&mut self) {
        for (k, n) in self.form_counts.iter_mut().enumerate() {
            if *n > 0 {
                *self.forms.entry(ROWS[k].name.to_string()).or_insert(0) += *n;
                *n = 0;
            }
        }
        let on = std::mem::take(&mut self.open_notes);
        for (k, n) in on {
            *self.notes.entry(format!("open: {}", k)).or_insert(0) += n;
        }
    }
    pub fn distinct_outcomes(&self) -> u64 {
        self.outcome_bits.iter().map(|w| w.count_ones() as u64).sum()
    }
    pub fn merge(&mut self, o: &Stats) {
        let mut o2;
        let o = if o.form_counts.iter().any(|x| *x > 0) || !o.open_notes.is_empty() {
            o2 = o.clone();
            o2.fold();
            &o2
        } else {
            o
        };
        self.cases += o.cases;
        self.nontrivial += o.nontrivial;
        self.exp_ok += o.exp_ok;
        self.exp_err += o.exp_err;
        self.exp_any += o.exp_any;
        self.act_ok += o.act_ok;
        self.act_err += o.act_err;
        self.act_panic += o.act_panic;
        self.any_executed += o.any_executed;
        self.cycles_checked += o.cycles_checked;
        self.full_compares += o.full_compares;
        self.paranoid_reruns += o.paranoid_reruns;
        if self.outcome_bits.len() < OUTCOME_WORDS {
            self.outcome_bits.resize(OUTCOME_WORDS, 0);
        }
        for (a, b) in self.outcome_bits.iter_mut().zip(o.outcome_bits.iter()) {
            *a |= *b;
        }
        for (k, v) in &o.forms {
            *self.forms.entry(k.clone()).or_insert(0) += v;
        }
        for (k, v) in &o.notes {
            *self.notes.entry(k.clone()).or_insert(0) += v;
        }
        for (k, (n, first)) in &o.known {
            let e = self.known.entry(k.clone()).or_insert((0, first.clone()));
            e.0 += n;
        }
        for v in &o.violations {
            if self.violations.len() < MAX_VIOLATIONS_KEPT {
                self.violations.push(v.clone());
            }
        }
        self.violations_total += o.violations_total;
        for s in &o.samples {
            if self.samples.len() < 4 {
                self.samples.push(s.clone());
            }
        }
    }
    pub fn to_json(&self) -> Value {
        json!({
            "cases": self.cases, "nontrivial": self.nontrivial,
            "exp_ok": self.exp_ok, "exp_err": self.exp_err, "exp_any": self.exp_any,
            "act_ok": self.act_ok, "act_err": self.act_err, "act_panic": self.act_panic,
            "any_executed": self.any_executed, "cycles_checked": self.cycles_checked,
            "full_compares": self.full_compares, "paranoid_reruns": self.paranoid_reruns,
            "outcome_bits": self.outcome_bits.iter().map(|w| format!("{:x}", w)).collect::<Vec<_>>().join(","),
            "forms": self.forms, "notes": self.notes,
            "known": self.known.iter().map(|(k, (n, f))| (k.clone(), json!({"n": n, "first": f}))).collect::<BTreeMap<_, _>>(),
            "violations": self.violations.iter().map(|v| v.to_json()).collect::<Vec<_>>(),
            "violations_total": self.violations_total,
            "samples": self.samples,
        })
    }
    pub fn from_json(v: &Value) -> Stats {
        let mut s = Stats::new();
        let g = |k: &str| v[k].as_u64().unwrap_or(0);
        s.cases = g("cases");
        s.nontrivial = g("nontrivial");
        s.exp_ok = g("exp_ok");
        s.exp_err = g("exp_err");
        s.exp_any = g("exp_any");
        s.act_ok = g("act_ok");
        s.act_err = g("act_err");
        s.act_panic = g("act_panic");
        s.any_executed = g("any_executed");
        s.cycles_checked = g("cycles_checked");
        s.full_compares = g("full_compares");
        s.paranoid_reruns = g("paranoid_reruns");
        if let Some(bits) = v["outcome_bits"].as_str() {
            for (k, w) in bits.split(',').enumerate() {
                if k < OUTCOME_WORDS {
                    s.outcome_bits[k] = u64::from_str_radix(w, 16).unwrap_or(0);
                }
            }
        }
        if let Some(m) = v["forms"].as_object() {
            for (k, n) in m {
                s.forms.insert(k.clone(), n.as_u64().unwrap_or(0));
            }
        }
        if let Some(m) = v["notes"].as_object() {
            for (k, n) in m {
                s.notes.insert(k.clone(), n.as_u64().unwrap_or(0));
            }
        }
        if let Some(m) = v["known"].as_object() {
            for (k, e) in m {
                s.known.insert(k.clone(), (e["n"].as_u64().unwrap_or(0), e["first"].clone()));
            }
        }
        if let Some(a) = v["violations"].as_array() {
            for e in a {
                s.violations.push(Violation {
                    engine: e["engine"].as_str().unwrap_or("e1").to_string(),
                    unit: e["unit"].as_str().unwrap_or("").to_string(),
                    what: e["what"].as_str().unwrap_or("").to_string(),
                    case: e["case"].clone(),
                    expected: e["expected"].clone(),
                    actual: e["actual"].clone(),
                });
            }
        }
        s.violations_total = g("violations_total");
        if let Some(a) = v["samples"].as_array() {
            s.samples = a.clone();
        }
        s
    }
}

pub const MAX_VIOLATIONS_KEPT: usize = 8;
/// a unit stops exploring after this many violations (reported as not exhaustive)
pub fn max_violations_per_unit() -> u64 {
    static V: std::sync::OnceLock<u64> = std::sync::OnceLock::new();
    *V.get_or_init(|| std::env::var("VERIF_MAX_VIOLATIONS").ok().and_then(|s| s.parse().ok()).unwrap_or(64))
}

pub const FULL_COMPARE_EVERY: u64 = 4096;

pub struct Ctx {
    pub isa: Isa,
    pub m: Mach,
    pub st: Stats,
    pub unit: String,
    /// keys of known findings that may explain a mismatch for the running property
    pub known_keys: Vec<String>,
    /// keys of known findings listed for *other* properties: a cross-form sequence may pass through such an
    /// instruction on its way to this property's form; the explained step is accepted silently (it is neither
    /// a violation nor a known finding of the property under check) and the lock step continues
    pub foreign_keys: Vec<String>,
    pub paranoid: bool,
    pub frozen: bool,
    pub stray_detected: bool,
    pub since_full: u64,
    last_code: [u8; 12],
    last_dec: Decoded,
    last_key: (u32, u64),
    pub want_samples: usize,
    /// per-case decision hook: ignore mismatches of cases in classes the property leaves open
    pub stop: bool,
    /// record per-form counts (slower); enabled for moderate-size units
    pub count_forms: bool,
    pub canary: Option<Canary>,
    pub canary_fired: u64,
    wlog: Vec<u32>,
    /// C20: only the charge is this property's business; semantic differences belong to C01-C08
    pub cycles_only: bool,
    /// C15: the only question is whether the emulator unwinds
    pub panic_only: bool,
    /// C09: W/L operands at odd addresses are checked as compositions of consecutive bytes
    pub strict_odd: bool,
    /// attached to sequence counterexamples: how the generating unit can re-create this very program (replay with the unit's own oracles)
    pub seq_tag: Option<Value>,
    /// reference model of the interrupt controller's pending FIFO (sequences with Req / Bound actions)
    pub refq: Vec<u8>,
    /// compare the real pending FIFO with `refq` after every action of a sequence
    pub track_queue: bool,
    /// the case's PC is odd on purpose: the instruction is the one at PC & !1, bit 0 of the resulting PC is
    /// not compared, and an error outcome is accepted as well (the properties leave odd PCs open: both the
    /// manual's "bit 0 is ignored" and a rejection satisfy them; executing a *different* instruction does not)
    pub odd_pc: bool,
    /// C20 in cross-form sequences: per-cycle costs come from the closed form of C19 evaluated on the settings
    /// now in the bus-controller registers instead of from the implementation's own cost function, so that a
    /// charge computed from stale settings (a guest instruction has just rewritten a register) is visible
    pub closed_form_cost: bool,
    /// C15: a step is executed by the real `Cpu::run()` (one loop iteration, then the run-loop hook ends the run)
    /// instead of by fetch+exec, so that run()'s own error path sees every failing instruction
    pub via_run: bool,
    /// long programs (real compiler output, loop idioms): an open outcome (TRAPA #0, a store into a port or timer
    /// register, an undefined encoding) does not end the lock step; what the step wrote is accepted and the walk goes on
    /// from the state the implementation is in
    pub continue_open: bool,
    /// PC of the previous single-step case (a case at another address first makes the CPU forget read-ahead state)
    pub last_case_pc: u32,
    /// sequences: a step that the implementation refuses with an error (and that the reference rejects or leaves
    /// open) does not end the sequence - the stepping caller goes on from whatever state the implementation is in
    pub continue_after_err: bool,
    /// long programs are registered under several properties: a deviating step is a violation only for the property
    /// that owns the instruction (the others stop silently; the owner's check reports it)
    pub seq_owner: Option<&'static str>,
}

/// Built-in self-test of the comparison: perturb the reference for selected cases and require a mismatch.
#[derive(Clone, Copy, PartialEq, Eq, Debug)]
pub enum Canary {
    FlipCcrBit(u8),
    BumpPc,
    FlipErBit(usize),
}

#[derive(Clone, Debug)]
pub struct Diff {
    pub what: String,
}

impl Ctx {
    pub fn new() -> Ctx {
        Ctx {
            isa: Isa::new(),
            m: Mach::new(),
            st: Stats::new(),
            unit: String::new(),
            known_keys: Vec::new(),
            foreign_keys: Vec::new(),
            paranoid: false,
            frozen: false,
            stray_detected: false,
            since_full: 0,
            last_code: [0xaa; 12],
            last_dec: Decoded::Undefined,
            last_key: (0xffff_ffff, 0),
            want_samples: 2,
            stop: false,
            count_forms: true,
            canary: None,
            canary_fired: 0,
            wlog: Vec::with_capacity(64),
            cycles_only: false,
            panic_only: false,
            strict_odd: false,
            seq_tag: None,
            refq: Vec::new(),
            track_queue: false,
            odd_pc: false,
            closed_form_cost: false,
            via_run: false,
            continue_open: false,
            last_case_pc: 0xffff_ffff,
            continue_after_err: false,
            seq_owner: None,
        }
    }

    pub fn asm(&self, name: &str, f: &Fields) -> Vec<u8> {
        self.isa.encode(self.isa.row(name), f)
    }

    fn unit_cost(&self, kind: Cyc, addr: u32) -> Option<u32> {
        if self.closed_form_cost {
            let k = match kind {
                Cyc::I => 'I',
                Cyc::J => 'J',
                Cyc::K => 'K',
                Cyc::L => 'L',
                Cyc::M => 'M',
                Cyc::N => return Some(1),
            };
            // on-chip I/O register addresses are outside C19/C20 (documented TODO): fall back to the implementation
            if !((0xfee000..=0xfee0ff).contains(&addr) || (0xffff20..=0xffffe9).contains(&addr)) {
                return super::props::tables::closed_cost(&self.m.cpu.bus.io_registrs1[..], k, addr);
            }
        }
        let st = match kind {
            Cyc::I => StateType::I,
            Cyc::J => StateType::J,
            Cyc::K => StateType::K,
            Cyc::L => StateType::L,
            Cyc::M => StateType::M,
            Cyc::N => return Some(1),
        };
        // the implementation's own per-cycle cost (C19 decides whether *that* is right)
        self.m.cpu.calc_state_with_addr(st, 1, addr).ok().map(|x| x as u32)
    }

    pub fn expected_cycles(&self, ro: &RefOut) -> Option<u32> {
        let mut sum = 0u32;
        for e in ro.cyc.as_slice() {
            sum += e.count as u32 * self.unit_cost(e.kind, e.addr)?;
        }
        Some(sum)
    }

    /// Compute the reference outcome for a case whose set-up is already in memory.
    pub fn reference(&mut self, c: &Case, d: &Defects) -> (Decoded, RefOut) {
        let mut d2 = *d;
        d2.strict_odd = self.strict_odd;
        let d = &d2;
        let rin = RefIn { er: c.er, ccr: c.ccr, pc: if self.odd_pc { c.pc & !1 } else { c.pc } };
        let c_pc = rin.pc;
        match c.kind {
            Kind::Irq(v) => {
                let mem = RealMem(&self.m);
                (Decoded::Undefined, sem::interrupt_entry(&rin, &mem, v as u32))
            }
            Kind::Req(_) => (Decoded::Undefined, RefOut::start(&rin)),
            Kind::Bound => {
                if c.ccr & 0x80 == 0 && !self.refq.is_empty() {
                    let mem = RealMem(&self.m);
                    (Decoded::Undefined, sem::interrupt_entry(&rin, &mem, self.refq[0] as u32))
                } else {
                    (Decoded::Undefined, RefOut::start(&rin))
                }
            }
            Kind::Host(a, v) => {
                let mut o = RefOut::start(&rin);
                if sem::mapped(a) {
                    o.writes.push(sem::Wr { addr: a, val: v, care: true });
                    o.taken = true;
                }
                (Decoded::Undefined, o)
            }
            Kind::Step => {
                // sticky code that no patch of this case can have touched: reuse the decode
                let key = (c_pc, self.m.sticky_gen);
                let dec = if c.code_sticky && c.patches.n == 0 && c.image.is_empty() && key == self.last_key {
                    self.last_dec
                } else {
                    let mut bytes = [0u8; 12];
                    for k in 0..12u32 {
                        bytes[k as usize] = self.m.peek(c_pc.wrapping_add(k)).unwrap_or(0);
                    }
                    let dd = if bytes == self.last_code {
                        self.last_dec
                    } else {
                        let dd = self.isa.decode(&bytes);
                        self.last_code = bytes;
                        self.last_dec = dd;
                        dd
                    };
                    self.last_key = if c.code_sticky && c.patches.n == 0 { key } else { (0xffff_ffff, 0) };
                    dd
                };
                let mem = RealMem(&self.m);
                let ro = match dec {
                    Decoded::Impl { row, f, len } => sem::exec(row, &f, len, &rin, &mem, d),
                    Decoded::ValidUnimpl { len, .. } => {
                        let mut o = sem::exec_unimpl(&rin, len);
                        o.note = "valid but unimplemented instruction";
                        o
                    }
                    Decoded::Undefined => sem::exec_undefined(&rin),
                };
                (dec, ro)
            }
        }
    }

    /// The harness sets code up by writing the storage arrays, as the loader does before a program starts.  An
    /// implementation may keep the instruction word behind the last fetch (a single-entry read-ahead, consumed or
    /// discarded by the next fetch); one fetch at a scratch address that no case executes from makes it forget that
    /// word, so that a case whose PC happens to be the address behind the previous case's last fetch starts clean.
    #[inline]
    pub fn forget_read_ahead(&mut self) {
        const SCRATCH: u32 = 0x43_fff2;
        let cpu = &mut self.m.cpu;
        let pc = cpu.vh_pc();
        cpu.vh_set_pc(SCRATCH);
        let _ = cpu.vh_fetch();
        cpu.vh_set_pc(pc);
    }

    /// Reference under a defect model, asked for *after* the real step: the bytes the step wrote are put back to
    /// their pre-step content for the evaluation (the shadow still holds it), so that an instruction that stored
    /// over its own code or operands is judged on what was there when it was fetched.
    pub fn reference_pre(&mut self, c: &Case, d: &Defects) -> (Decoded, RefOut) {
        self.with_pre_state(|me| me.reference(c, d))
    }

    /// Run `f` with every byte the last real step wrote put back to its pre-step content (the shadow still holds
    /// it), then restore the post-step content.
    pub fn with_pre_state<R>(&mut self, f: impl FnOnce(&mut Self) -> R) -> R {
        let mut saved: Vec<(u32, u8)> = Vec::new();
        for k in 0..self.wlog.len() {
            let a = self.wlog[k];
            if let (Some(cur), Some(pre)) = (self.m.peek(a), self.m.peek_shadow(a)) {
                if cur != pre && !saved.iter().any(|x| x.0 == a) {
                    saved.push((a, cur));
                    if let Some(s) = self.m.real_slot(a) {
                        *s = pre;
                    }
                }
            }
        }
        if !saved.is_empty() {
            self.last_key = (0xffff_ffff, 0);
        }
        let r = f(self);
        for (a, v) in saved.iter() {
            if let Some(s) = self.m.real_slot(*a) {
                *s = *v;
            }
        }
        if !saved.is_empty() {
            self.last_key = (0xffff_ffff, 0);
        }
        r
    }

    /// Execute the case on the real CPU (set-up must already be in memory).
    pub fn execute(&mut self, c: &Case) -> Actual {
        let cpu = &mut self.m.cpu;
        cpu.er = c.er;
        cpu.vh_set_pc(c.pc);
        cpu.vh_set_ccr(c.ccr);
        let kind = c.kind;
        crate::cpu::verif_hooks::bus_write_log_enable(true);
        let via_run = self.via_run;
        let (c_er, c_pc, c_ccr) = (c.er, c.pc, c.ccr);
        let r = catch_unwind(AssertUnwindSafe(|| match kind {
            Kind::Step if via_run => {
                // run() loads PC from ER2 and programs the bus controller first: the hook puts the case's state back
                // at the first loop iteration and ends the run at the second
                let mut it = 0u32;
                crate::cpu::verif_hooks::set_run_loop_hook(Some(Box::new(move |cpu: &mut crate::cpu::Cpu| {
                    it += 1;
                    if it == 1 {
                        cpu.er = c_er;
                        cpu.vh_set_pc(c_pc);
                        cpu.vh_set_ccr(c_ccr);
                        false
                    } else {
                        true
                    }
                })));
                let r = cpu.run();
                crate::cpu::verif_hooks::set_run_loop_hook(None);
                match r {
                    Ok(()) => Ok(0u8),
                    Err(e) if format!("{:#}", e).contains(crate::cpu::verif_hooks::HORIZON_MESSAGE) => Ok(0u8),
                    Err(e) => Err(e),
                }
            }
            Kind::Step => cpu.vh_step(),
            Kind::Irq(v) => {
                cpu.vh_clear_pending_interrupts();
                cpu.vh_request_interrupt(v);
                cpu.vh_try_interrupt().map(|_| 0u8)
            }
            Kind::Req(v) => {
                cpu.vh_request_interrupt(v);
                Ok(0u8)
            }
            Kind::Bound => cpu.vh_try_interrupt().map(|_| 0u8),
            Kind::Host(a, v) => cpu.bus.write(a, v).map(|_| 0u8),
        }));
        crate::cpu::verif_hooks::bus_write_log_take(&mut self.wlog);
        crate::cpu::verif_hooks::bus_write_log_enable(false);
        if via_run && kind == Kind::Step {
            // run() lets the peripherals see the elapsed states: a timer started by this or an earlier case has
            // counted (its registers are written directly, not through Bus::write) and may have raised requests.
            // Cases stay independent: peripherals back to reset, timer registers back to the image, hook removed.
            crate::cpu::verif_hooks::set_run_loop_hook(None);
            let cpu = &mut self.m.cpu;
            cpu.vh_clear_pending_interrupts();
            cpu.vh_module_manager_restore(crate::modules::ModuleManager::new());
            for a in (0xffff80u32..=0xffff99).filter(|a| sem::is_timer_reg(*a)) {
                if !self.wlog.contains(&a) {
                    let v = self.m.peek_shadow(a).unwrap_or(0);
                    if let Some(s) = self.m.real_slot(a) {
                        *s = v;
                    }
                }
            }
        }
        match r {
            Ok(Ok(s)) => Actual::Ok(s),
            Ok(Err(e)) => Actual::Err(format!("{:#}", e).chars().take(200).collect()),
            Err(p) => {
                let msg = if let Some(s) = p.downcast_ref::<&str>() {
                    s.to_string()
                } else if let Some(s) = p.downcast_ref::<String>() {
                    s.clone()
                } else {
                    "panic".to_string()
                };
                let loc = super::panics::take_last_location();
                Actual::Panic(format!("{} @ {}", msg, loc))
            }
        }
    }

    fn compare(&self, c: &Case, ro: &RefOut, act: &Actual) -> Option<Diff> {
        if self.panic_only {
            return match act {
                Actual::Panic(p) => Some(Diff { what: format!("emulator panicked: {}", p) }),
                _ => None,
            };
        }
        if self.cycles_only {
            if self.closed_form_cost && ro.writes.as_slice().iter().any(|w| (0xfee020..=0xfee026).contains(&w.addr)) {
                // the instruction rewrites the settings its own charge depends on: which of the two applies is not fixed
                return None;
            }
            let defined = ro.class == Class::Ok || (ro.class == Class::Any && ro.cyc_valid);
            if defined {
                match act {
                    Actual::Ok(states) => {
                        if let Some(exp) = self.expected_cycles(ro) {
                            if exp != *states as u32 {
                                return Some(Diff { what: format!("states: expected {} ({}), got {}", exp, cyc_text(ro), states) });
                            }
                        }
                    }
                    Actual::Err(e) if ro.class == Class::Any => {
                        // result left open (register overlap) but the operand is mapped: the instruction must execute and be charged
                        return Some(Diff { what: format!("no charge: the instruction failed ({}) although its operand is mapped; expected {}", e, cyc_text(ro)) });
                    }
                    _ => {}
                }
            }
            return None;
        }
        match (ro.class, act) {
            (Class::Any, _) => None,
            (Class::Err, Actual::Err(_)) => None,
            (Class::Err, Actual::Ok(_)) => Some(Diff { what: format!("expected an error ({}), instruction executed", ro.note) }),
            (_, Actual::Panic(p)) => Some(Diff { what: format!("emulator panicked: {}", p) }),
            (Class::Ok, Actual::Err(_)) if self.odd_pc => None,
            (Class::Ok, Actual::Err(e)) => Some(Diff { what: format!("expected execution, got error: {}", e) }),
            (Class::Ok, Actual::Ok(states)) => {
                let cpu = &self.m.cpu;
                if self.odd_pc && (cpu.vh_pc() | 1) == (ro.pc | 1) {
                    // bit 0 of PC is not compared
                } else if cpu.vh_pc() != ro.pc && Some(cpu.vh_pc()) != ro.pc_alt {
                    return Some(Diff { what: format!("pc: expected {:06x}, got {:06x}", ro.pc, cpu.vh_pc()) });
                }
                for k in 0..8 {
                    if (cpu.er[k] ^ ro.er[k]) & ro.er_care[k] != 0 {
                        return Some(Diff { what: format!("er{}: expected {:08x}, got {:08x}", k, ro.er[k], cpu.er[k]) });
                    }
                }
                if (cpu.vh_ccr() ^ ro.ccr) & ro.ccr_care != 0 {
                    return Some(Diff { what: format!("ccr: expected {:02x}, got {:02x} (care mask {:02x})", ro.ccr, cpu.vh_ccr(), ro.ccr_care) });
                }
                for w in ro.writes.as_slice() {
                    if w.care {
                        let got = self.m.peek(w.addr).unwrap_or(0);
                        if got != w.val {
                            return Some(Diff { what: format!("memory[{:06x}]: expected {:02x}, got {:02x}", w.addr, w.val, got) });
                        }
                    }
                }
                if c.check_cycles {
                    if let Some(exp) = self.expected_cycles(ro) {
                        if exp != *states as u32 {
                            return Some(Diff { what: format!("states: expected {} ({}), got {}", exp, cyc_text(ro), states) });
                        }
                    }
                }
                None
            }
        }
    }

    fn expected_json(&self, ro: &RefOut) -> Value {
        json!({
            "class": format!("{:?}", ro.class), "note": ro.note,
            "pc": format!("{:06x}", ro.pc),
            "er": ro.er.iter().map(|x| format!("{:08x}", x)).collect::<Vec<_>>(),
            "ccr": format!("{:02x}", ro.ccr), "ccr_care": format!("{:02x}", ro.ccr_care),
            "writes": ro.writes.as_slice().iter().map(|w| format!("{:06x}={:02x}{}", w.addr, w.val, if w.care { "" } else { "?" })).collect::<Vec<_>>(),
            "cycles": cyc_text(ro),
        })
    }

    fn actual_json(&self, ro: &RefOut, act: &Actual) -> Value {
        let cpu = &self.m.cpu;
        json!({
            "result": match act { Actual::Ok(s) => format!("Ok({})", s), Actual::Err(e) => format!("Err({})", e), Actual::Panic(p) => format!("Panic({})", p) },
            "pc": format!("{:06x}", cpu.vh_pc()),
            "er": cpu.er.iter().map(|x| format!("{:08x}", x)).collect::<Vec<_>>(),
            "ccr": format!("{:02x}", cpu.vh_ccr()),
            "mem": ro.writes.as_slice().iter().map(|w| format!("{:06x}={:02x}", w.addr, self.m.peek(w.addr).unwrap_or(0))).collect::<Vec<_>>(),
        })
    }

    /// Run one case completely: set-up, reference, real step, comparison, book-keeping, restore.
    pub fn run(&mut self, c: &Case) {
        if self.stop {
            return;
        }
        // ---- set-up
        if c.pc != self.last_case_pc {
            self.forget_read_ahead();
            self.last_case_pc = c.pc;
        }
        if !c.code_sticky {
            let n = c.code_len as usize;
            let code = c.code;
            self.m.poke_bytes(c.pc, &code[..n]);
        }
        for &(a, v) in c.patches.as_slice() {
            self.m.poke(a, v);
        }
        for k in 0..c.image.len() {
            let (a, ref b) = c.image[k];
            self.m.poke_bytes(a, b);
        }
        // ---- reference (reads the real pre-state memory)
        let none = Defects::default();
        let (dec, mut ro) = self.reference(c, &none);
        let mut canary_on = false;
        if let Some(cn) = self.canary {
            if ro.class == Class::Ok {
                canary_on = true;
                match cn {
                    Canary::FlipCcrBit(b) => {
                        ro.ccr ^= 1 << b;
                        ro.ccr_care |= 1 << b;
                    }
                    Canary::BumpPc => ro.pc ^= 2,
                    Canary::FlipErBit(k) => {
                        ro.er[k] ^= 1;
                        ro.er_care[k] |= 1;
                    }
                }
            }
        }
        for w in ro.writes.as_slice() {
            self.m.expect_write_pre(w.addr);
        }
        // ---- real step
        let act = self.execute(c);
        // ---- comparison
        let mut diff = self.compare(c, &ro, &act);
        if canary_on {
            if diff.is_some() {
                self.canary_fired += 1;
            }
            diff = None;
        }
        let mut explained: Option<String> = None;
        let mut ro_expl: Option<RefOut> = None;
        if diff.is_some() && !self.known_keys.is_empty() {
            // does a listed defect model reproduce exactly this behaviour?
            let keys = self.known_keys.clone();
            for k in keys.iter() {
                let d = Defects::from_keys(&[k.as_str()]);
                let ok = if d.fetch_unwrap {
                    panic_explained_fetch(&ro, &act)
                        || (self.panic_only
                            && matches!(&act, Actual::Panic(p) if is_fetch_unwrap_panic(p))
                            && ((0..10u32).any(|k| !sem::mapped((c.pc & !1).wrapping_add(k))) || c.pc > sem::M24))
                } else {
                    let (_, ro2) = self.reference_pre(c, &d);
                    let ok = self.compare(c, &ro2, &act).is_none();
                    if ok {
                        ro_expl = Some(ro2);
                    }
                    ok
                };
                if ok {
                    explained = Some(k.clone());
                    break;
                }
            }
            if explained.is_none() && keys.len() > 1 {
                let ks: Vec<&str> = keys.iter().map(|s| s.as_str()).collect();
                let mut d = Defects::from_keys(&ks);
                d.fetch_unwrap = false;
                let (_, ro2) = self.reference_pre(c, &d);
                if self.compare(c, &ro2, &act).is_none() {
                    explained = Some(keys.join("+"));
                    ro_expl = Some(ro2);
                }
            }
        }
        // ---- book-keeping
        if !self.frozen {
            let st = &mut self.st;
            st.cases += 1;
            match ro.class {
                Class::Ok => {
                    st.exp_ok += 1;
                    if ro.taken {
                        st.nontrivial += 1;
                    }
                }
                Class::Err => {
                    st.exp_err += 1;
                    st.nontrivial += 1;
                }
                Class::Any => {
                    st.exp_any += 1;
                    if !ro.note.is_empty() {
                        *st.open_notes.entry(ro.note).or_insert(0) += 1;
                    }
                }
            }
            if c.check_cycles && ro.class == Class::Ok && matches!(act, Actual::Ok(_)) {
                st.cycles_checked += 1;
            }
            match &act {
                Actual::Ok(_) => {
                    st.act_ok += 1;
                    if ro.class == Class::Any {
                        st.any_executed += 1;
                    }
                }
                Actual::Err(_) => st.act_err += 1,
                Actual::Panic(p) => {
                    st.act_panic += 1;
                    let site = p.rsplit(" @ ").next().unwrap_or("?").to_string();
                    let kind: String = p.chars().take(48).collect();
                    *st.notes.entry(format!("panic site {} ({})", site, kind)).or_insert(0) += 1;
                }
            }
            // outcome hash (lower bound on the number of distinct observed outcomes)
            let cpu = &self.m.cpu;
            let mut h: u64 = 0xcbf29ce484222325;
            for k in 0..8 {
                h = (h ^ cpu.er[k] as u64).wrapping_mul(0x100000001b3);
            }
            h = (h ^ cpu.vh_ccr() as u64).wrapping_mul(0x100000001b3);
            h = (h ^ cpu.vh_pc() as u64).wrapping_mul(0x100000001b3);
            h = (h ^ match &act { Actual::Ok(s) => *s as u64, Actual::Err(_) => 0x100, Actual::Panic(_) => 0x200 }).wrapping_mul(0x100000001b3);
            h ^= h >> 29;
            let bit = (h & 0xffff) as usize;
            st.outcome_bits[bit / 64] |= 1u64 << (bit % 64);
            if self.count_forms {
                if let Decoded::Impl { row, .. } = dec {
                    st.form_counts[row] += 1;
                }
            }
            if st.samples.len() < self.want_samples && ro.class == Class::Ok && ro.taken {
                let mut s = c.to_json();
                s["unit"] = json!(self.unit);
                s["expected"] = self.expected_json(&ro);
                self.st.samples.push(s);
            }
        }
        if let Some(d) = &diff {
            if let Some(k) = explained {
                if !self.frozen {
                    let first = json!({"case": c.to_json(), "what": d.what});
                    let e = self.st.known.entry(k).or_insert((0, first));
                    e.0 += 1;
                }
            } else if !self.frozen {
                self.st.violations_total += 1;
                if self.st.violations.len() < MAX_VIOLATIONS_KEPT {
                    let v = Violation {
                        engine: "e1".into(),
                        unit: self.unit.clone(),
                        what: d.what.clone(),
                        case: c.to_json(),
                        expected: self.expected_json(&ro),
                        actual: self.actual_json(&ro, &act),
                    };
                    self.st.violations.push(v);
                }
                if self.st.violations_total >= max_violations_per_unit() {
                    self.stop = true;
                }
            }
        }
        // ---- memory: accept predicted writes, then look for stray ones
        // (under a listed defect model the model's write set is the accepted one)
        if let Some(r2) = ro_expl {
            for w in r2.writes.as_slice() {
                self.m.mark_dirty(w.addr);
            }
            for w in ro.writes.as_slice() {
                self.m.mark_dirty(w.addr);
            }
            ro = r2;
        }
        for w in ro.writes.as_slice() {
            self.m.accept(w.addr);
        }
        // exact attribution through the Bus::write address log (hook H7): every address the
        // implementation wrote in this step must be in the reference's write set
        let open = ro.class == Class::Any && ro.mem_open;
        let mut k = 0;
        while k < self.wlog.len() {
            let a = self.wlog[k];
            k += 1;
            if ro.writes.as_slice().iter().any(|w| w.addr == a) {
                continue;
            }
            let got = self.m.peek(a);
            let exp = self.m.peek_shadow(a);
            if got.is_none() || got == exp {
                continue; // rejected by the bus, or rewritten with the value it already had
            }
            if !open && !self.frozen && !canary_on && !self.cycles_only && !self.panic_only {
                self.st.violations_total += 1;
                if self.st.violations.len() < MAX_VIOLATIONS_KEPT {
                    self.st.violations.push(Violation {
                        engine: "e1".into(),
                        unit: self.unit.clone(),
                        what: format!("stray memory write: [{:06x}] is {:02x}, must stay {:02x}", a, got.unwrap_or(0), exp.unwrap_or(0)),
                        case: c.to_json(),
                        expected: self.expected_json(&ro),
                        actual: self.actual_json(&ro, &act),
                    });
                }
                if self.st.violations_total >= max_violations_per_unit() {
                    self.stop = true;
                }
            }
            // put the byte back so that later cases start from the pristine image
            let v = exp.unwrap_or(0);
            if let Some(s) = self.m.real_slot(a) {
                *s = v;
            }
        }
        self.since_full += 1;
        if self.paranoid {
            // locating re-run after the write log missed something (a write that bypassed Bus::write)
            if let Some(a) = self.m.full_compare() {
                if !open {
                    self.st.violations_total += 1;
                    if self.st.violations.len() < MAX_VIOLATIONS_KEPT {
                        let got = self.m.peek(a).unwrap_or(0);
                        let exp = self.m.peek_shadow(a).unwrap_or(0);
                        self.st.violations.push(Violation {
                            engine: "e1".into(),
                            unit: self.unit.clone(),
                            what: format!("stray memory write (not through Bus::write): [{:06x}] is {:02x}, must stay {:02x}", a, got, exp),
                            case: c.to_json(),
                            expected: self.expected_json(&ro),
                            actual: self.actual_json(&ro, &act),
                        });
                    }
                    if self.st.violations_total >= max_violations_per_unit() {
                        self.stop = true;
                    }
                }
                self.m.resync_from_shadow();
            }
        } else if self.m.stray.is_some() || self.since_full >= FULL_COMPARE_EVERY {
            self.checkpoint();
        }
        self.m.restore();
    }

    /// Full comparison in normal mode; a difference triggers the locating re-run of the chunk.
    pub fn checkpoint(&mut self) {
        self.since_full = 0;
        if self.panic_only {
            // memory effects are not this property's business: quietly return to the reference image
            if self.m.stray.is_some() || self.m.full_compare().is_some() {
                self.m.resync_from_shadow();
            }
            return;
        }
        if !self.frozen {
            self.st.full_compares += 1;
        }
        if self.m.stray.is_some() || self.m.full_compare().is_some() {
            self.stray_detected = true;
            self.m.resync_from_shadow();
        }
    }
}

/// Known-finding site class `fetch-unwrap`: the reference says an instruction word of this case lies
/// outside the address map (so an error is due) and the emulator panicked in `Result::unwrap` in cpu.rs.
pub fn panic_explained_fetch(ro: &RefOut, act: &Actual) -> bool {
    match act {
        Actual::Panic(p) => ro.class == Class::Err && ro.note == "fetch outside the address map" && is_fetch_unwrap_panic(p),
        _ => false,
    }
}

/// panic text + location of the `fetch()` unwrap (line numbers are not part of the signature)
pub fn is_fetch_unwrap_panic(p: &str) -> bool {
    p.contains("unwrap") && p.contains("Invalid address") && p.contains("cpu.rs")
}

pub fn cyc_text(ro: &RefOut) -> String {
    ro.cyc.as_slice().iter().map(|e| format!("{:?}{}@{:06x}", e.kind, e.count, e.addr)).collect::<Vec<_>>().join(" ")
}

// =====================================================================================
// Sequences: programs stepped in lock step with the reference (engine E2, step level)
// =====================================================================================

/// What the harness does at one boundary of a sequence.
#[derive(Clone, Copy, PartialEq, Eq, Debug)]
pub enum Act {
    /// execute the instruction at PC
    Step,
    /// request interrupt `v` and let the CPU try to accept it (nothing else happens at this boundary)
    Irq(u8),
    /// the harness first loads `len` code bytes at `at` (or at the current PC) and sets PC there, then steps
    Exec { code: [u8; 10], len: u8, at: Option<u32> },
    /// a peripheral requests interrupt `v` (FIFO append); nothing is accepted at this point
    Req(u8),
    /// an instruction boundary without an instruction: the CPU looks at its pending requests
    Bound,
    /// one byte written through `Bus::write` from outside the CPU (the control socket's `u8:` line)
    Host(u32, u8),
}

impl Act {
    pub fn exec(code: &[u8], at: Option<u32>) -> Act {
        let mut c = [0u8; 10];
        c[..code.len()].copy_from_slice(code);
        Act::Exec { code: c, len: code.len() as u8, at }
    }
    /// text form used in counterexample files (`<pc>:<this>`); `parse` is its inverse
    pub fn text(&self) -> String {
        match *self {
            Act::Step => "step".into(),
            Act::Irq(v) => format!("irq{}", v),
            Act::Exec { code, len, .. } => format!("exec{}", hex(&code[..len as usize])),
            Act::Req(v) => format!("req{}", v),
            Act::Bound => "bound".into(),
            Act::Host(a, v) => format!("host{:06x}={:02x}", a, v),
        }
    }
    pub fn parse(entry: &str) -> Act {
        let (pc, a) = entry.split_once(':').unwrap_or(("0", entry));
        if let Some(v) = a.strip_prefix("irq") {
            Act::Irq(v.parse().unwrap_or(0))
        } else if let Some(h) = a.strip_prefix("exec") {
            Act::exec(&unhex(h).unwrap_or_default(), u32::from_str_radix(pc, 16).ok())
        } else if let Some(v) = a.strip_prefix("req") {
            Act::Req(v.parse().unwrap_or(0))
        } else if a == "bound" {
            Act::Bound
        } else if let Some(h) = a.strip_prefix("host") {
            let (x, y) = h.split_once('=').unwrap_or(("0", "0"));
            Act::Host(u32::from_str_radix(x, 16).unwrap_or(0), u8::from_str_radix(y, 16).unwrap_or(0))
        } else {
            Act::Step
        }
    }
}

/// Observation handed to the per-step callback of `run_seq`.
pub struct StepObs<'a> {
    pub index: usize,
    pub act: Act,
    pub pre_pc: u32,
    pub pre_er: [u32; 8],
    pub pre_ccr: u8,
    pub dec: Decoded,
    pub ro: &'a RefOut,
    pub actual: &'a Actual,
    pub post_pc: u32,
    pub post_er: [u32; 8],
    pub post_ccr: u8,
    pub m: &'a Mach,
}

pub enum Next {
    Continue(Act),
    Stop,
    /// the callback found a violation of its own (differential / trace oracle)
    Fail(String),
}

impl Ctx {
    fn seq_violation(&mut self, what: String, init: &Case, trace: &[String], ro: Option<&RefOut>, act: Option<&Actual>) {
        if self.frozen {
            return;
        }
        if self.panic_only && !what.contains("panicked") {
            // C15 borrows other properties' sequence units: their semantic oracles are not C15's business
            return;
        }
        self.st.violations_total += 1;
        if self.st.violations.len() < MAX_VIOLATIONS_KEPT {
            let mut case = init.to_json();
            case["sequence"] = json!(trace);
            if self.track_queue {
                case["track_queue"] = json!(true);
            }
            if let Some(t) = &self.seq_tag {
                case["regen"] = t.clone();
            }
            let expected = ro.map(|r| self.expected_json(r)).unwrap_or(json!(null));
            let actual = match (ro, act) {
                (Some(r), Some(a)) => self.actual_json(r, a),
                _ => json!(null),
            };
            self.st.violations.push(Violation { engine: "e1".into(), unit: self.unit.clone(), what, case, expected, actual });
        }
        if self.st.violations_total >= max_violations_per_unit() {
            self.stop = true;
        }
    }

    /// Run a whole program / history in lock step with the reference.  `init` supplies the memory image
    /// (code bytes at `pc` + patches), registers, CCR and start PC; `first` is the first action; after
    /// every action `next` decides how to go on.  Memory written during the run is restored at the end.
    /// Returns the number of actions performed.
    pub fn run_seq(&mut self, init: &Case, first: Act, max_actions: usize, next: &mut dyn FnMut(&StepObs) -> Next) -> usize {
        if self.stop {
            return 0;
        }
        if !init.code_sticky && init.code_len > 0 {
            let n = init.code_len as usize;
            let code = init.code;
            self.m.poke_bytes(init.pc, &code[..n]);
        }
        for &(a, v) in init.patches.as_slice() {
            self.m.poke(a, v);
        }
        for k in 0..init.image.len() {
            let (a, ref b) = init.image[k];
            self.m.poke_bytes(a, b);
        }
        self.run_seq_body(init, first, max_actions, next)
    }

    /// Same, for images too large for `Case::patches`: the caller has already poked the image.
    pub fn run_seq_body(&mut self, init: &Case, first: Act, max_actions: usize, next: &mut dyn FnMut(&StepObs) -> Next) -> usize {
        let none = Defects::default();
        self.forget_read_ahead();
        self.last_case_pc = 0xffff_ffff;
        {
            let cpu = &mut self.m.cpu;
            cpu.er = init.er;
            cpu.vh_set_pc(init.pc);
            cpu.vh_set_ccr(init.ccr);
            cpu.vh_clear_pending_interrupts();
        }
        self.refq.clear();
        let mut trace: Vec<String> = Vec::new();
        let mut act = first;
        let mut done = 0usize;
        while done < max_actions {
            if let Act::Exec { code, len, at } = act {
                if let Some(p) = at {
                    self.m.cpu.vh_set_pc(p);
                }
                let p = self.m.cpu.vh_pc();
                if done == 0 {
                    self.m.poke_bytes(p, &code[..len as usize]);
                } else {
                    // in the middle of a sequence the machine is running: bytes that differ from what memory holds
                    // (code loaded at the target of a jump, or behind a refused step) are stored through Bus::write
                    for k in 0..len as usize {
                        let a = p.wrapping_add(k as u32);
                        if self.m.peek(a) != Some(code[k]) {
                            self.m.poke_mid_sequence(a, code[k]);
                        }
                    }
                }
            }
            let pre_pc = self.m.cpu.vh_pc();
            let pre_er = self.m.cpu.er;
            let pre_ccr = self.m.cpu.vh_ccr();
            let mut c = Case::new(pre_pc, &[]);
            c.code_len = 0;
            c.code_sticky = true;
            c.er = pre_er;
            c.ccr = pre_ccr;
            c.kind = match act {
                Act::Step | Act::Exec { .. } => Kind::Step,
                Act::Irq(v) => Kind::Irq(v),
                Act::Req(v) => Kind::Req(v),
                Act::Bound => Kind::Bound,
                Act::Host(a, v) => Kind::Host(a, v),
            };
            // force a fresh decode: code may differ from the previous sequence at the same PC
            self.last_key = (0xffff_ffff, 0);
            let (dec, mut ro) = self.reference(&c, &none);
            if self.continue_open && ro.class == Class::Ok && ro.writes.as_slice().iter().any(|w| sem::is_port_reg(w.addr) || sem::is_timer_reg(w.addr)) {
                // peripheral registers have their own semantics (C16 / C17): the step is not judged here
                ro.class = Class::Any;
                ro.mem_open = true;
                ro.note = "store into a port or timer register";
            }
            for w in ro.writes.as_slice() {
                self.m.expect_write_pre(w.addr);
            }
            let actual = self.execute(&c);
            let mut diff = self.compare(&c, &ro, &actual);
            // reference model of the pending requests (a multiset: the properties do not fix which of several
            // pending requests is accepted first, only that exactly one is, through its own vector)
            match c.kind {
                Kind::Irq(v) => {
                    self.refq.clear();
                    if c.ccr & 0x80 != 0 {
                        self.refq.push(v);
                    }
                }
                Kind::Req(v) => self.refq.push(v),
                Kind::Bound => {
                    if c.ccr & 0x80 == 0 && !self.refq.is_empty() {
                        let mut real = self.m.cpu.vh_pending_interrupts();
                        real.sort();
                        let mut cands = self.refq.clone();
                        cands.dedup();
                        let mut chosen: Option<usize> = None;
                        for v in cands {
                            let k = self.refq.iter().position(|&x| x == v).unwrap();
                            let mut rest = self.refq.clone();
                            rest.remove(k);
                            rest.sort();
                            let ro_v = self.with_pre_state(|me| {
                                let mem = RealMem(&me.m);
                                sem::interrupt_entry(&RefIn { er: c.er, ccr: c.ccr, pc: c.pc }, &mem, v as u32)
                            });
                            let fits = self.compare(&c, &ro_v, &actual).is_none();
                            if fits && (!self.track_queue || rest == real) {
                                chosen = Some(k);
                                ro = ro_v;
                                diff = None;
                                break;
                            }
                        }
                        self.refq.remove(chosen.unwrap_or(0));
                    }
                }
                _ => {}
            }
            if diff.is_none() && self.track_queue && ro.class == Class::Ok && !self.panic_only && !self.cycles_only {
                let mut real = self.m.cpu.vh_pending_interrupts();
                real.sort();
                let mut want = self.refq.clone();
                want.sort();
                if real != want {
                    diff = Some(Diff { what: format!("pending interrupt requests: expected {:?} (in any order), got {:?}", want, real) });
                }
            }
            let mut ro_eff = ro.clone();
            if diff.is_some() && !(self.known_keys.is_empty() && self.foreign_keys.is_empty()) && c.kind == Kind::Step {
                let mut keys = self.known_keys.clone();
                let own = keys.len();
                keys.extend(self.foreign_keys.iter().cloned());
                for (ki, k) in keys.iter().enumerate() {
                    let d = Defects::from_keys(&[k.as_str()]);
                    if d.fetch_unwrap {
                        continue;
                    }
                    let (_, ro2) = self.reference_pre(&c, &d);
                    if self.compare(&c, &ro2, &actual).is_none() {
                        if !self.frozen && ki >= own {
                            *self.st.notes.entry(format!("steps explained by a known finding of another property ({})", k)).or_insert(0) += 1;
                        }
                        if !self.frozen && ki < own {
                            let first = json!({"case": c.to_json(), "what": diff.as_ref().unwrap().what});
                            let e = self.st.known.entry(k.clone()).or_insert((0, first));
                            e.0 += 1;
                        }
                        for w in ro2.writes.as_slice() {
                            self.m.mark_dirty(w.addr);
                        }
                        ro_eff = ro2;
                        diff = None;
                        break;
                    }
                }
            }
            trace.push(format!("{:06x}:{}", pre_pc, act.text()));
            if self.continue_open && trace.len() > 96 {
                // long programs: keep the tail only (the counterexample names the program and the step index)
                trace.drain(..64);
            }
            if !self.frozen {
                self.st.cases += 1;
                match ro.class {
                    Class::Ok => {
                        self.st.exp_ok += 1;
                        if ro.taken {
                            self.st.nontrivial += 1;
                        }
                    }
                    Class::Err => {
                        self.st.exp_err += 1;
                        self.st.nontrivial += 1;
                    }
                    Class::Any => self.st.exp_any += 1,
                }
                match &actual {
                    Actual::Ok(_) => self.st.act_ok += 1,
                    Actual::Err(_) => self.st.act_err += 1,
                    Actual::Panic(_) => self.st.act_panic += 1,
                }
                if let Decoded::Impl { row, .. } = dec {
                    self.st.form_counts[row] += 1;
                }
                let cpu = &self.m.cpu;
                let mut h: u64 = 0xcbf29ce484222325;
                for k in 0..8 {
                    h = (h ^ cpu.er[k] as u64).wrapping_mul(0x100000001b3);
                }
                h = (h ^ cpu.vh_ccr() as u64).wrapping_mul(0x100000001b3);
                h = (h ^ cpu.vh_pc() as u64).wrapping_mul(0x100000001b3);
                h ^= h >> 29;
                let bit = (h & 0xffff) as usize;
                self.st.outcome_bits[bit / 64] |= 1u64 << (bit % 64);
            }
            for w in ro_eff.writes.as_slice() {
                self.m.accept(w.addr);
            }
            // stray writes (exact, through the Bus::write log)
            let open = ro_eff.class == Class::Any && ro_eff.mem_open;
            let mut stray: Option<(u32, u8, u8)> = None;
            // an open outcome (class Any) is not compared, so a defect model had no chance to explain it above:
            // its write set still counts when the step's writes are attributed
            let mut alt_writes: Vec<u32> = Vec::new();
            if ro_eff.class == Class::Any && c.kind == Kind::Step && !(self.known_keys.is_empty() && self.foreign_keys.is_empty()) {
                let mut keys = self.known_keys.clone();
                keys.extend(self.foreign_keys.iter().cloned());
                for k in keys.iter() {
                    let d = Defects::from_keys(&[k.as_str()]);
                    if d.fetch_unwrap {
                        continue;
                    }
                    let (_, ro2) = self.reference_pre(&c, &d);
                    for w in ro2.writes.as_slice() {
                        alt_writes.push(w.addr);
                    }
                }
            }
            for k in 0..self.wlog.len() {
                let a = self.wlog[k];
                if ro_eff.writes.as_slice().iter().any(|w| w.addr == a) {
                    continue;
                }
                if alt_writes.contains(&a) {
                    // written under a listed defect model: accept the content and restore it at the end
                    self.m.mark_dirty(a);
                    self.m.accept(a);
                    continue;
                }
                let got = self.m.peek(a);
                let exp = self.m.peek_shadow(a);
                if got.is_none() || got == exp {
                    continue;
                }
                if open && self.continue_open {
                    // accepted: the shadow follows the implementation, the byte is restored at the end of the sequence
                    self.m.mark_dirty(a);
                    self.m.accept(a);
                    continue;
                }
                if !open && stray.is_none() && !self.panic_only && !self.cycles_only {
                    stray = Some((a, got.unwrap_or(0), exp.unwrap_or(0)));
                }
                let v = exp.unwrap_or(0);
                if let Some(s) = self.m.real_slot(a) {
                    *s = v;
                }
            }
            done += 1;
            if (diff.is_some() || stray.is_some()) && self.seq_owner.is_some() {
                let owner = self.seq_owner.unwrap();
                let owned = match dec {
                    Decoded::Impl { row, .. } | Decoded::ValidUnimpl { row, .. } => super::props::xseq::owners_of(ROWS[row].sem).contains(&owner),
                    Decoded::Undefined => owner == "C07",
                };
                if !owned {
                    if !self.frozen {
                        *self.st.notes.entry("long programs stopped at a deviation that belongs to another property's forms".into()).or_insert(0) += 1;
                    }
                    break;
                }
            }
            if let Some(d) = diff {
                self.seq_violation(format!("step {}: {}", done - 1, d.what), init, &trace, Some(&ro), Some(&actual));
                break;
            }
            if let Some((a, got, exp)) = stray {
                self.seq_violation(format!("step {}: stray memory write: [{:06x}] is {:02x}, must stay {:02x}", done - 1, a, got, exp), init, &trace, Some(&ro), Some(&actual));
                break;
            }
            if self.continue_open && ro.class == Class::Any && matches!(actual, Actual::Ok(_)) {
                // open outcome in a long program: go on from wherever the implementation is
                let obs = StepObs { index: done - 1, act, pre_pc, pre_er, pre_ccr, dec, ro: &ro, actual: &actual, post_pc: self.m.cpu.vh_pc(), post_er: self.m.cpu.er, post_ccr: self.m.cpu.vh_ccr(), m: &self.m };
                match next(&obs) {
                    Next::Continue(a) => {
                        act = a;
                        continue;
                    }
                    Next::Stop => break,
                    Next::Fail(msg) => {
                        self.seq_violation(msg, init, &trace, Some(&ro), Some(&actual));
                        break;
                    }
                }
            }
            if self.continue_after_err && ro.class != Class::Ok && matches!(actual, Actual::Err(_)) {
                // refused step: nothing is defined about the state it leaves, but it is a state - the next action starts from it
                let obs = StepObs { index: done - 1, act, pre_pc, pre_er, pre_ccr, dec, ro: &ro, actual: &actual, post_pc: self.m.cpu.vh_pc(), post_er: self.m.cpu.er, post_ccr: self.m.cpu.vh_ccr(), m: &self.m };
                match next(&obs) {
                    Next::Continue(a) => {
                        act = a;
                        continue;
                    }
                    Next::Stop => break,
                    Next::Fail(msg) => {
                        self.seq_violation(msg, init, &trace, Some(&ro), Some(&actual));
                        break;
                    }
                }
            }
            if ro.class != Class::Ok || !matches!(actual, Actual::Ok(_)) {
                // an error or an open outcome ends the lock step (nothing further is defined)
                let obs = StepObs { index: done - 1, act, pre_pc, pre_er, pre_ccr, dec, ro: &ro, actual: &actual, post_pc: self.m.cpu.vh_pc(), post_er: self.m.cpu.er, post_ccr: self.m.cpu.vh_ccr(), m: &self.m };
                if let Next::Fail(msg) = next(&obs) {
                    self.seq_violation(msg, init, &trace, Some(&ro), Some(&actual));
                }
                break;
            }
            let obs = StepObs { index: done - 1, act, pre_pc, pre_er, pre_ccr, dec, ro: &ro, actual: &actual, post_pc: self.m.cpu.vh_pc(), post_er: self.m.cpu.er, post_ccr: self.m.cpu.vh_ccr(), m: &self.m };
            match next(&obs) {
                Next::Continue(a) => act = a,
                Next::Stop => break,
                Next::Fail(msg) => {
                    self.seq_violation(msg, init, &trace, Some(&ro), Some(&actual));
                    break;
                }
            }
        }
        if !self.frozen && self.st.samples.len() < self.want_samples && done > 2 {
            let mut s = init.to_json();
            s["unit"] = json!(self.unit);
            s["sequence"] = json!(trace);
            self.st.samples.push(s);
        }
        self.m.cpu.vh_clear_pending_interrupts();
        self.since_full += done as u64;
        if self.paranoid {
            if self.m.full_compare().is_some() {
                self.seq_violation("memory differs from the reference image after the sequence (write that bypassed Bus::write)".into(), init, &trace, None, None);
                self.m.resync_from_shadow();
            }
        } else if self.m.stray.is_some() || self.since_full >= FULL_COMPARE_EVERY {
            self.checkpoint();
        }
        self.m.restore();
        done
    }
}

impl Ctx {
    /// Violation found by an engine other than E1 (`engine` names the replay handler).
    pub fn custom_violation(&mut self, engine: &str, what: String, case: Value, expected: Value, actual: Value) {
        if self.frozen {
            return;
        }
        self.st.violations_total += 1;
        if self.st.violations.len() < MAX_VIOLATIONS_KEPT {
            self.st.violations.push(Violation { engine: engine.to_string(), unit: self.unit.clone(), what, case, expected, actual });
        }
        if self.st.violations_total >= max_violations_per_unit() {
            self.stop = true;
        }
    }
    /// The harness itself could not do its job (no binary, no socket, no scratch file): never a verdict.
    /// The parent turns any such note into exit 2.
    pub fn machinery(&mut self, what: String) {
        *self.st.notes.entry(format!("MACHINERY: {}", what)).or_insert(0) += 1;
    }
    pub fn custom_known(&mut self, key: &str, what: String, case: Value) {
        if self.frozen {
            return;
        }
        let first = json!({"case": case, "what": what});
        let e = self.st.known.entry(key.to_string()).or_insert((0, first));
        e.0 += 1;
    }
    pub fn sample(&mut self, v: Value) {
        if !self.frozen && self.st.samples.len() < self.want_samples {
            let mut v = v;
            v["unit"] = json!(self.unit);
            self.st.samples.push(v);
        }
    }
}

impl Ctx {
    /// first address of the last step's Bus::write log whose content now differs from the shadow image
    pub fn wlog_first_effective(&self) -> Option<u32> {
        self.wlog.iter().copied().find(|&a| self.m.peek(a).is_some() && self.m.peek(a) != self.m.peek_shadow(a))
    }
    pub fn wlog_all(&self) -> Vec<u32> {
        self.wlog.iter().copied().filter(|&a| self.m.peek(a).is_some()).collect()
    }
}
