//! Shared generators for instruction forms with a memory operand (C01, C04, C08, C20).

use crate::hv::dom::{self, K16, K4};
use crate::hv::e1::{Case, Ctx};
use crate::hv::isa::{BitOp, Fields, Isa, Mode, Sem, Sz, ROWS};
use crate::hv::sem::{set_r, M24};
use crate::hv::shard::{chunk_range, Tier, Unit};

/// What a row needs in order to form its effective address.
#[derive(Clone, Copy, Debug, PartialEq, Eq)]
pub struct MemShape {
    pub mode: Mode,
    pub sz: Sz,      // operand size
    pub store: bool, // writes memory
    pub load: bool,  // reads memory
    pub has_data_reg: bool,
    /// pre-decrement form (`@-ERn`): EA = ERn - size
    pub predec: bool,
    /// post-increment form (`@ERn+`)
    pub postinc: bool,
}

pub fn mem_shape(sem: Sem) -> Option<MemShape> {
    match sem {
        Sem::Mov { sz, mode, store } if !matches!(mode, Mode::Reg | Mode::Imm) => Some(MemShape {
            mode,
            sz,
            store,
            load: !store,
            has_data_reg: true,
            predec: mode == Mode::Inc && store,
            postinc: mode == Mode::Inc && !store,
        }),
        Sem::Bit { op, loc, .. } if loc != Mode::Reg => {
            let wb = matches!(op, BitOp::Bset | BitOp::Bnot | BitOp::Bclr | BitOp::Bst);
            Some(MemShape { mode: loc, sz: Sz::B, store: wb, load: true, has_data_reg: false, predec: false, postinc: false })
        }
        Sem::StcW(mode) => Some(MemShape { mode, sz: Sz::W, store: true, load: false, has_data_reg: false, predec: mode == Mode::Inc, postinc: false }),
        _ => None,
    }
}

/// Register value that makes a register-based mode address `ea` (low 24 bits), with `top` in the upper byte.
pub fn base_for(shape: &MemShape, ea: u32, disp_field: u32, top: u8) -> u32 {
    let n = shape.sz.bytes();
    let low = match shape.mode {
        Mode::Ind => ea,
        Mode::Inc => {
            if shape.predec {
                ea.wrapping_add(n)
            } else {
                ea
            }
        }
        Mode::D16 => ea.wrapping_sub(((disp_field as u16) as i16) as i32 as u32),
        Mode::D24 => ea.wrapping_sub((((disp_field << 8) as i32) >> 8) as u32),
        _ => 0,
    };
    (low & M24) | ((top as u32) << 24)
}

/// Absolute-address field value for the absolute modes (None if `ea` is not expressible).
pub fn abs_field(mode: Mode, ea: u32) -> Option<u32> {
    match mode {
        Mode::A8 => {
            if ea & 0xffff00 == 0xffff00 {
                Some(ea & 0xff)
            } else {
                None
            }
        }
        Mode::A16 => {
            if ea < 0x8000 || ea >= 0xff8000 {
                Some(ea & 0xffff)
            } else {
                None
            }
        }
        Mode::A24 => Some(ea & M24),
        _ => None,
    }
}

/// Default register numbers that do not overlap: address register ER1, data register 2 (R2H / E2 / ER2), bit register R3L.
pub fn default_fields(sz: Sz) -> Fields {
    let mut f = Fields::default();
    f.ra = 1;
    let data = match sz {
        Sz::B => 2,
        Sz::W => 10,
        Sz::L => 2,
    };
    f.rs = data;
    f.rd = data;
    f.rn = 11; // R3L
    f
}

/// Build a case for `row` with explicit fields; `base` goes into the address register (if the mode uses one),
/// `value` into the data register (store forms) or into memory at `place_at` (load forms, when Some).
pub fn build_case(isa: &Isa, row: usize, f: &Fields, shape: &MemShape, base: u32, value: u32, place_at: Option<u32>, pc: u32, ccr: u8, regs: &[u32; 8]) -> Case {
    let code = isa.encode(row, f);
    let mut c = Case::new(pc, &code);
    let mut er = *regs;
    if matches!(shape.mode, Mode::Ind | Mode::Inc | Mode::D16 | Mode::D24) {
        // set the data register first so that an overlapping address register wins
        if shape.has_data_reg && shape.store {
            set_r(&mut er, shape.sz, f.rs, value);
        }
        er[f.ra as usize] = base;
    } else if shape.has_data_reg && shape.store {
        set_r(&mut er, shape.sz, f.rs, value);
    }
    c.er = er;
    c.ccr = ccr;
    if let Some(a) = place_at {
        let n = shape.sz.bytes();
        for k in 0..n {
            c.patch(a.wrapping_add(k), (value >> (8 * (n - 1 - k))) as u8);
        }
    }
    c
}

/// low-24 address set used for address-formation sweeps: both ends of every mapped region, their
/// unmapped neighbours, and the neighbourhood of 0 and 2^24.
pub fn ea_low_set(even: bool) -> Vec<u32> {
    let mut v = Vec::new();
    for (lo, hi) in [(0x000000u32, 0x0000ffu32), (0x400000, 0x5fffff), (0xfee000, 0xfee0ff), (0xffbf20, 0xffff1f), (0xffff20, 0xffffe9)] {
        for d in 0..6u32 {
            v.push(lo.wrapping_add(d) & M24);
            v.push(lo.wrapping_sub(d + 1) & M24);
            v.push(hi.wrapping_sub(d) & M24);
            v.push(hi.wrapping_add(d + 1) & M24);
        }
        v.push((lo + hi) / 2);
        v.push((lo + hi) / 2 + 1);
    }
    for d in 0..8u32 {
        v.push(d);
        v.push(0xffffff - d);
    }
    v.push(0x200000);
    v.push(0x7ffffe);
    v.push(0x800000);
    v.push(0xc00000);
    let mut v: Vec<u32> = v.into_iter().filter(|a| !even || a % 2 == 0).collect();
    v.sort();
    v.dedup();
    v
}

pub fn d24_set(seed: u64) -> Vec<u32> {
    let mut v = vec![0u32, 1, 2, 4, 0x7e, 0x7f, 0x80, 0xff, 0x100, 0x7fff, 0x8000, 0xffff, 0x10000, 0x7ffffe, 0x7fffff, 0x800000, 0x800001, 0xff0000, 0xffff00, 0xfffffe, 0xffffff, 0x400000, 0x5fffff, 0xbf20, 0xffbf20];
    for b in 0..24 {
        v.push(1 << b);
        v.push(0xffffff ^ (1 << b));
    }
    for k in 0..8 {
        v.push((dom::mix(seed, 300 + k) & 0xffffff) as u32);
    }
    v.sort();
    v.dedup();
    v
}
