//! E4 — ELF loading (C11) and the MES process environment (C12): every file of a bounded generator is
//! written to disk, loaded with the real `elf::load` into a real `Cpu`, and compared with the
//! expectation computed from the generator's *parameters* (never by re-parsing the file).
use crate::cpu::Cpu;
use crate::hv::e1::Ctx;
use crate::hv::shard::{chunk_range, Prop, Tier, Unit};
use serde_json::{json, Value};
use std::panic::{catch_unwind, AssertUnwindSafe};

pub const BASE: u32 = 0x416900;
const DRAM_LO: u32 = 0x400000;

#[derive(Clone, Debug)]
pub struct Seg {
    pub vaddr: u32,
    pub filesz: u32,
    pub memsz: u32,
}

#[derive(Clone, Debug)]
pub struct Spec {
    pub segs: Vec<Seg>,
    /// non-load program headers: (position in the table 0..=len, p_type, vaddr, memsz)
    pub nonload: Vec<(usize, u32, u32, u32)>,
    /// order in which segment contents are laid out in the file
    pub file_order: Vec<usize>,
    /// .got: (address, entry values as stored in the file)
    pub got: Option<(u32, Vec<u32>)>,
    pub stack_size: u32,
    /// symbols (name, value); `___exit` among them
    pub symbols: Vec<(String, u32)>,
    /// order of the named sections .shstrtab .got .stack .symtab .strtab (a permutation of 0..5), fillers interleaved
    pub section_order: Vec<usize>,
    pub fillers: usize,
    pub args: String,
    pub seed: u32,
    /// p_flags of the PT_LOAD entries (PF_X = 1, PF_W = 2, PF_R = 4); missing entries are 7
    pub load_flags: Vec<u32>,
    /// parts of the segments' file contents that are zero: (segment, first byte, length)
    pub zero_runs: Vec<(usize, u32, u32)>,
    /// section and symbol names that are stored only as the tail of a longer string-table entry (as linkers do):
    /// (name, prefix of the longer entry); a symbol of the longer name with a decoy value is added for symbols
    pub tail_share: Vec<(String, String)>,
    /// exact number of padding bytes behind the k-th segment in file order (empty: align to 4 and leave 4 bytes)
    pub file_pads: Vec<u32>,
    /// p_paddr of the PT_LOAD entries where it differs from p_vaddr (missing entries: equal to p_vaddr)
    pub paddrs: Vec<Option<u32>>,
    /// p_align of the PT_LOAD entries (missing entries: 4) and e_entry (None: H'100)
    pub aligns: Vec<u32>,
    pub entry: Option<u32>,
    /// (st_info, st_shndx) of the symbol `___exit` (None: H'12 = global function, section 1)
    pub exit_attr: Option<(u8, u16)>,
    /// where the two header tables lie in the file.  0: program headers directly behind the ELF header, section
    /// headers last (what GNU ld writes); 1: a 28-byte gap between the ELF header and the program headers;
    /// 2: program headers at the very end of the file, behind the section headers; 3: one section-header-sized
    /// block of padding behind the section header table
    pub table_layout: u32,
    /// name of the string table that `.symtab` links to (None: `.strtab`); with Some(..) the file also has a decoy
    /// section called `.strtab` (a string table that does not hold the symbol names)
    pub symstr_name: Option<String>,
    /// header fields the loader has no business looking at.  0: sh_flags 0, sh_info 0, sh_addralign 4, st_size 0,
    /// st_other 0 everywhere; k > 0: section i gets sh_flags / sh_info / sh_addralign from small sets rotated by i + k
    /// (sh_addralign runs through 0, 1, 2, 4, 8, 16, H'1000), symbol j gets st_size 8j + 4 and st_other (j + k) % 4
    pub sh_misc: u32,
}

fn be16(v: &mut Vec<u8>, x: u16) {
    v.extend(x.to_be_bytes());
}
fn be32(v: &mut Vec<u8>, x: u32) {
    v.extend(x.to_be_bytes());
}

fn seg_byte(seed: u32, vaddr: u32, i: u32) -> u8 {
    let x = (vaddr.wrapping_add(i)).wrapping_mul(0x9E37_79B1) ^ seed.wrapping_mul(0x85EB_CA6B);
    ((x >> 24) ^ (x >> 9)) as u8 | 1 // never zero, so that "reads as zero" is meaningful
}

impl Spec {
    pub fn image_end(&self) -> u32 {
        self.segs.iter().map(|s| s.vaddr + s.memsz).max().unwrap_or(0)
    }

    /// file contents of segment k (GOT entries patched in)
    fn seg_data(&self, k: usize) -> Vec<u8> {
        let s = &self.segs[k];
        let mut d: Vec<u8> = (0..s.filesz).map(|i| seg_byte(self.seed, s.vaddr, i)).collect();
        for &(seg, at, len) in self.zero_runs.iter() {
            if seg == k {
                for i in at..(at + len).min(s.filesz) {
                    d[i as usize] = 0;
                }
            }
        }
        if let Some((ga, ref ents)) = self.got {
            for (j, e) in ents.iter().enumerate() {
                let a = ga + 4 * j as u32;
                for b in 0..4u32 {
                    let p = a + b;
                    if p >= s.vaddr && p < s.vaddr + s.filesz {
                        d[(p - s.vaddr) as usize] = e.to_be_bytes()[b as usize];
                    }
                }
            }
        }
        d
    }

    /// Independent ELF32-BE writer.
    pub fn build(&self) -> Vec<u8> {
        let mut f: Vec<u8> = Vec::new();
        // ---- program header table order
        let nph = self.segs.len() + self.nonload.len();
        #[derive(Clone)]
        enum Ph {
            Load(usize),
            Other(u32, u32, u32),
        }
        let mut phs: Vec<Ph> = (0..self.segs.len()).map(Ph::Load).collect();
        let mut nl = self.nonload.clone();
        nl.sort_by_key(|x| x.0);
        for (k, (pos, ty, va, ms)) in nl.iter().enumerate() {
            let p = (*pos + k).min(phs.len());
            phs.insert(p, Ph::Other(*ty, *va, *ms));
        }
        // ---- layout: header, phdrs, segment contents (file_order), section contents, shdrs
        let mut phoff = if self.table_layout == 1 { 80u32 } else { 52u32 };
        let mut off = if self.table_layout == 2 { 52 } else { phoff + 32 * nph as u32 };
        off = (off + 15) & !15;
        let mut seg_off = vec![0u32; self.segs.len()];
        for (i, &k) in self.file_order.iter().enumerate() {
            seg_off[k] = off;
            off += self.segs[k].filesz;
            if self.file_pads.is_empty() {
                off = (off + 3) & !3;
                off += 4; // a gap between contents
            } else {
                off += self.file_pads.get(i).copied().unwrap_or(0);
            }
        }
        off = (off + 3) & !3;
        // section contents
        let symstr = self.symstr_name.clone().unwrap_or_else(|| ".strtab".to_string());
        let names = [".shstrtab", ".got", ".stack", ".symtab", symstr.as_str()];
        // section list: index 0 = NULL, then named sections in `section_order` with fillers interleaved
        let mut sect_names: Vec<String> = vec![String::new()];
        let mut filler_left = self.fillers;
        for (i, &si) in self.section_order.iter().enumerate() {
            if filler_left > 0 && i % 2 == 0 {
                sect_names.push(format!(".fill{}", filler_left));
                filler_left -= 1;
            }
            sect_names.push(names[si].to_string());
        }
        while filler_left > 0 {
            sect_names.push(format!(".fill{}", filler_left));
            filler_left -= 1;
        }
        if self.symstr_name.is_some() {
            sect_names.insert(1, ".strtab".to_string()); // the decoy comes first in the table
        }
        // .shstrtab
        let mut shstr: Vec<u8> = vec![0];
        let mut name_idx: Vec<u32> = Vec::new();
        for n in sect_names.iter() {
            if n.is_empty() {
                name_idx.push(0);
            } else if let Some((_, pre)) = self.tail_share.iter().find(|(t, _)| t == n) {
                // stored once, as the tail of a longer name
                shstr.extend(pre.as_bytes());
                name_idx.push(shstr.len() as u32);
                shstr.extend(n.as_bytes());
                shstr.push(0);
            } else {
                name_idx.push(shstr.len() as u32);
                shstr.extend(n.as_bytes());
                shstr.push(0);
            }
        }
        // .strtab / .symtab
        let mut strtab: Vec<u8> = vec![0];
        let mut symtab: Vec<u8> = Vec::new();
        for (n, v) in self.symbols.iter() {
            let mut ni = strtab.len() as u32;
            if let Some((_, pre)) = self.tail_share.iter().find(|(t, _)| t == n) {
                // the longer symbol first (its own entry, decoy value), then this one pointing into its tail
                be32(&mut symtab, ni);
                be32(&mut symtab, 0x7777);
                be32(&mut symtab, 0);
                symtab.push(0x12);
                symtab.push(0);
                be16(&mut symtab, 1);
                strtab.extend(pre.as_bytes());
                ni = strtab.len() as u32;
            }
            strtab.extend(n.as_bytes());
            strtab.push(0);
            be32(&mut symtab, ni);
            be32(&mut symtab, *v);
            let nsym = symtab.len() as u32 / 16;
            be32(&mut symtab, if self.sh_misc > 0 { 8 * nsym + 4 } else { 0 });
            let (info, shndx) = if n == "___exit" { self.exit_attr.unwrap_or((0x12, 1)) } else { (0x12, 1) };
            symtab.push(info);
            symtab.push(if self.sh_misc > 0 { ((nsym + self.sh_misc) % 4) as u8 } else { 0 });
            be16(&mut symtab, shndx);
        }
        let shstr_off = off;
        off += shstr.len() as u32;
        off = (off + 3) & !3;
        let strtab_off = off;
        off += strtab.len() as u32;
        off = (off + 3) & !3;
        let symtab_off = off;
        off += symtab.len() as u32;
        off = (off + 3) & !3;
        let shoff = off;
        let shnum = sect_names.len();
        if self.table_layout == 2 {
            phoff = shoff + 40 * shnum as u32;
        }
        let idx_of = |n: &str| sect_names.iter().position(|x| x == n).unwrap_or(0) as u32;
        // ---- ELF header
        f.extend([0x7f, b'E', b'L', b'F', 1, 2, 1, 0, 0, 0, 0, 0, 0, 0, 0, 0]);
        be16(&mut f, 2);
        be16(&mut f, 46);
        be32(&mut f, 1);
        be32(&mut f, self.entry.unwrap_or(0x100)); // e_entry (the loader starts at the load base regardless)
        be32(&mut f, phoff);
        be32(&mut f, shoff);
        be32(&mut f, 0x00810000);
        be16(&mut f, 52);
        be16(&mut f, 32);
        be16(&mut f, nph as u16);
        be16(&mut f, 40);
        be16(&mut f, shnum as u16);
        be16(&mut f, idx_of(".shstrtab") as u16);
        // ---- program headers
        let head = f;
        let mut f: Vec<u8> = Vec::new();
        for ph in phs.iter() {
            match ph {
                Ph::Load(k) => {
                    let s = &self.segs[*k];
                    be32(&mut f, 1);
                    be32(&mut f, seg_off[*k]);
                    be32(&mut f, s.vaddr);
                    be32(&mut f, self.paddrs.get(*k).copied().flatten().unwrap_or(s.vaddr));
                    be32(&mut f, s.filesz);
                    be32(&mut f, s.memsz);
                    be32(&mut f, self.load_flags.get(*k).copied().unwrap_or(7));
                    be32(&mut f, self.aligns.get(*k).copied().unwrap_or(4));
                }
                Ph::Other(ty, va, ms) => {
                    be32(&mut f, *ty);
                    be32(&mut f, 0);
                    be32(&mut f, *va);
                    be32(&mut f, *va);
                    be32(&mut f, 0);
                    be32(&mut f, *ms);
                    be32(&mut f, 6);
                    be32(&mut f, 4);
                }
            }
        }
        let phb = f;
        let mut f = head;
        // ---- contents
        let put = |f: &mut Vec<u8>, at: u32, data: &[u8]| {
            if f.len() < at as usize + data.len() {
                f.resize(at as usize + data.len(), 0xEE); // file padding is deliberately non-zero
            }
            f[at as usize..at as usize + data.len()].copy_from_slice(data);
        };
        if self.table_layout != 2 {
            put(&mut f, phoff, &phb);
        }
        for k in 0..self.segs.len() {
            let d = self.seg_data(k);
            put(&mut f, seg_off[k], &d);
        }
        put(&mut f, shstr_off, &shstr);
        put(&mut f, strtab_off, &strtab);
        put(&mut f, symtab_off, &symtab);
        // ---- section headers
        let mut sh: Vec<u8> = Vec::new();
        for (i, n) in sect_names.iter().enumerate() {
            let (ty, addr, offset, size, link, entsize): (u32, u32, u32, u32, u32, u32) = match n.as_str() {
                "" => (0, 0, 0, 0, 0, 0),
                ".shstrtab" => (3, 0, shstr_off, shstr.len() as u32, 0, 0),
                ".got" => match &self.got {
                    Some((ga, ents)) => {
                        // file offset of the GOT inside its segment
                        let mut o = 0;
                        for (k, s) in self.segs.iter().enumerate() {
                            if *ga >= s.vaddr && *ga < s.vaddr + s.filesz.max(1) {
                                o = seg_off[k] + (*ga - s.vaddr);
                            }
                        }
                        (1, *ga, o, 4 * ents.len() as u32, 0, 4)
                    }
                    None => (1, 0, 0, 0, 0, 4),
                },
                // MES convention: the .stack section's address field carries the stack size
                ".stack" => (8, self.stack_size, 0, 0, 0, 0),
                ".symtab" => (2, 0, symtab_off, symtab.len() as u32, idx_of(symstr.as_str()), 16),
                x if x == symstr => (3, 0, strtab_off, strtab.len() as u32, 0, 0),
                // decoy `.strtab` (only with symstr_name): a string table that holds the section names
                ".strtab" => (3, 0, shstr_off, shstr.len() as u32, 0, 0),
                _ => (1, 0x10 * i as u32, shstr_off, 0, 0, 0),
            };
            let r = i + self.sh_misc as usize;
            let (flags, info, addralign) = if self.sh_misc > 0 && i > 0 {
                ([0u32, 3, 6, 0x30, 0x7][r % 5], [0u32, 1, 5, i as u32][r % 4], [0u32, 1, 2, 4, 8, 16, 0x1000][r % 7])
            } else {
                (0, 0, 4)
            };
            be32(&mut sh, name_idx[i]);
            be32(&mut sh, ty);
            be32(&mut sh, flags);
            be32(&mut sh, addr);
            be32(&mut sh, offset);
            be32(&mut sh, size);
            be32(&mut sh, link);
            be32(&mut sh, info);
            be32(&mut sh, addralign);
            be32(&mut sh, entsize);
        }
        put(&mut f, shoff, &sh);
        if self.table_layout == 2 {
            put(&mut f, phoff, &phb);
        }
        if self.table_layout == 3 {
            let at = f.len() as u32;
            put(&mut f, at, &[0xEE; 40]);
        }
        f
    }

    pub fn to_json(&self) -> Value {
        json!({
            "segs": self.segs.iter().map(|s| json!([s.vaddr, s.filesz, s.memsz])).collect::<Vec<_>>(),
            "load_flags": self.load_flags,
            "zero_runs": self.zero_runs.iter().map(|x| json!([x.0, x.1, x.2])).collect::<Vec<_>>(),
            "tail_share": self.tail_share.iter().map(|x| json!([x.0, x.1])).collect::<Vec<_>>(),
            "file_pads": self.file_pads,
            "paddrs": self.paddrs,
            "aligns": self.aligns,
            "entry": self.entry,
            "exit_attr": self.exit_attr.map(|x| json!([x.0, x.1])),
            "table_layout": self.table_layout,
            "symstr_name": self.symstr_name,
            "sh_misc": self.sh_misc,
            "nonload": self.nonload.iter().map(|x| json!([x.0, x.1, x.2, x.3])).collect::<Vec<_>>(),
            "file_order": self.file_order,
            "got": self.got.as_ref().map(|(a, e)| json!([a, e])),
            "stack_size": self.stack_size,
            "symbols": self.symbols.iter().map(|(n, v)| json!([n, v])).collect::<Vec<_>>(),
            "section_order": self.section_order,
            "fillers": self.fillers,
            "args": self.args,
            "seed": self.seed,
        })
    }

    pub fn from_json(v: &Value) -> Option<Spec> {
        let u = |x: &Value| x.as_u64().map(|y| y as u32);
        Some(Spec {
            segs: v["segs"].as_array()?.iter().map(|s| Seg { vaddr: u(&s[0]).unwrap_or(0), filesz: u(&s[1]).unwrap_or(0), memsz: u(&s[2]).unwrap_or(0) }).collect(),
            nonload: v["nonload"].as_array()?.iter().map(|x| (u(&x[0]).unwrap_or(0) as usize, u(&x[1]).unwrap_or(0), u(&x[2]).unwrap_or(0), u(&x[3]).unwrap_or(0))).collect(),
            file_order: v["file_order"].as_array()?.iter().map(|x| x.as_u64().unwrap_or(0) as usize).collect(),
            got: if v["got"].is_null() { None } else { Some((u(&v["got"][0])?, v["got"][1].as_array()?.iter().map(|x| u(x).unwrap_or(0)).collect())) },
            stack_size: u(&v["stack_size"])?,
            symbols: v["symbols"].as_array()?.iter().map(|x| (x[0].as_str().unwrap_or("").to_string(), u(&x[1]).unwrap_or(0))).collect(),
            section_order: v["section_order"].as_array()?.iter().map(|x| x.as_u64().unwrap_or(0) as usize).collect(),
            fillers: v["fillers"].as_u64()? as usize,
            args: v["args"].as_str()?.to_string(),
            seed: u(&v["seed"])?,
            aligns: v["aligns"].as_array().map(|a| a.iter().map(|x| u(x).unwrap_or(4)).collect()).unwrap_or_default(),
            entry: v["entry"].as_u64().map(|y| y as u32),
            table_layout: v["table_layout"].as_u64().unwrap_or(0) as u32,
            symstr_name: v["symstr_name"].as_str().map(|x| x.to_string()),
            sh_misc: v["sh_misc"].as_u64().unwrap_or(0) as u32,
            exit_attr: v["exit_attr"].as_array().map(|a| (a[0].as_u64().unwrap_or(0x12) as u8, a[1].as_u64().unwrap_or(1) as u16)),
            paddrs: v["paddrs"].as_array().map(|a| a.iter().map(|x| x.as_u64().map(|y| y as u32)).collect()).unwrap_or_default(),
            file_pads: v["file_pads"].as_array().map(|a| a.iter().map(|x| u(x).unwrap_or(0)).collect()).unwrap_or_default(),
            load_flags: v["load_flags"].as_array().map(|a| a.iter().map(|x| u(x).unwrap_or(7)).collect()).unwrap_or_default(),
            tail_share: v["tail_share"].as_array().map(|a| a.iter().map(|x| (x[0].as_str().unwrap_or("").to_string(), x[1].as_str().unwrap_or("").to_string())).collect()).unwrap_or_default(),
            zero_runs: v["zero_runs"].as_array().map(|a| a.iter().map(|x| (u(&x[0]).unwrap_or(0) as usize, u(&x[1]).unwrap_or(0), u(&x[2]).unwrap_or(0))).collect()).unwrap_or_default(),
        })
    }
}

pub fn default_spec() -> Spec {
    Spec {
        segs: vec![Seg { vaddr: 0, filesz: 0x71, memsz: 0x71 }, Seg { vaddr: 0x100, filesz: 0x40, memsz: 0x80 }],
        nonload: vec![],
        file_order: vec![0, 1],
        got: Some((0x108, vec![0x1274, 0, 0x00be96ff])),
        stack_size: 0x400,
        symbols: vec![("_start".into(), 0), ("___exit".into(), 0x62), ("__exit".into(), 0x30), ("___exit2".into(), 0x34)],
        section_order: vec![0, 1, 2, 3, 4],
        fillers: 1,
        args: String::new(),
        seed: 1,
        load_flags: Vec::new(),
        zero_runs: Vec::new(),
        tail_share: Vec::new(),
        file_pads: Vec::new(),
        paddrs: Vec::new(),
        aligns: Vec::new(),
        entry: None,
        exit_attr: None,
        table_layout: 0,
        symstr_name: None,
        sh_misc: 0,
    }
}

pub struct Loaded {
    pub cpu: Cpu,
    pub panicked: Option<String>,
}

pub struct Loader {
    cpu: Cpu,
    path: String,
    dirty_hi: usize,
}

impl Loader {
    pub fn new(tag: &str) -> Loader {
        let dir = crate::hv::shard::verif_dir().join(".work");
        let _ = std::fs::create_dir_all(&dir);
        Loader { cpu: Cpu::new(), path: dir.join(format!("elf-{}-{}.elf", std::process::id(), tag)).display().to_string(), dirty_hi: 0 }
    }

    /// Load `spec` with the real loader into a clean CPU; returns None if the loader crashed.
    pub fn load(&mut self, spec: &Spec) -> Result<&Cpu, String> {
        // clean state: registers and the part of DRAM an earlier load may have touched
        for b in self.cpu.bus.dram[..self.dirty_hi].iter_mut() {
            *b = 0;
        }
        self.cpu.er = [0; 8];
        self.cpu.exit_addr = 0;
        let bytes = spec.build();
        std::fs::write(&self.path, &bytes).map_err(|e| format!("MACHINERY: cannot write {}: {}", self.path, e))?;
        let path = self.path.clone();
        let args = spec.args.clone();
        let cpu = &mut self.cpu;
        let r = catch_unwind(AssertUnwindSafe(|| crate::elf::load(path, cpu, args)));
        // everything up to the end of the argument block may be dirty now
        let hi = (BASE - DRAM_LO + spec.image_end() + spec.stack_size + 0x200 + 4 * 40 + spec.args.len() as u32 + 64).min(0x200000) as usize;
        self.dirty_hi = self.dirty_hi.max(hi).max((BASE - DRAM_LO) as usize + 0x20000);
        match r {
            Ok(()) => Ok(&self.cpu),
            Err(p) => {
                let msg = p.downcast_ref::<String>().cloned().or_else(|| p.downcast_ref::<&str>().map(|s| s.to_string())).unwrap_or_default();
                self.dirty_hi = 0x200000;
                Err(format!("the loader crashed on a structurally valid file: {} @ {}", msg, crate::hv::panics::take_last_location()))
            }
        }
    }
}

impl Drop for Loader {
    fn drop(&mut self) {
        let _ = std::fs::remove_file(&self.path);
    }
}

fn dram(cpu: &Cpu, a: u32) -> u8 {
    cpu.bus.dram[(a - DRAM_LO) as usize]
}

/// C11: segment bytes, zero elsewhere in the image, GOT relocated once, nothing outside DRAM modified.
pub fn judge_c11(spec: &Spec, cpu: &Cpu) -> Option<String> {
    let end = spec.image_end();
    // expected image from the parameters
    let mut img = vec![0u8; end as usize];
    for (k, s) in spec.segs.iter().enumerate() {
        let d = spec.seg_data(k);
        img[s.vaddr as usize..(s.vaddr + s.filesz) as usize].copy_from_slice(&d);
    }
    if let Some((ga, ref ents)) = spec.got {
        for (j, e) in ents.iter().enumerate() {
            let a = (ga + 4 * j as u32) as usize;
            let v = e.wrapping_add(BASE);
            if a + 4 <= img.len() {
                img[a..a + 4].copy_from_slice(&v.to_be_bytes());
            }
        }
    }
    for i in 0..end {
        let got = dram(cpu, BASE + i);
        if got != img[i as usize] {
            let in_got = spec.got.as_ref().map(|(ga, e)| i >= *ga && i < *ga + 4 * e.len() as u32).unwrap_or(false);
            return Some(format!(
                "image byte at load base + {:#x} is {:02x}, expected {:02x} ({})",
                i,
                got,
                img[i as usize],
                if in_got { "inside .got: file value + load base, relocated once" } else if spec.segs.iter().any(|s| i >= s.vaddr && i < s.vaddr + s.filesz) { "segment file contents" } else { ".bss / gap must read as zero" }
            ));
        }
    }
    // nothing outside DRAM is modified
    if cpu.bus.memory.iter().any(|&b| b != 0) || cpu.bus.exception_handling_vector.iter().any(|&b| b != 0) || cpu.bus.io_registrs1.iter().any(|&b| b != 0) || cpu.bus.io_registrs2.iter().any(|&b| b != 0) {
        return Some("memory outside DRAM was modified by the loader".into());
    }
    None
}

fn align4(x: u32) -> u32 {
    (x + 3) & !3
}

/// C12: entry, ER5, ER7, argc/argv block, region order, exit address.
pub fn judge_c12(spec: &Spec, cpu: &Cpu) -> Option<String> {
    if cpu.er[2] != BASE {
        return Some(format!("ER2 (start address) is {:08x}, expected the load base {:08x}", cpu.er[2], BASE));
    }
    if let Some((ga, _)) = spec.got {
        if cpu.er[5] != BASE + ga {
            return Some(format!("ER5 is {:08x}, the run-time address of .got is {:08x}", cpu.er[5], BASE + ga));
        }
    }
    let image_end = BASE + spec.image_end();
    let stack_end = align4(image_end + spec.stack_size);
    if cpu.er[7] % 4 != 0 {
        return Some(format!("ER7 {:08x} is not 4-byte aligned", cpu.er[7]));
    }
    if cpu.er[7] != stack_end - 8 {
        return Some(format!(
            "ER7 is {:08x}; the stack region of {:#x} bytes begins where the image ends ({:08x}), its 4-byte-aligned end is {:08x}, so ER7 must be {:08x}",
            cpu.er[7], spec.stack_size, image_end, stack_end, stack_end - 8
        ));
    }
    let words: Vec<&str> = spec.args.split(|c: char| c == ' ' || c == '\t').filter(|w| !w.is_empty()).collect();
    let argc = 1 + words.len() as u32;
    if cpu.er[0] != argc {
        return Some(format!("ER0 (argc) is {}, expected {} for argument string {:?}", cpu.er[0], argc, spec.args));
    }
    let tcb_end = stack_end + 88;
    let argv = cpu.er[1];
    if argv < tcb_end {
        return Some(format!("argv block at {:08x} overlaps the stack / 88-byte TCB area ending at {:08x}", argv, tcb_end));
    }
    if argv % 4 != 0 || argv < DRAM_LO || argv + 4 * (argc + 1) > 0x600000 {
        return Some(format!("argv {:08x} is not a usable DRAM address", argv));
    }
    let rd32 = |a: u32| -> u32 { ((dram(cpu, a) as u32) << 24) | ((dram(cpu, a + 1) as u32) << 16) | ((dram(cpu, a + 2) as u32) << 8) | dram(cpu, a + 3) as u32 };
    let mut regions: Vec<(u32, u32)> = vec![(argv, argv + 4 * (argc + 1))];
    let mut all: Vec<&str> = vec!["prog.elf"];
    all.extend(words.iter());
    for (i, w) in all.iter().enumerate() {
        let p = rd32(argv + 4 * i as u32);
        if p < tcb_end || p as usize + w.len() + 1 > 0x600000 {
            return Some(format!("argv[{}] = {:08x} does not point into DRAM above the TCB area", i, p));
        }
        for (k, b) in w.as_bytes().iter().enumerate() {
            if dram(cpu, p + k as u32) != *b {
                return Some(format!("argv[{}] is not a byte-exact copy of {:?} (differs at byte {})", i, w, k));
            }
        }
        if dram(cpu, p + w.len() as u32) != 0 {
            return Some(format!("argv[{}] ({:?}) is not NUL-terminated", i, w));
        }
        regions.push((p, p + w.len() as u32 + 1));
    }
    if rd32(argv + 4 * argc) != 0 {
        return Some(format!("argv[{}] is {:08x}, expected a null pointer after the {} arguments", argc, rd32(argv + 4 * argc), argc));
    }
    regions.sort();
    for w in regions.windows(2) {
        if w[0].1 > w[1].0 {
            return Some(format!("argument block parts overlap: [{:08x},{:08x}) and [{:08x},{:08x})", w[0].0, w[0].1, w[1].0, w[1].1));
        }
    }
    match spec.symbols.iter().rev().find(|(n, _)| n == "___exit") {
        Some((_, v)) => {
            if cpu.exit_addr != BASE + v {
                return Some(format!("exit address is {:08x}, ___exit + load base is {:08x}", cpu.exit_addr, BASE + v));
            }
        }
        None => {}
    }
    None
}

// ------------------------------------------------------------------------------------------------
// generator domains (each factor enumerated completely around the default layout)
// ------------------------------------------------------------------------------------------------

fn permutations(n: usize) -> Vec<Vec<usize>> {
    fn rec(cur: &mut Vec<usize>, used: &mut Vec<bool>, n: usize, out: &mut Vec<Vec<usize>>) {
        if cur.len() == n {
            out.push(cur.clone());
            return;
        }
        for i in 0..n {
            if !used[i] {
                used[i] = true;
                cur.push(i);
                rec(cur, used, n, out);
                cur.pop();
                used[i] = false;
            }
        }
    }
    let mut out = Vec::new();
    rec(&mut Vec::new(), &mut vec![false; n], n, &mut out);
    out
}

/// segment layouts: 1-4 segments, sizes/gaps from a small set, filesz <= memsz
fn layouts(tier: Tier) -> Vec<Vec<Seg>> {
    let sizes: Vec<u32> = if tier == Tier::Thorough { vec![0, 1, 3, 4, 0x71, 0x1271] } else { vec![0, 1, 4, 0x71, 0x1271] };
    let gaps: Vec<u32> = if tier == Tier::Thorough { vec![0, 1, 3, 4, 0x71] } else { vec![0, 3, 0x71] };
    let bss: [u32; 3] = [0, 1, 0x40];
    let mut out = Vec::new();
    // one segment
    for &s in sizes.iter() {
        for &b in bss.iter() {
            for &start in &[0u32, 4, 0x71] {
                out.push(vec![Seg { vaddr: start, filesz: s, memsz: s + b }]);
            }
        }
    }
    // two segments: full product of sizes x gaps x bss
    for &s1 in sizes.iter() {
        for &g in gaps.iter() {
            for &s2 in sizes.iter() {
                for &b1 in bss.iter() {
                    for &b2 in bss.iter() {
                        let v2 = s1 + b1 + g;
                        out.push(vec![Seg { vaddr: 0, filesz: s1, memsz: s1 + b1 }, Seg { vaddr: v2, filesz: s2, memsz: s2 + b2 }]);
                    }
                }
            }
        }
    }
    // three and four segments: sizes x gaps, bss on the last
    for &s in sizes.iter() {
        for &g in gaps.iter() {
            for &b in bss.iter() {
                let mut v = Vec::new();
                let mut a = 0;
                for k in 0..3u32 {
                    let sz = s + k;
                    v.push(Seg { vaddr: a, filesz: sz, memsz: sz + if k == 2 { b } else { 0 } });
                    a += sz + g;
                }
                out.push(v.clone());
                v.push(Seg { vaddr: a + b + g, filesz: s, memsz: s + b });
                out.push(v);
            }
        }
    }
    // empty PT_LOAD entries (filesz = memsz = 0, what a linker emits for an empty .data): at the address of another
    // segment (listed after it and before it), at its end, inside it, and between two segments
    let a = Seg { vaddr: 0, filesz: 0x71, memsz: 0x71 };
    let b = Seg { vaddr: 0x100, filesz: 0x40, memsz: 0x80 };
    let e = |v: u32| Seg { vaddr: v, filesz: 0, memsz: 0 };
    for l in [
        vec![a.clone(), e(0)],
        vec![e(0), a.clone()],
        vec![a.clone(), e(0x71)],
        vec![a.clone(), e(0x30)],
        vec![a.clone(), e(0), b.clone()],
        vec![a.clone(), b.clone(), e(0x100)],
        vec![a.clone(), e(0x100), b.clone()],
        vec![a.clone(), b.clone(), e(0x180)],
        vec![a.clone(), e(0), e(0), b.clone()],
        vec![Seg { vaddr: 4, filesz: 4, memsz: 5 }, e(4)],
        vec![Seg { vaddr: 4, filesz: 4, memsz: 5 }, e(9), e(4)],
    ] {
        out.push(l);
    }
    out
}

/// C11 only: files without a .stack section (the loader then sets up no process environment, which is C12's
/// subject), so that segments and the GOT can reach the very last byte of DRAM.
fn specs_top_of_dram() -> Vec<Spec> {
    let cap: u32 = 0x20_0000 - (BASE - 0x40_0000); // bytes from the load base to the end of DRAM
    let d = default_spec();
    let mut out = Vec::new();
    for below in [0u32, 1, 4, 5, 0x100] {
        for size in [4u32, 8, 0x20, 0x71, 0x1271] {
            for bss in [0u32, 1, 0x10] {
                if size + bss + below > cap {
                    continue;
                }
                let v = cap - below - size - bss;
                for nents in [0usize, 1, 2, 4] {
                    if 4 * nents as u32 > size {
                        continue;
                    }
                    for got_gap in [0u32, 1, 4] {
                        // the GOT ends `got_gap` bytes in front of the end of the segment's file contents
                        if 4 * nents as u32 + got_gap > size {
                            continue;
                        }
                        let mut s = d.clone();
                        s.segs = vec![Seg { vaddr: 0, filesz: 0x10, memsz: 0x10 }, Seg { vaddr: v, filesz: size, memsz: size + bss }];
                        s.file_order = vec![1, 0];
                        s.got = if nents == 0 { None } else { Some((v + size - got_gap - 4 * nents as u32, (0..nents).map(|i| [0x10u32, 0x00be_9700, 0x1234_5678, 0x0abc][i % 4]).collect())) };
                        s.section_order = vec![0, 1, 3, 4]; // no .stack
                        s.seed = below * 31 + size + bss;
                        out.push(s);
                    }
                }
            }
        }
    }
    out
}

fn arg_strings() -> Vec<String> {
    let seps = ["", " ", "\t", " \t  "];
    let words = ["a", "-x", "ab=c"];
    let long = "z".repeat(200);
    let mut out: Vec<String> = Vec::new();
    // 0..3 words from the word set (plus the long word), every separator choice before/between/after
    let mut all_words: Vec<String> = words.iter().map(|s| s.to_string()).collect();
    all_words.push(long.clone());
    for lead in seps.iter() {
        out.push(lead.to_string());
        for w1 in all_words.iter() {
            for trail in seps.iter() {
                out.push(format!("{}{}{}", lead, w1, trail));
                for mid in &seps[1..] {
                    for w2 in all_words.iter().take(3) {
                        out.push(format!("{}{}{}{}{}", lead, w1, mid, w2, trail));
                        out.push(format!("{}{}{}{}{}{}{}", lead, w1, mid, w2, mid, all_words[0], trail));
                    }
                }
            }
        }
    }
    // 32 words
    out.push((0..32).map(|i| format!("w{}", i)).collect::<Vec<_>>().join(" "));
    out.push((0..32).map(|i| format!("{}", i % 10)).collect::<Vec<_>>().join("\t \t"));
    // every printable ASCII character once (as single words and inside one word)
    for c in 0x21u8..=0x7e {
        out.push(format!("{}", c as char));
        out.push(format!("p{}q r", c as char));
    }
    // words that name things that exist on the host, behind the characters tools give a meaning to (response files,
    // redirections, variables, home directories, globs): every one is an ordinary word for the guest
    let scratch = crate::hv::shard::verif_dir().join(".work").join("argfile.txt");
    let _ = std::fs::create_dir_all(scratch.parent().unwrap());
    let _ = std::fs::write(&scratch, "X Y Z\n");
    let mut things: Vec<String> = vec![scratch.to_string_lossy().to_string(), "/dev/null".into(), "/etc/hostname".into(), "/".into(), ".".into(), "Cargo.toml".into(), "/repo/Cargo.toml".into(), "*".into(), "HOME".into(), "PATH".into()];
    things.push(".work/argfile.txt".into());
    for t in things.iter() {
        for pre in ["@", "<", ">", ">>", "$", "${", "~", "~/", "%", "-", "--", "--args=", "file://", "`", "!", "&", "|", ""] {
            out.push(format!("{}{}", pre, t));
            out.push(format!("a {}{} b", pre, t));
        }
    }
    out.sort();
    out.dedup();
    out
}

fn got_variants() -> Vec<Option<(u32, Vec<u32>)>> {
    // placed inside segment 1 of the default layout (vaddr 0x100, filesz 0x40) or segment 0 (0..0x71)
    let vals: Vec<u32> = vec![0, 1, 0x1274, 0x00be96ff, 0x00be9700, 0xff000000u32.wrapping_sub(BASE), 0x7fffffff, 0x00be96fe];
    let mut out: Vec<Option<(u32, Vec<u32>)>> = vec![None];
    for &at in &[0x100u32, 0x104, 0x101, 0x13c - 8, 0x0, 0x3, 0x6c - 8, 0x40] {
        for n in [0usize, 1, 2, 3] {
            let ents: Vec<u32> = (0..n).map(|i| vals[(i + at as usize) % vals.len()]).collect();
            out.push(Some((at, ents)));
        }
        for v in vals.iter() {
            out.push(Some((at, vec![*v])));
        }
    }
    out
}

pub fn specs(tier: Tier) -> Vec<Spec> {
    let mut out = Vec::new();
    let d = default_spec();
    // ---- factor: layouts x GOT in first segment where it fits
    for (i, l) in layouts(tier).into_iter().enumerate() {
        let mut s = d.clone();
        s.file_order = (0..l.len()).rev().collect(); // file offsets not in address order
        if i % 2 == 0 {
            s.file_order.reverse();
        }
        // GOT of 2 entries at the start of the largest segment that can hold it
        s.got = l.iter().filter(|g| g.filesz >= 8).max_by_key(|g| g.filesz).map(|g| (g.vaddr + ((g.filesz - 8) / 2 & !3), vec![0x1274, 0x00be96ff]));
        s.segs = l;
        s.seed = i as u32;
        out.push(s);
    }
    // ---- factor: names stored as tails of longer string-table entries
    for shared in [vec![(".got", ".rela")], vec![(".stack", ".mes")], vec![(".symtab", ".dyn")], vec![(".strtab", ".dyn")], vec![(".shstrtab", ".x")], vec![("___exit", "_mes")], vec![(".got", ".rela"), (".stack", ".x"), ("___exit", "_")]] {
        let mut sp = d.clone();
        sp.tail_share = shared.iter().map(|(a, b)| (a.to_string(), b.to_string())).collect();
        out.push(sp);
    }
    // ---- factor: binding / type / section index of the symbol ___exit (its value is the exit address whatever they say)
    for info in [0x10u8, 0x11, 0x12, 0x02, 0x00, 0x20, 0x22, 0x13] {
        for shndx in [1u16, 2, 0xfff1, 0xfff2] {
            let mut sp = d.clone();
            sp.exit_attr = Some((info, shndx));
            out.push(sp);
        }
    }
    // ---- factor: where the header tables lie in the file (e_phoff / e_shoff are what locates them) x section orders,
    //      and the name of the string table `.symtab` links to (sh_link is what locates it)
    for tl in 0..4u32 {
        for (oi, order) in [vec![0usize, 1, 2, 3, 4], vec![4, 3, 2, 1, 0], vec![3, 0, 4, 2, 1]].into_iter().enumerate() {
            for nm in [None, Some(".dynstr"), Some(".strtab2")] {
                if tl == 0 && nm.is_none() {
                    continue;
                }
                let mut sp = d.clone();
                sp.table_layout = tl;
                sp.section_order = order.clone();
                sp.symstr_name = nm.map(|x| x.to_string());
                sp.fillers = oi;
                sp.nonload = if oi == 1 { vec![(1, 4, 0, 0)] } else { vec![] };
                out.push(sp);
            }
        }
    }
    // ---- factor: header fields that carry no meaning for the loader (sh_flags, sh_info, sh_addralign, st_size,
    //      st_other): every section, `.stack` included, under every sh_addralign of 0, 1, 2, 4, 8, 16, H'1000, with
    //      stack sizes whose region end is / is not a multiple of 8 and 16 (C12-M11)
    for k in 1..=7u32 {
        for stack in [0x400u32, 0x404, 0x3f1, 0x1008] {
            let mut sp = d.clone();
            sp.sh_misc = k;
            sp.stack_size = stack;
            out.push(sp);
        }
    }
    // ---- factor: non-load program headers in every position (incl. last), 0-2 of them; p_type values whose low
    //      8 / 16 / 24 bits look like PT_LOAD
    for ty in [0u32, 4, 0x6474e551, 2, 3, 5, 6, 7, 0x101, 0x0001_0001, 0x0100_0001, 0x6000_0001, 0x7000_0001, 0xffff_0001, 0x8000_0001, 0x0002_0001, 0x6474_e550, 0x6474_e552] {
        for pos in 0..=2usize {
            let mut s = d.clone();
            s.nonload = vec![(pos, ty, 0, 0)];
            out.push(s.clone());
            s.nonload = vec![(pos, ty, 0x2000, 0x10)];
            out.push(s.clone());
            for pos2 in 0..=2usize {
                let mut t = d.clone();
                t.nonload = vec![(pos, ty, 0, 0), (pos2, 4, 0, 0)];
                out.push(t);
            }
        }
    }
    // ---- factor: all 120 orders of the five named sections x filler counts
    for p in permutations(5) {
        for fillers in [0usize, 1, 3] {
            let mut s = d.clone();
            s.section_order = p.clone();
            s.fillers = fillers;
            out.push(s);
        }
    }
    // ---- factor: GOT size / position / values
    for g in got_variants() {
        let mut s = d.clone();
        s.got = g;
        out.push(s);
    }
    {
        // 64 entries in a big segment, unaligned relative to the segment start
        let mut s = d.clone();
        s.segs = vec![Seg { vaddr: 0, filesz: 0x1271, memsz: 0x1271 }];
        s.file_order = vec![0];
        for at in [0u32, 0x102, 0x1271 - 256 - 1, 0x800] {
            s.got = Some((at, (0..64).map(|i| 0x1000 * i as u32 + 0x00be0000).collect()));
            out.push(s.clone());
        }
    }
    // ---- factor: p_flags of the PT_LOAD entries (the loaded image does not depend on them)
    for fl in [vec![5u32, 6], vec![4, 4], vec![1, 2], vec![0, 0], vec![6, 5]] {
        let mut s = d.clone();
        s.load_flags = fl;
        out.push(s);
    }
    // ---- factor: zero bytes inside the file contents (a loader that treats zero chunks / pages specially): a big
    //      segment at three alignments relative to the absolute 4 KiB / 256-byte grid, zero runs of every length
    //      around the distance to the next boundary, at the start, in the middle and at the end
    for start in [0u32, 0x700 - 0x100, 4, 0x6ff] {
        let size = 0x3000u32;
        let to_page = (0x1000 - ((BASE + start) & 0xfff)) & 0xfff;
        let to_256 = (0x100 - ((BASE + start) & 0xff)) & 0xff;
        let mut runs: Vec<(u32, u32)> = Vec::new();
        for d in [to_page, to_256, 0x1000, 0x2000] {
            for len in [d.saturating_sub(1), d, d + 1] {
                if len > 0 && len < size {
                    runs.push((0, len));
                }
            }
            runs.push((d, 0x1000));
            runs.push((d + 1, 0xfff));
            runs.push((d, 0x1001));
        }
        runs.push((size - 0x1000, 0x1000));
        runs.push((0, size));
        runs.push((1, size - 2));
        for (at, len) in runs {
            let mut sp = d.clone();
            sp.segs = vec![Seg { vaddr: start, filesz: size, memsz: size + 0x10 }];
            sp.file_order = vec![0];
            sp.got = None;
            sp.zero_runs = vec![(0, at, len)];
            sp.seed = start ^ at ^ len;
            out.push(sp);
        }
    }
    // ---- factor: GOT entry values that look like addresses of the memory map (every I/O register address, the
    //      region edges and their neighbours): each must be relocated like any other value
    {
        let mut vals: Vec<u32> = (0xfee000u32..=0xfee0ff).chain(0xffff20..=0xffffe9).collect();
        for e in [0x000000u32, 0x0000ff, 0x000100, 0x400000, 0x5fffff, 0x600000, 0xfedfff, 0xfee100, 0xffbf1f, 0xffbf20, 0xffff1f, 0xffffea, 0xffffff, 0x416900, 0x4168ff] {
            vals.push(e);
            vals.push(e | 0x0100_0000);
        }
        for chunk in vals.chunks(64) {
            let mut sp = d.clone();
            sp.segs = vec![Seg { vaddr: 0, filesz: 0x200, memsz: 0x200 }];
            sp.file_order = vec![0];
            sp.got = Some((0x40, chunk.to_vec()));
            out.push(sp);
        }
    }
    // ---- factor: stack sizes
    for ss in [0u32, 1, 2, 3, 4, 0x400, 0xffff, 0x10000] {
        for l in [vec![Seg { vaddr: 0, filesz: 0x71, memsz: 0x71 }], vec![Seg { vaddr: 0, filesz: 0x70, memsz: 0x73 }, Seg { vaddr: 0x100, filesz: 1, memsz: 2 }]] {
            let mut s = d.clone();
            s.file_order = (0..l.len()).collect();
            s.segs = l;
            s.got = None;
            s.stack_size = ss;
            out.push(s);
        }
    }
    // ---- factor: symbol tables
    for n in [1usize, 2, 17, 200] {
        for pos in [0usize, n / 2, n - 1] {
            let mut s = d.clone();
            s.symbols = (0..n).map(|i| (format!("sym_{}", i), 0x10 + i as u32)).collect();
            s.symbols[pos] = ("___exit".into(), 0x62 + pos as u32);
            if n >= 17 {
                s.symbols[(pos + 3) % n] = ("__exit".into(), 0x999);
                s.symbols[(pos + 5) % n] = ("___exit2".into(), 0x998);
                s.symbols[(pos + 7) % n] = ("____exit".into(), 0x997);
            }
            out.push(s);
        }
    }
    // ---- factor: symbol tables that contain the names linkers and C run times define, with values that are NOT the
    //      thing the name suggests (the loader is told where things are by sections, not by these symbols)
    {
        let names = ["_GLOBAL_OFFSET_TABLE_", "_start", "_main", "_exit", "__exit", "_stack", "__stack", "_stack_top", "_end", "__end", "_edata", "_etext", "__bss_start", "___bss_start", "_bss", "__data_start", "_gp", "__heap_start", "__heap_end", "_argc", "_argv", "___main", "__init", "__fini", "_vectors", "___exit_hook", "___exitcode", ".got", ".stack"];
        for (k, n) in names.iter().enumerate() {
            for (pos, val) in [(0usize, 0x0cu32), (1, 0x5c), (2, 0xbe96fc)] {
                let mut sp = d.clone();
                let mut syms = sp.symbols.clone();
                let at = pos.min(syms.len());
                syms.insert(at, (n.to_string(), val + 4 * (k as u32 % 3)));
                sp.symbols = syms;
                out.push(sp);
            }
        }
        // all of them at once, before and after ___exit
        let mut sp = d.clone();
        let mut syms: Vec<(String, u32)> = names.iter().enumerate().map(|(k, n)| (n.to_string(), 0x20 + 4 * k as u32)).collect();
        syms.insert(names.len() / 2, ("___exit".into(), 0x62));
        sp.symbols = syms;
        out.push(sp);
    }
    // ---- factor: argument strings
    for a in arg_strings() {
        let mut s = d.clone();
        s.args = a;
        out.push(s);
    }
    // ---- cross products between factors (two cooperating sites): layouts x stack sizes x non-load header placement
    let nl_variants: Vec<Vec<(usize, u32, u32, u32)>> = vec![vec![], vec![(0, 4, 0, 0)], vec![(1, 0x6474e551, 0, 0)], vec![(9, 0, 0, 0)], vec![(9, 4, 0x3000, 0x20)]];
    for (i, l) in layouts(tier).into_iter().enumerate() {
        for ss in [0u32, 1, 3, 0x400, 0xffff] {
            for (j, nl) in nl_variants.iter().enumerate() {
                if tier != Tier::Thorough && (i + j) % 2 == 1 {
                    continue;
                }
                let mut s = d.clone();
                s.file_order = (0..l.len()).collect();
                if i % 3 == 0 {
                    s.file_order.reverse();
                }
                s.got = l.iter().filter(|g| g.filesz >= 4).min_by_key(|g| g.vaddr).map(|g| (g.vaddr + (g.filesz - 4), vec![0x00be96ff]));
                s.segs = l.clone();
                s.stack_size = ss;
                s.nonload = nl.clone();
                s.seed = (i * 7 + j) as u32;
                s.args = if j % 2 == 0 { String::new() } else { " foo\tbar  ".replace("\\t", "\t") };
                out.push(s);
            }
        }
    }
    // ---- argument strings x stack sizes x section orders (the .stack section is processed when it is met)
    let orders = permutations(5);
    for (i, a) in arg_strings().into_iter().enumerate() {
        for (k, ss) in [0u32, 2, 0x403, 0x10000].iter().enumerate() {
            let mut s = d.clone();
            s.args = a.clone();
            s.stack_size = *ss;
            s.section_order = orders[(i * 4 + k) % orders.len()].clone();
            s.fillers = (i + k) % 3;
            out.push(s);
        }
    }
    // ---- every section order x GOT variants (relocation must not depend on where .got comes in the table)
    for (i, p) in orders.iter().enumerate() {
        for (k, g) in got_variants().into_iter().enumerate() {
            if tier != Tier::Thorough && (i + k) % 4 != 0 {
                continue;
            }
            let mut s = d.clone();
            s.section_order = p.clone();
            s.got = g;
            s.fillers = k % 2;
            out.push(s);
        }
    }
    out
}

/// Three file-backed segments whose sizes, file paddings and memory gaps coincide: every order in the table, in the
/// file and in memory x sizes x paddings x gaps from one small set, so that "the padding equals a segment's size",
/// "two segments have the same distance in the file and in memory", "consecutive in the file but not in memory" and
/// their combinations all occur (what a loader that coalesces copies would key on).
fn specs_three_segments(tier: Tier) -> Vec<Spec> {
    let perms: [[usize; 3]; 6] = [[0, 1, 2], [0, 2, 1], [1, 0, 2], [1, 2, 0], [2, 0, 1], [2, 1, 0]];
    let sizes: &[u32] = if tier == Tier::Thorough { &[16, 32, 48] } else { &[16, 32] };
    let pads: &[u32] = if tier == Tier::Thorough { &[0, 16, 32, 48] } else { &[0, 16, 32] };
    let d = default_spec();
    let mut out = Vec::new();
    let mut seed = 0u32;
    for &s0 in sizes {
        for &s1 in sizes {
            for &s2 in sizes {
                let sz = [s0, s1, s2];
                for &p0 in pads {
                    for &p1 in pads {
                        for &g0 in pads {
                            for &g1 in pads {
                                // table order is the index order; file order and memory order are permutations of it
                                for fo in perms.iter() {
                                    for mo in perms.iter() {
                                        let mut vaddr = [0u32; 3];
                                        let mut a = 0u32;
                                        for (i, &k) in mo.iter().enumerate() {
                                            vaddr[k] = a;
                                            a += sz[k] + [g0, g1, 0][i];
                                        }
                                        let mut s = d.clone();
                                        s.segs = (0..3).map(|k| Seg { vaddr: vaddr[k], filesz: sz[k], memsz: sz[k] }).collect();
                                        s.file_order = fo.to_vec();
                                        s.file_pads = vec![p0, p1, 4];
                                        s.got = None;
                                        s.symbols = vec![("_start".into(), 0), ("___exit".into(), 8)];
                                        s.seed = seed;
                                        seed = seed.wrapping_add(1);
                                        out.push(s);
                                    }
                                }
                            }
                        }
                    }
                }
            }
        }
    }
    out
}

/// p_paddr differs from p_vaddr (the statement places a segment at load base + p_vaddr).  Files without a `.stack`
/// section, so that nothing but the segments is written.
fn specs_paddr_differs(tier: Tier) -> Vec<Spec> {
    let d = default_spec();
    let mut out = Vec::new();
    for (i, l) in layouts(tier).into_iter().enumerate().take(40) {
        for pat in 0..4u32 {
            let mut s = d.clone();
            s.file_order = (0..l.len()).collect();
            s.got = l.iter().filter(|g| g.filesz >= 8).max_by_key(|g| g.filesz).map(|g| (g.vaddr + ((g.filesz - 8) / 2 & !3), vec![0x1274, 0x00be96ff]));
            s.paddrs = l.iter().enumerate().map(|(k, g)| match pat {
                0 => Some(0),
                1 => Some(g.vaddr + 0x2000),
                2 => Some(g.vaddr ^ 0x10),
                _ => if k % 2 == 0 { Some(0x0001_0000 + 0x100 * k as u32) } else { None },
            }).collect();
            // p_align and e_entry are free as well: segments are placed at p_vaddr whatever they say
            s.aligns = l.iter().enumerate().map(|(k, _)| [0u32, 1, 4, 0x10, 0x1000, 0x10000][(k + i + pat as usize) % 6]).collect();
            s.entry = Some([0u32, 0x100, 0x0041_6900, 0xffff_ffff][(i + pat as usize) % 4]);
            s.segs = l.clone();
            s.section_order = vec![0, 1, 3, 4]; // no .stack
            s.seed = 7000 + i as u32 * 4 + pat;
            out.push(s);
        }
    }
    out
}

fn specs_for(prop: &str, tier: Tier) -> Vec<Spec> {
    let mut all = specs(tier);
    if prop == "C11" {
        all.extend(specs_paddr_differs(tier));
        all.extend(specs_three_segments(tier));
    }
    if prop == "C11" {
        all.extend(specs_top_of_dram());
    }
    all
}

fn elf_units(prop: &'static str, tier: Tier) -> Vec<Unit> {
    let all = specs_for(prop, tier);
    let n = all.len() as u64;
    let chunks = 64u64.min(n);
    let dom = format!(
        "{} generated ELF32-BE files, factorised so that each factor is a full product around a default layout: segment layouts (1-4 PT_LOAD, sizes/gaps from a small set incl. 0/1/3/4/0x71/0x1271, filesz <= memsz, file offsets not in address order), 0-2 non-load program headers in every position incl. last, all 120 orders of .shstrtab/.got/.stack/.symtab/.strtab x filler sections, .got of 0-3 and 64 entries at aligned/unaligned positions with carrying values, stack sizes 0-64 KiB, empty PT_LOAD entries sharing an address with / inside / between other segments, (C11 only: files without .stack whose last segment and GOT reach the last bytes of DRAM; p_paddr different from p_vaddr in four patterns, p_align in 0, 1, 4, H'10, H'1000, H'10000 and four e_entry values; three file-backed segments in all 6 table x 6 file x 6 memory orders with sizes, file paddings and memory gaps from one small set so that they coincide), symbol tables of 1-200 symbols with ___exit first/middle/last among decoys and names that extend ___exit, ___exit with 8 binding/type bytes x 4 section indices, argument strings (all separator patterns x 0-3 words, 32 words, every printable ASCII character)",
        n
    );
    let mk = |name: &str, dom: &str, trace: bool| Unit::new(name, chunks, dom, move |ctx, chunk| {
        // second pass: the loader's own log lines are enabled at every level and their arguments evaluated
        crate::hv::panics::eval_log_args(trace);
        let all = specs_for(prop, tier);
        let (lo, hi) = chunk_range(all.len() as u64, chunks, chunk);
        let mut ld = Loader::new(&format!("{}-{}", prop, chunk));
        for k in lo as usize..hi as usize {
            let spec = &all[k];
            ctx.st.cases += 1;
            ctx.st.nontrivial += 1;
            let verdict = match ld.load(spec) {
                Ok(cpu) => {
                    let h = (cpu.er[7] as usize ^ (cpu.er[0] as usize * 131) ^ (cpu.er[1] as usize >> 2)) & 0xffff;
                    ctx.st.outcome_bits[h / 64] |= 1 << (h % 64);
                    if prop == "C11" {
                        judge_c11(spec, cpu)
                    } else {
                        judge_c12(spec, cpu)
                    }
                }
                Err(m) => Some(m),
            };
            if let Some(msg) = verdict {
                if let Some(mm) = msg.strip_prefix("MACHINERY: ") {
                    ctx.machinery(mm.to_string());
                    return;
                }
                ctx.custom_violation("elf", msg, json!({"prop": prop, "spec": spec.to_json(), "trace_logging": trace}), json!(null), json!(null));
                if ctx.stop {
                    crate::hv::panics::eval_log_args(false);
                    return;
                }
            }
            if k == lo as usize {
                ctx.sample(json!({"spec": spec.to_json()}));
            }
        }
        crate::hv::panics::eval_log_args(false);
    });
    vec![mk("files", &dom, false), mk("files-with-trace-logging", &format!("the same files loaded with trace logging enabled and every log argument evaluated by a formatting logger (the result must not depend on the log level): {}", dom), true)]
}

pub fn c11(tier: Tier, _seed: u64) -> Prop {
    Prop {
        id: "C11",
        level: "exploration",
        rule: "every file of the generator's declared product is built by an independent ELF32-BE writer, loaded by the real elf::load into a clean real Cpu and compared byte for byte with the image computed from the generator's parameters; every file is distinct and non-trivial (it has at least one PT_LOAD segment)".into(),
        assumptions: vec![
            "structurally valid means: what the independent writer emits (e_phentsize 32, e_shentsize 40, section names graphic ASCII, .symtab linked to .strtab)".into(),
            "file padding between contents is non-zero (0xEE) so that bytes copied from the wrong offset are visible; segment contents are never zero so that 'reads as zero' is meaningful".into(),
            "GOT entry + load base never overflows 32 bits in the generated values".into(),
        ],
        units: elf_units("C11", tier),
        extra: crate::hv::shard::no_extra(),
        profiles: vec!["release"],
    }
}

pub fn c12(tier: Tier, _seed: u64) -> Prop {
    Prop {
        id: "C12",
        level: "exploration",
        rule: "same generator as C11; registers, stack pointer, argc/argv block (followed through the pointers the loader wrote), region order and the exit address are compared with the expectation computed from the parameters; every file is distinct and non-trivial".into(),
        assumptions: vec![
            "the exact placement of the argv array and strings inside the argument block is free; they must lie above the 88-byte TCB area, inside DRAM, without overlapping".into(),
            "p_paddr = p_vaddr, PT_LOAD entries in ascending order, non-load entries in any position (as the quantifier says)".into(),
        ],
        units: {
            let mut u = elf_units("C12", tier);
            u.push(real_binary_unit());
            u
        },
        extra: crate::hv::shard::no_extra(),
        profiles: vec!["release"],
    }
}

pub fn replay_elf(case: &Value) -> bool {
    if case["real_binary"].as_bool().unwrap_or(false) {
        println!("real-binary counterexamples are re-checked by ./check.sh C12 quick (they need the repository binary): {}", case);
        return false;
    }
    let spec = match Spec::from_json(&case["spec"]) {
        Some(s) => s,
        None => {
            println!("bad spec in replay file");
            return false;
        }
    };
    let mut ld = Loader::new("replay");
    crate::hv::panics::eval_log_args(case["trace_logging"].as_bool().unwrap_or(false));
    let prop = case["prop"].as_str().unwrap_or("C11").to_string();
    match ld.load(&spec) {
        Ok(cpu) => {
            println!("loaded: ER0={:08x} ER1={:08x} ER2={:08x} ER5={:08x} ER7={:08x} exit={:08x}", cpu.er[0], cpu.er[1], cpu.er[2], cpu.er[5], cpu.er[7], cpu.exit_addr);
            let v = if prop == "C11" { judge_c11(&spec, cpu) } else { judge_c12(&spec, cpu) };
            match v {
                Some(m) => {
                    println!("FAILS: {}", m);
                    false
                }
                None => true,
            }
        }
        Err(m) => {
            println!("FAILS: {}", m);
            false
        }
    }
}

// ------------------------------------------------------------------------------------------------
// E6 (supplementary): the repository's own binary, end to end (main.rs argument handling, loader,
// run loop, MES write call wired together).  A guest that prints its own argv is loaded and run by
// the real executable; its console stream must be exactly what the argument string implies.
// ------------------------------------------------------------------------------------------------

use crate::hv::isa::{Fields, Isa};

/// Guest: for every argv[i] (until the null pointer) write the string, then "|", through the MES write
/// call; then jump to ___exit.  Returns (code, offset of ___exit).
pub fn argv_guest(isa: &Isa) -> (Vec<u8>, u32) {
    let enc = |name: &str, f: Fields| isa.encode(isa.row(name), &f);
    let f = Fields::default;
    // layout inside the image: code at 0, scratch block at 0x100 (12 bytes), the "|" byte at 0x110
    let scr = BASE + 0x100;
    let bar = BASE + 0x110;
    let mut c: Vec<u8> = Vec::new();
    c.extend(enc("MOV.L ERs,ERd", Fields { rs: 1, rd: 6, ..f() })); // ER6 = argv
    let next = c.len();
    c.extend(enc("MOV.L @ERs+,ERd", Fields { ra: 6, rd: 2, ..f() })); // ER2 = *argv++
    let beq_pos = c.len();
    c.extend(enc("Bcc d:8", Fields { cc: 7, data: 0, ..f() })); // BEQ done (patched)
    c.extend(enc("MOV.L ERs,ERd", Fields { rs: 2, rd: 3, ..f() }));
    let len_top = c.len();
    c.extend(enc("MOV.B @ERs+,Rd", Fields { ra: 3, rd: 12, ..f() })); // R4L = *p++
    let here = c.len() + 2;
    c.extend(enc("Bcc d:8", Fields { cc: 6, data: (len_top as i32 - here as i32) as u32 & 0xff, ..f() })); // BNE
    c.extend(enc("SUB.L ERs,ERd", Fields { rs: 2, rd: 3, ..f() }));
    c.extend(enc("SUBS #1,ERd", Fields { rd: 3, ..f() })); // ER3 = strlen
    let emit_write = |c: &mut Vec<u8>, buf_reg: Option<u8>, buf_imm: u32, len_reg: Option<u8>, len_imm: u32| {
        c.extend(enc("MOV.L #xx:32,ERd", Fields { rd: 1, data: scr, ..f() }));
        c.extend(enc("MOV.L #xx:32,ERd", Fields { rd: 0, data: 1, ..f() }));
        c.extend(enc("MOV.L ERs,@ERd", Fields { rs: 0, ra: 1, ..f() }));
        match buf_reg {
            Some(r) => c.extend(enc("MOV.L ERs,@(d:16,ERd)", Fields { rs: r, ra: 1, data: 4, ..f() })),
            None => {
                c.extend(enc("MOV.L #xx:32,ERd", Fields { rd: 0, data: buf_imm, ..f() }));
                c.extend(enc("MOV.L ERs,@(d:16,ERd)", Fields { rs: 0, ra: 1, data: 4, ..f() }));
            }
        }
        match len_reg {
            Some(r) => c.extend(enc("MOV.L ERs,@(d:16,ERd)", Fields { rs: r, ra: 1, data: 8, ..f() })),
            None => {
                c.extend(enc("MOV.L #xx:32,ERd", Fields { rd: 0, data: len_imm, ..f() }));
                c.extend(enc("MOV.L ERs,@(d:16,ERd)", Fields { rs: 0, ra: 1, data: 8, ..f() }));
            }
        }
        c.extend(enc("MOV.L #xx:32,ERd", Fields { rd: 0, data: 104, ..f() }));
        c.extend(enc("TRAPA #x:2", Fields { trap: 0, ..f() }));
    };
    emit_write(&mut c, Some(2), 0, Some(3), 0);
    emit_write(&mut c, None, bar, None, 1);
    let here = c.len() + 4;
    c.extend(enc("Bcc d:16", Fields { cc: 0, data: (next as i32 - here as i32) as u32 & 0xffff, ..f() })); // BRA next
    let done = c.len();
    c[beq_pos + 1] = (done as i32 - (beq_pos as i32 + 2)) as u8;
    c.extend(enc("MOV.L #xx:32,ERd", Fields { rd: 0, data: 7, ..f() }));
    let exit_off = c.len() as u32 + 4; // address right after the JMP
    c.extend(enc("JMP @aa:24", Fields { data: BASE + exit_off, ..f() }));
    c.extend([0x40, 0xfe]); // ___exit: (never executed)
    assert!(c.len() < 0x100);
    c.resize(0x111, 0);
    c[0x110] = b'|';
    (c, exit_off)
}

/// An ELF around given code bytes (single PT_LOAD), written with the independent writer.
pub fn elf_with_code(code: &[u8], exit_off: u32, stack_size: u32, extra_bss: u32) -> Vec<u8> {
    // reuse Spec::build by temporarily describing one segment and then overwriting its contents in the file
    let mut s = default_spec();
    s.segs = vec![Seg { vaddr: 0, filesz: code.len() as u32, memsz: code.len() as u32 + extra_bss }];
    s.file_order = vec![0];
    s.got = None;
    s.stack_size = stack_size;
    s.symbols = vec![("_start".into(), 0), ("___exit".into(), exit_off)];
    let mut f = s.build();
    // the segment's contents start at the first 16-aligned offset after the program header
    let off = ((52 + 32 + 15) & !15) as usize;
    f[off..off + code.len()].copy_from_slice(code);
    f
}

pub fn repo_binary() -> Option<String> {
    std::env::var("VERIF_REPO_BIN").ok().filter(|p| std::path::Path::new(p).exists())
}

fn real_binary_unit() -> Unit {
    Unit::new(
        "real-binary/argv",
        8,
        "the repository's own release binary (main.rs argument handling + loader + run loop + MES write call) runs a guest that prints its argv: 60 argument strings (every separator pattern, leading dash, 32 words, quotes and backslashes, 200-byte word) x stack sizes {0x400, 3}; the console/message stream must be exactly what the argument string implies and the process must exit normally",
        move |ctx, chunk| {
            let bin = match repo_binary() {
                Some(b) => b,
                None => {
                    ctx.machinery("VERIF_REPO_BIN not set / repository binary not built".into());
                    return;
                }
            };
            let (code, exit_off) = argv_guest(&ctx.isa);
            let mut args: Vec<String> = vec![
                "".into(), " ".into(), "a".into(), "a b".into(), "  a   b  ".into(), "a\tb".into(), "\ta \t b\t".into(), "-x".into(), "-x -y --long=1".into(), "ab=c".into(),
                "\"quoted\" 'single'".into(), "back\\slash".into(), "a|b".into(), "é".into(), "日本 語".into(), "z".repeat(200), format!("{} end", "y".repeat(120)),
                (0..32).map(|i| format!("w{}", i)).collect::<Vec<_>>().join(" "),
                "--".into(), "- -".into(), "-e x".into(), "--elf=zzz".into(), "-a".into(), "-m".into(), "-s".into(),
            ];
            for c in 0x21u8..=0x7e {
                if args.len() < 60 {
                    args.push(format!("{}{} {}", c as char, c as char, (c as char).to_string().repeat(3)));
                }
            }
            let dir = crate::hv::shard::verif_dir().join(".work");
            let path = dir.join(format!("e6-{}-{}.elf", std::process::id(), chunk));
            let (lo, hi) = chunk_range(args.len() as u64, 8, chunk);
            for k in lo as usize..hi as usize {
                for ss in [0x400u32, 3] {
                    let a = &args[k];
                    let file = elf_with_code(&code, exit_off, ss, 0x20);
                    if std::fs::write(&path, &file).is_err() {
                        ctx.machinery("cannot write scratch ELF".into());
                        return;
                    }
                    let out = std::process::Command::new("timeout")
                        .args(["20", &bin, "-e", path.to_str().unwrap_or(""), &format!("--args={}", a), "-m", "--log", "off"])
                        .env("RUST_BACKTRACE", "0")
                        .output();
                    ctx.st.cases += 1;
                    ctx.st.nontrivial += 1;
                    let case = json!({"prop": "C12", "real_binary": true, "args": a, "stack_size": ss});
                    match out {
                        Ok(o) => {
                            let mut want: Vec<u8> = Vec::new();
                            let mut words: Vec<&str> = vec!["prog.elf"];
                            words.extend(a.split(|c: char| c == ' ' || c == '\t').filter(|w| !w.is_empty()));
                            for w in words {
                                for piece in [w, "|"] {
                                    want.extend(piece.as_bytes());
                                    want.extend(format!("msg: stdout:{}\n", piece).as_bytes());
                                }
                            }
                            if !o.status.success() {
                                ctx.custom_violation("elf", format!("the emulator binary exited with {:?} for arguments {:?}: {}", o.status.code(), a, String::from_utf8_lossy(&o.stderr).chars().take(300).collect::<String>()), case, json!(null), json!(null));
                            } else if o.stdout != want {
                                ctx.custom_violation(
                                    "elf",
                                    format!("guest saw different arguments through the real binary: console stream {:?}, expected {:?}", String::from_utf8_lossy(&o.stdout).chars().take(200).collect::<String>(), String::from_utf8_lossy(&want).chars().take(200).collect::<String>()),
                                    case,
                                    json!(null),
                                    json!(null),
                                );
                            }
                        }
                        Err(e) => ctx.machinery(format!("cannot run the binary: {}", e)),
                    }
                    if ctx.stop {
                        break;
                    }
                }
            }
            let _ = std::fs::remove_file(&path);
            ctx.sample(json!({"real_binary": true, "args": "  a   b  ", "expected_stream": "prog.elf|a|b| (each piece followed by its msg: stdout: line)"}));
        },
    )
}
