//! C02 (arithmetic) and C03 (logic / shift / rotate): register and immediate forms.
use super::regform::units_for_row;
use crate::hv::shard::{no_extra, Prop, Tier};

const C02_ROWS: &[&str] = &[
    "ADD.B #xx:8,Rd", "ADD.B Rs,Rd", "ADD.W #xx:16,Rd", "ADD.W Rs,Rd", "ADD.L #xx:32,ERd", "ADD.L ERs,ERd",
    "ADDX #xx:8,Rd", "ADDX Rs,Rd", "ADDS #1,ERd", "ADDS #2,ERd", "ADDS #4,ERd",
    "INC.B Rd", "INC.W #1,Rd", "INC.W #2,Rd", "INC.L #1,ERd", "INC.L #2,ERd",
    "SUB.B Rs,Rd", "SUB.W #xx:16,Rd", "SUB.W Rs,Rd", "SUB.L #xx:32,ERd", "SUB.L ERs,ERd",
    "SUBS #1,ERd", "SUBS #2,ERd", "SUBS #4,ERd",
    "DEC.B Rd", "DEC.W #1,Rd", "DEC.W #2,Rd", "DEC.L #1,ERd", "DEC.L #2,ERd",
    "CMP.B #xx:8,Rd", "CMP.B Rs,Rd", "CMP.W #xx:16,Rd", "CMP.W Rs,Rd", "CMP.L #xx:32,ERd", "CMP.L ERs,ERd",
    "NEG.B Rd", "NEG.W Rd", "NEG.L ERd",
    "MULXU.B Rs,Rd", "MULXU.W Rs,ERd", "DIVXU.B Rs,Rd", "DIVXU.W Rs,ERd",
];

const C03_ROWS: &[&str] = &[
    "OR.B #xx:8,Rd", "OR.B Rs,Rd", "OR.W #xx:16,Rd", "OR.W Rs,Rd", "OR.L #xx:32,ERd", "OR.L ERs,ERd",
    "XOR.B #xx:8,Rd", "XOR.B Rs,Rd", "XOR.W #xx:16,Rd", "XOR.W Rs,Rd", "XOR.L #xx:32,ERd", "XOR.L ERs,ERd",
    "AND.B #xx:8,Rd", "AND.B Rs,Rd", "AND.W #xx:16,Rd", "AND.W Rs,Rd", "AND.L #xx:32,ERd", "AND.L ERs,ERd",
    "NOT.B Rd", "NOT.W Rd", "NOT.L ERd", "EXTU.W Rd", "EXTU.L ERd",
    "SHLL.B Rd", "SHLL.W Rd", "SHLL.L ERd", "SHAL.B Rd", "SHAL.W Rd", "SHAL.L ERd",
    "SHLR.B Rd", "SHLR.W Rd", "SHLR.L ERd", "SHAR.B Rd", "SHAR.W Rd", "SHAR.L ERd",
    "ROTXL.B Rd", "ROTXL.W Rd", "ROTXL.L ERd", "ROTL.B Rd", "ROTL.W Rd", "ROTL.L ERd",
    "ROTXR.B Rd", "ROTXR.W Rd", "ROTXR.L ERd", "ROTR.B Rd", "ROTR.W Rd", "ROTR.L ERd",
];

const RULE: &str = "cases are the full product of the declared finite sets per unit (each case distinct by construction); a case is non-trivial when the reference outcome changes architectural state beyond PC or is an error outcome";

fn assumptions() -> Vec<String> {
    vec![
        "reference semantics written from the H8/300H programming manual as quoted in the property statement (no access to the manual offline)".into(),
        "32-bit operands and register-number sweeps use declared covering sets (listed per unit), enumerated completely".into(),
        "DIVXU with zero divisor / overflowing quotient is left open, as the quantifier says".into(),
    ]
}

pub fn c02(tier: Tier, seed: u64) -> Prop {
    let mut units = Vec::new();
    for r in C02_ROWS {
        units.extend(units_for_row(r, tier, seed));
    }
    Prop { id: "C02", level: "exploration", rule: RULE.into(), assumptions: assumptions(), units, extra: no_extra(), profiles: vec!["release"] }
}

pub fn c03(tier: Tier, seed: u64) -> Prop {
    let mut units = Vec::new();
    for r in C03_ROWS {
        units.extend(units_for_row(r, tier, seed));
    }
    Prop { id: "C03", level: "exploration", rule: RULE.into(), assumptions: assumptions(), units, extra: no_extra(), profiles: vec!["release"] }
}
