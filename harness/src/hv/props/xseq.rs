//! Cross-form histories with forced collisions (C01-C08).
//!
//! The single-step units of C01-C08 enumerate one form at a time.  What they cannot see is state that
//! the implementation carries from one operation into a *different* later one (a memoised effective
//! address, a latched operand, a remembered stack frame, a flag set by one instruction and consumed by
//! another).  This module closes that gap by explicit enumeration of operation sequences:
//!
//!   alphabet  = one or more instances of *every* row of the encoding table (implemented and
//!               valid-but-unimplemented) plus environment events (an interrupt request, an instruction
//!               boundary, a byte written by the host through `Bus::write`),
//!   collision = all instances use the *same* registers, the *same* register values, the same raw
//!               displacement bits (d:16 H'8010 and d:24 H'008010), the same low address byte in every
//!               addressing mode, and small operand values whose zero-extensions coincide across B/W/L,
//!   bound     = every sequence of <= 3 (thorough: also 4 over a core alphabet) symbols whose last symbol
//!               belongs to the property under check,
//!   oracle    = the ISA reference in lock step after *every* symbol (registers, CCR, PC, every byte
//!               written through `Bus::write`, the pending-request FIFO).
//!
//! The program counter flows naturally: the next instruction is loaded at the address the previous one
//! left in PC (if that is inside the code arena), so "the instruction directly following" is honoured.

use crate::hv::dom;
use crate::hv::e1::{Act, Case, Ctx, Next, StepObs};
use crate::hv::isa::{Alu1, Alu2, Fields, Isa, Mode, Sem, Sz, ROWS};
use crate::hv::sem;
use crate::hv::shard::{Tier, Unit};

#[derive(Clone, Debug)]
pub enum What {
    Code(Vec<u8>),
    /// code executed at a fixed address outside the straight-line program (refused steps at the end of a region)
    CodeAt(Vec<u8>, u32),
    Req(u8),
    Bound,
    Host(u32, u8),
}

#[derive(Clone, Debug)]
pub struct Sym {
    pub name: String,
    pub what: What,
    /// properties for which this symbol may stand in last position
    pub owners: Vec<&'static str>,
    /// member of the small "core" alphabet (depth-4 sequences, thorough tier)
    pub core: bool,
}

#[derive(Clone, Debug)]
pub struct Layout {
    pub name: &'static str,
    pub er: [u32; 8],
    pub ccr: u8,
    pub aa8: u32,
    pub aa16: u32,
    pub aa24: u32,
    pub d16: u32,
    pub d24: u32,
    pub imm: u32,
    pub jmp24: u32,
    pub mind: u32,
    pub patches: Vec<(u32, Vec<u8>)>,
    pub p0: u32,
    pub arena: (u32, u32),
    pub host: Vec<(u32, u8)>,
}

pub fn layouts() -> Vec<Layout> {
    let vec_l = |v: u32, target: u32| (4 * v, target.to_be_bytes().to_vec());
    // ---- L1: code and stack in on-chip RAM, data operands in DRAM; d:16 / d:24 share their raw bits
    let a1 = dom::CODE_RAM;
    let sp1 = dom::STACK_RAM;
    let l1 = Layout {
        name: "L1",
        er: [0x0000_0080, 0x0000_0080, 0x0041_0010, 0x0000_0007, a1 + 0x400, 0x5a00_0000 | (a1 + 0x700), 0x9abc_de33, sp1],
        ccr: 0x00,
        aa8: 0x10,
        aa16: 0xd010,
        aa24: 0x41_0010,
        d16: 0x8010,
        d24: 0x00_8010,
        imm: 0x80,
        jmp24: a1 + 0x500,
        mind: 0x10,
        patches: vec![
            (0x41_0010, vec![0xa5, 0x96, 0x87, 0x78]),
            (0xff_ff10, vec![0x5a, 0x69, 0x78, 0x87]),
            (0x40_8020, vec![0xc3, 0x3d, 0x4e, 0x5f]),
            (0x41_8020, vec![0x3c, 0xc2, 0xb1, 0xa0]),
            (0xff_d010, vec![0x69, 0x17, 0x28, 0x39]),
            (sp1, (0x2a00_0000u32 | (a1 + 0x800)).to_be_bytes().to_vec()),
            (sp1 + 4, (0x8100_0000u32 | (a1 + 0x880)).to_be_bytes().to_vec()),
            (0x10, (a1 + 0x600).to_be_bytes().to_vec()),
            vec_l(9, a1 + 0x900),
            vec_l(10, a1 + 0x980),
            vec_l(36, a1 + 0xa00),
            vec_l(37, a1 + 0xa80),
        ],
        p0: a1 + 0x100,
        arena: (a1, a1 + 0x1000),
        host: vec![(0x41_0010, 0x33), (0xff_ff10, 0xcc), (sp1 + 3, 0x40)],
    };
    // ---- L2: code and stack in DRAM; every data operand of every addressing mode is the same byte H'FFFF10
    let a2 = dom::CODE_DRAM;
    let sp2 = dom::STACK_DRAM | 0xb200_0000;
    let spa = dom::STACK_DRAM;
    let l2 = Layout {
        name: "L2",
        er: [0x0000_00ff, 0x0000_0001, 0x77ff_ff10, 0x0000_000f, 0x3300_0000 | (a2 + 0x400), 0xa500_0000 | (a2 + 0x700), 0x1357_9bdf, sp2],
        ccr: 0xa5,
        aa8: 0x10,
        aa16: 0xff10,
        aa24: 0xff_ff10,
        d16: 0x0000,
        d24: 0x00_0000,
        imm: 0x01,
        jmp24: a2 + 0x500,
        mind: 0x10,
        patches: vec![
            (0xff_ff10, vec![0x81, 0x7e, 0x42, 0xbd]),
            (spa, (0x0500_0000u32 | (a2 + 0x800)).to_be_bytes().to_vec()),
            (spa + 4, (0x8000_0000u32 | (a2 + 0x880)).to_be_bytes().to_vec()),
            (0x10, (0xee00_0000u32 | (a2 + 0x600)).to_be_bytes().to_vec()),
            vec_l(9, 0x1200_0000 | (a2 + 0x900)),
            vec_l(10, a2 + 0x980),
            vec_l(36, a2 + 0xa00),
            vec_l(37, a2 + 0xa80),
        ],
        p0: a2 + 0x100,
        arena: (a2, a2 + 0x1000),
        host: vec![(0xff_ff10, 0x18), (spa + 3, 0x40), (spa, 0x00)],
    };
    // ---- L3: operands at the last bytes of DRAM and of on-chip RAM (accesses that run off the end of a region),
    //      all-ones / one register values (carries through every width), every flag set
    let l3 = Layout {
        name: "L3",
        er: [0xffff_ffff, 0x0000_0001, 0x005f_fff0, 0xffff_ffff, a1 + 0x400, 0xff00_0000 | (a1 + 0x700), 0x8000_7fff, sp1 | 0x5a00_0000],
        ccr: 0x2f,
        aa8: 0x1e,
        aa16: 0xff1e,
        aa24: 0x5f_fff0,
        d16: 0x000e,
        d24: 0x00_000e,
        imm: 0xffff_ffff,
        jmp24: a1 + 0x500,
        mind: 0xfc,
        patches: vec![
            (0x5f_fff0, vec![0x80, 0x00, 0x7f, 0xff, 0x01, 0x02, 0x03, 0x04, 0x05, 0x06, 0x07, 0x08, 0x09, 0x0a, 0xfe, 0xdc]),
            (0xff_ff1e, vec![0x12, 0x34, 0x56, 0x78]),
            (sp1, (0xff00_0000u32 | (a1 + 0x800)).to_be_bytes().to_vec()),
            (sp1 + 4, (0x0000_0000u32 | (a1 + 0x880)).to_be_bytes().to_vec()),
            (0xfc, (a1 + 0x600).to_be_bytes().to_vec()),
            vec_l(9, a1 + 0x900),
            vec_l(10, a1 + 0x980),
            vec_l(36, a1 + 0xa00),
            vec_l(37, a1 + 0xa80),
        ],
        p0: a1 + 0x100,
        arena: (a1, a1 + 0x1000),
        host: vec![(0x5f_fffe, 0x00), (0xff_ff1f, 0xff), (sp1, 0x7f)],
    };
    vec![l1, l2, l3]
}

pub fn owners_of(sem: Sem) -> Vec<&'static str> {
    let mut o: Vec<&'static str> = Vec::new();
    let mem_mode = |m: Mode| !matches!(m, Mode::Reg | Mode::Imm);
    match sem {
        Sem::Mov { mode, .. } => {
            o.push("C01");
            if mem_mode(mode) {
                o.push("C08");
            }
        }
        Sem::Alu2 { op, .. } => o.push(match op {
            Alu2::And | Alu2::Or | Alu2::Xor => "C03",
            _ => "C02",
        }),
        Sem::Alu1 { op, .. } => o.push(match op {
            Alu1::Neg | Alu1::Inc1 | Alu1::Inc2 | Alu1::Dec1 | Alu1::Dec2 => "C02",
            _ => "C03",
        }),
        Sem::Adds(_) | Sem::Subs(_) | Sem::Mulxu(_) | Sem::Divxu(_) => o.push("C02"),
        Sem::Bit { loc, .. } => {
            o.push("C04");
            if mem_mode(loc) {
                o.push("C08");
            }
        }
        Sem::Bcc { .. } | Sem::Bsr { .. } | Sem::Rts => o.push("C05"),
        Sem::Jmp(m) | Sem::Jsr(m) => {
            o.push("C05");
            if m != Mode::A24 {
                o.push("C08");
            }
        }
        Sem::Rte | Sem::Trapa => o.push("C06"),
        Sem::StcB => o.push("C07"),
        Sem::StcW(_) => {
            o.push("C07");
            o.push("C08");
        }
        Sem::Unimpl => o.push("C07"),
    }
    if sem != Sem::Unimpl {
        // the charge of every implemented form is C20's business
        o.push("C20");
    }
    o
}

fn x_nibbles(row: usize) -> usize {
    ROWS[row].pat.matches('x').count()
}

/// The collision-forcing field assignment of one row in one layout; `variant` selects extra instances.
fn fields_for(row: usize, l: &Layout, variant: u32) -> Fields {
    let sem = ROWS[row].sem;
    let szf = |sz: Sz| -> (u8, u8) {
        match sz {
            Sz::B => (8, 9), // R0L, R1L
            Sz::W => (0, 1), // R0, R1
            Sz::L => (0, 1), // ER0, ER1
        }
    };
    let mut f = Fields { rs: 8, rd: 9, ra: 2, bitn: 7, rn: 0xb, cc: 0, trap: 1, data: 0 };
    let by_mode = |m: Mode, sz: Sz| -> u32 {
        match m {
            Mode::Imm => match sz {
                Sz::B => l.imm & 0xff,
                _ => l.imm,
            },
            Mode::D16 => l.d16,
            Mode::D24 => l.d24,
            Mode::A8 => l.aa8,
            Mode::A16 => l.aa16,
            Mode::A24 => l.aa24,
            Mode::Mind => l.mind,
            _ => 0,
        }
    };
    match sem {
        Sem::Mov { sz, mode, .. } => {
            let (s, d) = szf(sz);
            f.rs = s;
            f.rd = d;
            f.data = by_mode(mode, sz);
        }
        Sem::Alu2 { sz, imm, .. } => {
            let (s, d) = szf(sz);
            f.rs = s;
            f.rd = d;
            if imm {
                f.data = by_mode(Mode::Imm, sz);
            }
        }
        Sem::Alu1 { sz, .. } => {
            let (s, d) = szf(sz);
            f.rs = s;
            f.rd = d;
        }
        Sem::Adds(_) | Sem::Subs(_) => {
            f.rd = 1;
        }
        Sem::Mulxu(sz) | Sem::Divxu(sz) => {
            // MULXU.B Rs,Rd (Rd word) / MULXU.W Rs,ERd
            f.rs = if sz == Sz::B { 8 } else { 0 };
            f.rd = 1;
        }
        Sem::Bit { loc, .. } => {
            f.rd = 9;
            f.data = by_mode(loc, Sz::B);
        }
        Sem::Bcc { .. } => {
            f.cc = [0u8, 1, 4, 5, 6, 7, 2, 0xd][variant as usize % 8];
            f.data = 0x10;
        }
        Sem::Bsr { .. } => f.data = 0x10,
        Sem::Jmp(m) | Sem::Jsr(m) => {
            f.ra = 4;
            f.data = match m {
                Mode::A24 => l.jmp24,
                Mode::Mind => l.mind,
                _ => 0,
            };
        }
        Sem::Rts | Sem::Rte => {}
        Sem::Trapa => f.trap = 1 + (variant as u8 % 2),
        Sem::StcB => f.rd = 9,
        Sem::StcW(m) => f.data = by_mode(m, Sz::W),
        Sem::Unimpl => {
            f.data = match x_nibbles(row) {
                2 => l.aa8,
                4 => l.aa16,
                6 => l.aa24,
                _ => 0,
            };
        }
    }
    f
}

pub fn alphabet(isa: &Isa, l: &Layout) -> Vec<Sym> {
    let mut out: Vec<Sym> = Vec::new();
    let core_names = [
        "MOV.B Rs,Rd", "MOV.B @ERs,Rd", "MOV.B Rs,@ERd", "MOV.W @(d:16,ERs),Rd", "MOV.W Rs,@(d:24,ERd)", "MOV.B Rs,@aa:8", "MOV.L @aa:24,ERd", "MOV.L ERs,ERd",
        "ADD.B Rs,Rd", "ADD.W Rs,Rd", "SUB.B Rs,Rd", "CMP.B #xx:8,Rd", "CMP.W Rs,Rd", "ADDX Rs,Rd", "INC.B Rd", "AND.B #xx:8,Rd", "SHLL.W Rd", "ROTXL.B Rd", "NOT.L ERd",
        "BSET #xx:3,@ERd", "BTST #xx:3,@ERd", "BLD #xx:3,@ERd", "BAND #xx:3,@aa:8", "BST #xx:3,@aa:8", "BNOT Rn,Rd",
        "BSR d:8", "JSR @ERn", "RTS", "RTE", "TRAPA #x:2", "JMP @ERn", "STC.W CCR,@-ERd", "NOP", "SLEEP",
    ];
    for (row, r) in ROWS.iter().enumerate() {
        let variants: u32 = match r.sem {
            Sem::Bcc { .. } => 8,
            Sem::Trapa => 2,
            _ => 1,
        };
        for v in 0..variants {
            let f = fields_for(row, l, v);
            let code = isa.encode(row, &f);
            let name = if variants > 1 { format!("{} [{}]", r.name, v) } else { r.name.to_string() };
            out.push(Sym { name, what: What::Code(code), owners: owners_of(r.sem), core: v == 0 && core_names.contains(&r.name) });
        }
    }
    // ---- extra instances that work on the stack frame / move SP (same rows, other registers)
    let extra = |out: &mut Vec<Sym>, rname: &str, f: Fields, tag: &str, core: bool| {
        let row = isa.row(rname);
        out.push(Sym { name: format!("{} {}", rname, tag), what: What::Code(isa.encode(row, &f)), owners: owners_of(ROWS[row].sem), core });
    };
    let base = Fields { rs: 5, rd: 6, ra: 7, bitn: 7, rn: 0xb, cc: 0, trap: 1, data: 0 };
    extra(&mut out, "MOV.L ERs,@ERd", base, "(ER5 -> @SP: frame rewrite)", true);
    extra(&mut out, "MOV.L ERs,@-ERd", base, "(PUSH.L ER5)", true);
    extra(&mut out, "MOV.L @ERs+,ERd", base, "(POP.L ER6)", true);
    extra(&mut out, "MOV.W Rs,@-ERd", base, "(PUSH.W R5)", false);
    extra(&mut out, "MOV.W @ERs+,Rd", base, "(POP.W R6)", false);
    extra(&mut out, "MOV.B Rs,@ERd", Fields { rs: 0xe, ..base }, "(R6L -> @SP: CCR byte of the frame)", false);
    extra(&mut out, "ADDS #4,ERd", Fields { rd: 7, ..base }, "(SP)", true);
    extra(&mut out, "SUBS #4,ERd", Fields { rd: 7, ..base }, "(SP)", true);
    extra(&mut out, "MOV.L ERs,ERd", Fields { rs: 1, rd: 0, ..base }, "(ER1 -> ER0)", false);
    extra(&mut out, "MOV.B Rs,@ERd", Fields { rs: 0xe, ra: 2, ..base }, "(R6L -> @ER2: operand rewrite)", true);
    extra(&mut out, "JMP @ERn", Fields { ra: 1, ..base }, "(ER1: a small target address)", false);
    extra(&mut out, "JSR @ERn", Fields { ra: 1, ..base }, "(ER1: a small target address)", false);
    extra(&mut out, "INC.L #1,ERd", Fields { rd: 2, ..base }, "(ER2)", false);
    extra(&mut out, "DEC.L #1,ERd", Fields { rd: 2, ..base }, "(ER2)", false);
    // ---- guest stores into the bus-controller registers (the settings change in the middle of a sequence)
    for (rname, ra) in [("ABWCR", 0xfee020u32), ("ASTCR", 0xfee021), ("WCRH", 0xfee022), ("WCRL", 0xfee023), ("DRCRA", 0xfee026)] {
        extra(&mut out, "MOV.B Rs,@aa:24", Fields { rs: 8, data: ra, ..base }, &format!("(R0L -> {})", rname), rname == "DRCRA" || rname == "ASTCR");
        extra(&mut out, "MOV.B Rs,@aa:24", Fields { rs: 0xe, data: ra, ..base }, &format!("(R6L -> {})", rname), rname == "WCRL");
    }
    // ---- steps that are refused (the sequence goes on behind them: a refused step must leave nothing behind that
    //      changes what the following instructions do)
    out.push(Sym { name: "prefix word 7800 in the last word of DRAM (refused)".into(), what: What::CodeAt(vec![0x78, 0x00], 0x5ffffe), owners: vec![], core: true });
    out.push(Sym { name: "prefix word 0100 in the last word of the vector area (refused)".into(), what: What::CodeAt(vec![0x01, 0x00], 0x0000fe), owners: vec![], core: false });
    out.push(Sym { name: "prefix word 0140 in the last word of DRAM (refused)".into(), what: What::CodeAt(vec![0x01, 0x40], 0x5ffffe), owners: vec![], core: false });
    out.push(Sym { name: "prefix word 7d00 in the last word of DRAM (refused)".into(), what: What::CodeAt(vec![0x7d, 0x00], 0x5ffffe), owners: vec![], core: false });
    out.push(Sym { name: "MOV.L #xx:32,ER0 in the last four bytes of DRAM (refused)".into(), what: What::CodeAt(vec![0x7a, 0x00, 0x12, 0x34], 0x5ffffc), owners: vec![], core: false });
    out.push(Sym { name: "MOV.B @H'200000,R0L (unmapped operand, refused)".into(), what: What::Code(vec![0x6a, 0x28, 0x00, 0x20, 0x00, 0x00]), owners: vec![], core: false });
    out.push(Sym { name: "MOV.W R0,@H'200000 (unmapped operand, refused)".into(), what: What::Code(vec![0x6b, 0xa0, 0x00, 0x20, 0x00, 0x00]), owners: vec![], core: false });
    // ---- environment events
    out.push(Sym { name: "request 36".into(), what: What::Req(36), owners: vec![], core: true });
    out.push(Sym { name: "request 37".into(), what: What::Req(37), owners: vec![], core: false });
    out.push(Sym { name: "boundary".into(), what: What::Bound, owners: vec!["C06"], core: true });
    for (k, &(a, v)) in l.host.iter().enumerate() {
        out.push(Sym { name: format!("host write {:06x}={:02x}", a, v), what: What::Host(a, v), owners: vec![], core: k == 0 });
    }
    out
}

pub fn init_case_pub(l: &Layout) -> Case {
    init_case(l)
}

fn init_case(l: &Layout) -> Case {
    let mut init = Case::new(l.p0, &[]);
    init.code_len = 0;
    init.image = l.patches.clone();
    init.er = l.er;
    init.ccr = l.ccr;
    init
}

/// Run one sequence of symbols in lock step.  Code is loaded at the natural PC when that lies inside
/// the arena, else at a per-position fallback address.
pub fn run_symbols(ctx: &mut Ctx, l: &Layout, init: &Case, seq: &[&Sym]) {
    let to_act = |s: &Sym, pc_now: Option<u32>, pos: usize| -> Act {
        match &s.what {
            What::Code(c) => {
                let at = match pc_now {
                    Some(p) if p % 2 == 0 && p >= l.arena.0 && p + 16 <= l.arena.1 => None,
                    Some(_) => Some(l.arena.0 + 0xc00 + 0x40 * pos as u32),
                    None => Some(l.p0),
                };
                Act::exec(c, at)
            }
            What::CodeAt(c, a) => Act::exec(c, Some(*a)),
            What::Req(v) => Act::Req(*v),
            What::Bound => Act::Bound,
            What::Host(a, v) => Act::Host(*a, *v),
        }
    };
    let n = seq.len();
    let first = to_act(seq[0], None, 0);
    // The whole program is in memory before the first step, laid out for straight-line flow (what a
    // compiler emits): an implementation that looks ahead in the instruction stream sees real successors.
    // Where control flow departs from the straight line the instruction is loaded at the new PC instead.
    let mut init2 = init.clone();
    let mut prog: Vec<u8> = Vec::new();
    for s in seq.iter() {
        if let What::Code(c) = &s.what {
            prog.extend_from_slice(c);
        }
    }
    prog.extend_from_slice(&[0xf0, 0x00, 0xf0, 0x00, 0xf0, 0x00, 0xf0, 0x00]);
    init2.image.push((l.p0, prog));
    let init = &init2;
    // a first action that is not code still needs a defined PC: init.pc = p0
    let mut k = 0usize;
    ctx.continue_after_err = true;
    ctx.run_seq(init, first, n, &mut |o: &StepObs| {
        k += 1;
        if k < n {
            Next::Continue(to_act(seq[k], Some(o.post_pc), k))
        } else {
            Next::Stop
        }
    });
    ctx.continue_after_err = false;
}

/// Stores into the instruction stream: a store of every kind (byte / word / long MOV forms, bit instructions, a
/// push, a host write between two instructions) whose target is any byte of the three instructions that follow
/// it, code in on-chip RAM and in DRAM at both alignments modulo 4.  The instructions executed afterwards are the
/// ones memory holds at the time they are fetched (the reference decodes from the real memory before every step).
pub fn code_rewrite_unit() -> Unit {
    Unit::new(
        "code-rewrite",
        4,
        "a store (MOV.B through @ERd, @-ERd, @(d:16,ERd), @(d:24,ERd), @aa:16, @aa:24; MOV.W / MOV.L through @ERd; BSET / BCLR / BNOT / BST through @ERd; PUSH.L; a host write between two instructions) x target = each of the 12 bytes of the three instructions behind it (MOV.B #xx:8, MOV.W #xx:16, MOV.L #xx:32, MOV.B #xx:8 in two orders) x 3 stored values x code in on-chip RAM and DRAM x both alignments modulo 4: every following step is the instruction memory holds when it is fetched",
        move |ctx, chunk| {
            let isa = Isa::new();
            let enc = |n: &str, f: Fields| isa.encode(isa.row(n), &f);
            let base = if chunk / 2 == 0 { dom::CODE_RAM + 0x100 } else { dom::CODE_DRAM + 0x100 } + 2 * (chunk as u32 % 2);
            let vb1 = enc("MOV.B #xx:8,Rd", Fields { rd: 13, data: 0x77, ..Default::default() });
            let vb2 = enc("MOV.B #xx:8,Rd", Fields { rd: 14, data: 0x88, ..Default::default() });
            let vw = enc("MOV.W #xx:16,Rd", Fields { rd: 4, data: 0x5566, ..Default::default() });
            let vl = enc("MOV.L #xx:32,ERd", Fields { rd: 3, data: 0x1122_3344, ..Default::default() });
            let filler = vec![0xf0u8, 0x00, 0xf0, 0x00, 0xf0, 0x00, 0xf0, 0x00];
            // two orders: a store into the second byte of the first victim leaves a valid instruction in the first
            // order (it is the immediate of MOV.B), a store into the later bytes hits the long immediates
            let victim_orders: [Vec<u8>; 2] = [[vb1.clone(), vw.clone(), vl.clone(), vb2.clone(), filler.clone()].concat(), [vl, vw, vb1, vb2, filler].concat()];
            // (name, size of the store, how the target address is passed)
            #[derive(Clone, Copy, PartialEq)]
            enum Via {
                Reg,
                PreDec,
                D16,
                D24,
                A16,
                A24,
                Push,
                Host,
            }
            let writers: [(&str, u32, Via); 15] = [
                ("MOV.B Rs,@ERd", 1, Via::Reg),
                ("MOV.B Rs,@-ERd", 1, Via::PreDec),
                ("MOV.B Rs,@(d:16,ERd)", 1, Via::D16),
                ("MOV.B Rs,@(d:24,ERd)", 1, Via::D24),
                ("MOV.B Rs,@aa:16", 1, Via::A16),
                ("MOV.B Rs,@aa:24", 1, Via::A24),
                ("MOV.W Rs,@ERd", 2, Via::Reg),
                ("MOV.W Rs,@aa:24", 2, Via::A24),
                ("MOV.L ERs,@ERd", 4, Via::Reg),
                ("BSET #xx:3,@ERd", 1, Via::Reg),
                ("BCLR #xx:3,@ERd", 1, Via::Reg),
                ("BNOT #xx:3,@ERd", 1, Via::Reg),
                ("BST #xx:3,@ERd", 1, Via::Reg),
                ("MOV.L ERs,@-ERd", 4, Via::Push),
                ("MOV.B #xx:8,Rd", 1, Via::Host),
            ];
            for &(name, size, via) in writers.iter() {
              for victims in victim_orders.iter() {
                for value in [0x0bu32, 0x79, 0xf5] {
                    for k in 0..12u32 {
                        // the writer's own length is needed to know where the victims start: encode once with a dummy target
                        let probe = enc(name, Fields { rs: 8, ra: 1, rd: 14, bitn: 3, data: 0x10, ..Default::default() });
                        let v0 = base + probe.len() as u32;
                        let target = v0 + k;
                        if size > 1 && target % 2 != 0 {
                            continue;
                        }
                        let mut er = [0x0000_0080u32, 0, 0x0041_0010, 0, 0, 0, 0, dom::STACK_RAM];
                        er[0] = value * 0x0101_0101;
                        let mut f = Fields { rs: if size == 4 { 0 } else if size == 2 { 0 } else { 8 }, ra: 1, rd: 14, bitn: 3, data: 0, ..Default::default() };
                        match via {
                            Via::Reg => er[1] = 0x5a00_0000 | target,
                            Via::PreDec => er[1] = target + 1,
                            Via::D16 => {
                                er[1] = target - 0x10;
                                f.data = 0x10;
                            }
                            Via::D24 => {
                                er[1] = target.wrapping_add(0x10) & 0xffffff;
                                f.data = 0xfffff0;
                            }
                            Via::A16 => {
                                if target < 0xff8000 {
                                    continue;
                                }
                                f.data = target & 0xffff;
                            }
                            Via::A24 => f.data = target,
                            Via::Push => {
                                f.ra = 7;
                                er[7] = target + 4;
                            }
                            Via::Host => f.data = 0x21,
                        }
                        let writer = enc(name, f);
                        if writer.len() != probe.len() {
                            continue;
                        }
                        let mut prog = writer.clone();
                        prog.extend_from_slice(victims);
                        let mut init = Case::new(base, &[]);
                        init.code_len = 0;
                        init.er = er;
                        init.ccr = 0x01;
                        init.image.push((base, prog));
                        let host = via == Via::Host;
                        let total = if host { 6 } else { 5 };
                        let mut n = 0usize;
                        ctx.run_seq(&init, Act::Step, total, &mut |_o: &StepObs| {
                            n += 1;
                            if n >= total {
                                Next::Stop
                            } else if host && n == 1 {
                                Next::Continue(Act::Host(target, value as u8))
                            } else {
                                Next::Continue(Act::Step)
                            }
                        });
                        if ctx.stop {
                            return;
                        }
                    }
                }
              }
            }
        },
    )
}

pub fn units(prop: &'static str, tier: Tier) -> Vec<Unit> {
    let isa = Isa::new();
    let ls = layouts();
    let mut units = Vec::new();
    for (li, l) in ls.iter().enumerate() {
        let sigma = alphabet(&isa, l);
        let victims: Vec<usize> = sigma.iter().enumerate().filter(|(_, s)| s.owners.contains(&prop)).map(|(i, _)| i).collect();
        if victims.is_empty() {
            continue;
        }
        let ns = sigma.len() as u64;
        let nv = victims.len() as u64;
        // ---- depth <= 2 (all layouts), depth 3 (L1 and L2 in quick, all in thorough)
        let depth3 = li < 2 || tier == Tier::Thorough;
        // C20 owns every implemented form: its middle symbols come from the core alphabet
        let mid_core_only = prop == "C20";
        let nmid = if mid_core_only { sigma.iter().filter(|s| s.core).count() as u64 } else { ns };
        let total = nv + ns * nv + if depth3 { ns * nmid * nv } else { 0 };
        let dom = format!(
            "layout {}: every sequence of <= {} symbols{} over the {}-symbol collision alphabet (every row of the encoding table with shared registers / values / displacement bits / low address byte, stack and SP instances, interrupt request, boundary, host writes) whose last symbol is one of this property's {} forms = {} sequences, each stepped in lock step with the reference",
            l.name,
            if depth3 { 3 } else { 2 },
            if mid_core_only { " (middle symbol of a triple from the core alphabet)" } else { "" },
            ns,
            nv,
            total
        );
        let l2 = l.clone();
        let sigma2 = sigma.clone();
        let victims2 = victims.clone();
        units.push(Unit::new(&format!("xseq/{}", l.name), ns, &dom, move |ctx, chunk| {
            ctx.track_queue = true;
            ctx.cycles_only = prop == "C20";
            ctx.closed_form_cost = prop == "C20";
            let init = init_case(&l2);
            let a = &sigma2[chunk as usize];
            if chunk == 0 {
                for &b in victims2.iter() {
                    run_symbols(ctx, &l2, &init, &[&sigma2[b]]);
                }
            }
            for &b in victims2.iter() {
                run_symbols(ctx, &l2, &init, &[a, &sigma2[b]]);
            }
            if depth3 {
                for x in sigma2.iter() {
                    if mid_core_only && !x.core {
                        continue;
                    }
                    for &b in victims2.iter() {
                        run_symbols(ctx, &l2, &init, &[a, x, &sigma2[b]]);
                    }
                }
            }
            ctx.track_queue = false;
            ctx.cycles_only = false;
            ctx.closed_form_cost = false;
        }));
        // ---- depth 4 over the core alphabet (thorough)
        if tier == Tier::Thorough {
            let core: Vec<usize> = sigma.iter().enumerate().filter(|(_, s)| s.core).map(|(i, _)| i).collect();
            let nc = core.len() as u64;
            let dom = format!("layout {}: every sequence (a, b, c, victim) with a, b, c from the {}-symbol core alphabet and the victim one of this property's {} forms = {} sequences", l.name, nc, nv, nc * nc * nc * nv);
            let l3 = l.clone();
            let sigma3 = sigma.clone();
            let victims3 = victims.clone();
            units.push(Unit::new(&format!("xseq4/{}", l.name), nc * nc, &dom, move |ctx, chunk| {
                ctx.track_queue = true;
                ctx.cycles_only = prop == "C20";
                ctx.closed_form_cost = prop == "C20";
                let init = init_case(&l3);
                let a = &sigma3[core[(chunk / nc) as usize]];
                let b = &sigma3[core[(chunk % nc) as usize]];
                for &c in core.iter() {
                    for &v in victims3.iter() {
                        run_symbols(ctx, &l3, &init, &[a, b, &sigma3[c], &sigma3[v]]);
                    }
                }
                ctx.track_queue = false;
                ctx.cycles_only = false;
                ctx.closed_form_cost = false;
            }));
        }
    }
    // ---- log level independence: the same sequences with trace logging switched on and every log argument evaluated
    //      (under the real binary `--log trace` evaluates them; an instruction must not behave differently then)
    {
        let l = ls[0].clone();
        let sigma = alphabet(&isa, &l);
        let victims: Vec<usize> = sigma.iter().enumerate().filter(|(_, s)| s.owners.contains(&prop)).map(|(i, _)| i).collect();
        if !victims.is_empty() {
            let ns = sigma.len() as u64;
            let dom = format!("layout L1 with trace logging on and every log argument evaluated by a formatting logger: every sequence of <= 2 symbols ending in one of this property's {} forms ({} sequences)", victims.len(), (ns + 1) * victims.len() as u64);
            units.push(Unit::new("xseq/trace-logging", 16, &dom, move |ctx, chunk| {
                crate::hv::panics::eval_log_args(true);
                ctx.track_queue = true;
                ctx.cycles_only = prop == "C20";
                let init = init_case(&l);
                if chunk == 0 {
                    for &b in victims.iter() {
                        run_symbols(ctx, &l, &init, &[&sigma[b]]);
                    }
                }
                for (ai, a) in sigma.iter().enumerate() {
                    if ai as u64 % 16 != chunk {
                        continue;
                    }
                    for &b in victims.iter() {
                        run_symbols(ctx, &l, &init, &[a, &sigma[b]]);
                    }
                }
                ctx.track_queue = false;
                ctx.cycles_only = false;
                crate::hv::panics::eval_log_args(false);
            }));
        }
    }
    // ---- placements: every instance at every even address around the ends of the regions code can run from
    //      (an instruction whose words straddle on-chip RAM and the register field behind it is fetchable;
    //      one that runs off the end of DRAM, the vector area or the register field is refused)
    {
        let l = ls[0].clone();
        let sigma = alphabet(&isa, &l);
        let victims: Vec<Sym> = sigma.into_iter().filter(|s| s.owners.contains(&prop) && matches!(s.what, What::Code(_))).collect();
        if !victims.is_empty() {
            let edges: [u32; 6] = [0x000100, 0x400000, 0x600000, 0xffbf20, 0xffff20, 0xffffea];
            let dom = format!("{} instances of this property's forms executed at every even address from 12 bytes below to 2 bytes above each of {} region ends/starts (vector area, DRAM, on-chip RAM, internal register field): every placement whose words all lie inside the map must have exactly the reference effect (placements with a word outside the map are C07's subject)", victims.len(), edges.len());
            units.push(Unit::new("xseq/placements", edges.len() as u64, &dom, move |ctx, chunk| {
                ctx.cycles_only = prop == "C20";
                ctx.closed_form_cost = prop == "C20";
                let e = edges[chunk as usize];
                let init = init_case(&l);
                for s in victims.iter() {
                    if let What::Code(c) = &s.what {
                        for pc in (e - 12..=e + 2).step_by(2) {
                            // refused placements (a word outside the map) are C07's subject: what a refused step leaves behind is open
                            if !(0..c.len() as u32).all(|k| sem::mapped(pc + k)) {
                                continue;
                            }
                            // the charge of a fetch from the internal register field is outside C19/C20 (I/O ranges excluded)
                            if prop == "C20" && (0..c.len() as u32).any(|k| pc + k >= 0xffff20) {
                                continue;
                            }
                            ctx.run_seq(&init, Act::exec(c, Some(pc)), 1, &mut |_o: &StepObs| Next::Stop);
                        }
                    }
                }
                ctx.cycles_only = false;
                ctx.closed_form_cost = false;
            }));
        }
    }
    if matches!(prop, "C01" | "C04" | "C07") {
        units.push(code_rewrite_unit());
    }
    // ---- odd PC: the instruction executed is the one at PC & !1 (or the step is rejected)
    if matches!(prop, "C01" | "C02" | "C03" | "C04" | "C07") {
        let l = ls[0].clone();
        let sigma = alphabet(&isa, &l);
        // C07 ("exactly the instruction it encodes, exactly its encoded length consumed") also owns the extension words:
        // every multi-word instance of the register / memory / ALU / bit forms, whose later words must be taken from
        // behind the word at PC & !1 (C07-M10: a 32-bit immediate read at the raw odd PC)
        let multiword = |s: &Sym| matches!(&s.what, What::Code(c) if c.len() > 2) && ["C01", "C02", "C03", "C04"].iter().any(|p| s.owners.contains(p));
        let victims: Vec<Sym> = sigma.into_iter().filter(|s| matches!(s.what, What::Code(_)) && (s.owners.contains(&prop) || (prop == "C07" && multiword(s)))).collect();
        let nv = victims.len();
        let dom = format!("{} instances of this property's forms (C07: and of every multi-word MOV / arithmetic / logic / bit form) executed with bit 0 of PC set (PC = code address + 1): either the step is rejected or it is the instruction at PC & !1 with exactly its reference effect (bit 0 of the new PC not compared)", nv);
        units.push(Unit::new("xseq/odd-pc", 1, &dom, move |ctx, _| {
            ctx.odd_pc = true;
            for s in victims.iter() {
                if let What::Code(c) = &s.what {
                    let mut init = init_case(&l);
                    init.pc = l.p0 | 1;
                    init.image.push((l.p0, c.clone()));
                    // benign filler behind the instruction
                    init.image.push((l.p0 + c.len() as u32, vec![0xf0, 0x00, 0xf0, 0x00, 0xf0, 0x00]));
                    ctx.run_seq(&init, Act::Step, 1, &mut |_o: &StepObs| Next::Stop);
                }
            }
            ctx.odd_pc = false;
        }));
    }
    units
}
