//! C07 — every opcode is executed as exactly the instruction it encodes, or rejected.
use crate::hv::dom;
use crate::hv::e1::{Case, Ctx};
use serde_json::json;
use crate::hv::shard::{chunk_range, no_extra, Prop, Tier, Unit};

fn regfile(k: usize) -> [u32; 8] {
    let mut er = [0u32; 8];
    for n in 0..8u32 {
        er[n as usize] = match k {
            0 => dom::DATA_RAM + 0x100 * n + 0x40,
            _ => (dom::DATA_DRAM + 0x1000 * (n + 1) + 0x20) | ((0x10 * n + 5) << 24),
        };
    }
    // ER0 is also the MES call number for TRAPA #0: keep it an unsupported id so that the gate rejects
    er
}

const CONTS: [[u16; 5]; 10] = [
    [0xf000, 0xf000, 0xf000, 0xf000, 0xf000],
    [0x0000, 0x0000, 0x0000, 0x0000, 0x0000],
    [0xffff, 0xffff, 0xffff, 0xffff, 0xffff],
    [0x6910, 0x0000, 0x0000, 0x0000, 0x0000],
    [0x6b20, 0x00ff, 0xd000, 0x0000, 0x0000],
    [0x6a20, 0x00ff, 0xd002, 0x0000, 0x0000],
    [0x7300, 0x0000, 0x0000, 0x0000, 0x0000],
    [0x7000, 0x0000, 0x0000, 0x0000, 0x0000],
    [0x6720, 0x0000, 0x0000, 0x0000, 0x0000],
    [0x6ba0, 0x00ff, 0xd004, 0x0000, 0x0000],
];

const TAILS: [[u16; 4]; 3] = [[0x0000, 0x0000, 0x0000, 0x0000], [0x00ff, 0xd010, 0x0000, 0x0000], [0x6b20, 0x00ff, 0xd020, 0x0000]];

fn run_words(ctx: &mut Ctx, words: &[u16], ccrs: &[u8]) {
    let mut code = [0u8; 12];
    for (k, w) in words.iter().take(6).enumerate() {
        code[2 * k] = (w >> 8) as u8;
        code[2 * k + 1] = *w as u8;
    }
    for rf in 0..2 {
        let mut c = Case::new(dom::CODE_RAM, &code);
        c.code = code;
        c.er = regfile(rf);
        for &ccr in ccrs {
            c.ccr = ccr;
            ctx.run(&c);
        }
    }
}

fn prefix_unit(prefix: Vec<u16>, chunks: u64, tails: usize) -> Unit {
    let name = format!("prefix-{}", prefix.iter().map(|w| format!("{:04x}", w)).collect::<Vec<_>>().join("-"));
    let dom = format!("prefix {:04x?} followed by all 65536 next words x {} tail patterns x 2 register files", prefix, tails);
    Unit::new(&name, chunks, &dom, move |ctx, chunk| {
        let (lo, hi) = chunk_range(65536, chunks, chunk);
        for w in lo as u32..hi as u32 {
            for t in 0..tails {
                let mut words: Vec<u16> = prefix.clone();
                words.push(w as u16);
                for x in TAILS[t].iter() {
                    words.push(*x);
                }
                run_words(ctx, &words, &[0x00]);
            }
        }
    })
}

pub fn c07(tier: Tier, _seed: u64) -> Prop {
    let thorough = tier == Tier::Thorough;
    let mut units = Vec::new();
    units.push(Unit::new("first-words", 64, "all 65536 first instruction words x 10 continuation patterns x 2 register files x CCR {00,ff}", move |ctx, chunk| {
        let (lo, hi) = chunk_range(65536, 64, chunk);
        for w in lo as u32..hi as u32 {
            for cont in CONTS.iter() {
                let mut words = vec![w as u16];
                words.extend_from_slice(cont);
                run_words(ctx, &words, &[0x00, 0xff]);
            }
        }
    }));
    // ---- all second words per multi-word prefix
    let mut prefixes: Vec<Vec<u16>> = Vec::new();
    for p in [0x0100u16, 0x0140, 0x01f0, 0x01c0, 0x01d0, 0x0180, 0x0110, 0x01e0] {
        prefixes.push(vec![p]);
    }
    let rr_all: Vec<u16> = (0..256).collect();
    let rr_quick: Vec<u16> = vec![0x10, 0x70, 0x00, 0x18, 0x11, 0x80, 0xff, 0x08];
    for hi in [0x78u16, 0x7c, 0x7d, 0x7e, 0x7f] {
        for &rr in (if thorough { &rr_all } else { &rr_quick }).iter() {
            prefixes.push(vec![(hi << 8) | rr]);
        }
    }
    for p in [0x6a00u16, 0x6a20, 0x6a80, 0x6aa0, 0x6a40, 0x6ac0, 0x6a10, 0x6b00, 0x6b20, 0x6b80, 0x6ba0, 0x6b40, 0x6e12, 0x6e92, 0x6f12, 0x6f92] {
        prefixes.push(vec![p]);
    }
    for p in [0x5800u16, 0x5810, 0x5850, 0x58f0, 0x5801, 0x5c00, 0x5c10, 0x5a41, 0x5e41, 0x5aff, 0x7900, 0x7910, 0x7920, 0x7930, 0x7940, 0x7950, 0x7960, 0x7970, 0x7a00, 0x7a10, 0x7a20, 0x7a30, 0x7a60, 0x7a08, 0x7b5c, 0x7bd4] {
        prefixes.push(vec![p]);
    }
    for p in prefixes {
        units.push(prefix_unit(p, 8, 2));
    }
    // ---- 78 / 7C-7F with EVERY register/address byte x every second word in the bit-instruction and MOV pages
    units.push(Unit::new(
        "prefix-7x-allrr",
        256,
        "first words 78rr, 7Crr, 7Drr, 7Err, 7Frr for all 256 rr x every second word whose high byte is in 60-67, 70-77 (bit instructions) or 6A/6B (MOV d:24) = 5 x 256 x 4608 word pairs x 2 tails x 2 register files",
        move |ctx, chunk| {
            let rr = chunk as u16;
            for hi in [0x78u16, 0x7c, 0x7d, 0x7e, 0x7f] {
                for page in [0x60u16, 0x61, 0x62, 0x63, 0x64, 0x65, 0x66, 0x67, 0x70, 0x71, 0x72, 0x73, 0x74, 0x75, 0x76, 0x77, 0x6a, 0x6b] {
                    for lo in 0..256u16 {
                        for t in 0..2 {
                            let mut words: Vec<u16> = vec![(hi << 8) | rr, (page << 8) | lo];
                            for x in TAILS[t].iter() {
                                words.push(*x);
                            }
                            run_words(ctx, &words, &[0x00]);
                        }
                    }
                }
            }
        },
    ));
    // ---- third words
    let mut p3: Vec<Vec<u16>> = vec![
        vec![0x0100, 0x7810], vec![0x0100, 0x7890], vec![0x0100, 0x7800], vec![0x0140, 0x7810], vec![0x0140, 0x7890],
        vec![0x0100, 0x6b20], vec![0x0100, 0x6ba0], vec![0x0100, 0x6b00], vec![0x0100, 0x6b80], vec![0x0100, 0x6f12], vec![0x0100, 0x6f92],
        vec![0x0140, 0x6b20], vec![0x0140, 0x6ba0], vec![0x0140, 0x6b80], vec![0x0140, 0x6b00], vec![0x0140, 0x6f10], vec![0x0140, 0x6f90],
        vec![0x7810, 0x6a20], vec![0x7810, 0x6aa0], vec![0x7810, 0x6b20], vec![0x7810, 0x6ba0], vec![0x7810, 0x6a28], vec![0x7810, 0x6b2f],
        vec![0x6a20, 0x00ff], vec![0x6aa0, 0x00ff], vec![0x6b20, 0x00ff], vec![0x6ba0, 0x0040], vec![0x7a00, 0x1234], vec![0x7a10, 0xffff],
        vec![0x7c10, 0x7300], vec![0x7d10, 0x7000], vec![0x7e08, 0x7300], vec![0x7f08, 0x7000],
        vec![0x7b5c, 0x598f], vec![0x7bd4, 0x598f],
    ];
    // ---- fourth / fifth words
    p3.extend(vec![
        vec![0x0100, 0x7810, 0x6b20], vec![0x0100, 0x7890, 0x6ba0], vec![0x0140, 0x7810, 0x6ba0], vec![0x0140, 0x7810, 0x6b20],
        vec![0x0100, 0x6b20, 0x00ff], vec![0x0100, 0x6ba0, 0x0040], vec![0x0140, 0x6ba0, 0x00ff], vec![0x7810, 0x6a20, 0x00ff], vec![0x7810, 0x6ba0, 0x0040],
        vec![0x0100, 0x7810, 0x6b20, 0x0000], vec![0x0100, 0x7890, 0x6ba0, 0x00ff], vec![0x0140, 0x7810, 0x6ba0, 0x0000],
    ]);
    for p in p3 {
        units.push(prefix_unit(p, 8, 1));
    }
    // ---- instruction sequences: every ordered pair over one benign representative per implemented row,
    //      executed back to back in lock step (state carried from the first instruction into the second)
    {
        use crate::hv::e1::{Act, Next, StepObs};
        use crate::hv::isa::{Fields, Sem, ROWS};
        let reps: Vec<usize> = ROWS
            .iter()
            .enumerate()
            .filter(|(_, r)| r.imp && !matches!(r.sem, Sem::Bcc { .. } | Sem::Jmp(_) | Sem::Jsr(_) | Sem::Bsr { .. } | Sem::Rts | Sem::Rte | Sem::Trapa))
            .map(|(i, _)| i)
            .collect();
        let n = reps.len() as u64;
        let reps2 = reps.clone();
        let dom = format!("all {} x {} ordered pairs of benign representatives of every implemented non-control-flow form, x 2 register files, executed back to back in lock step with the reference (the second instruction sees the state the first one left)", n, n);
        units.push(Unit::new("pairs", n, &dom, move |ctx, chunk| {
            let enc = |ctx: &Ctx, row: usize, k: u32| -> Vec<u8> {
                // benign fields: address register ER1/ER3 (point into RAM), data registers 2/4, small displacements
                let f = Fields { rs: 2 + 8 * (k as u8 & 1), rd: 4, ra: 1 + 2 * (k as u8 & 1), bitn: 3, rn: 10, cc: 0, trap: 1, data: match ROWS[row].pat.matches('x').count() { 2 => 0x10, 4 => 0x0020, 6 => 0x000040, _ => 0x0000_0123 } };
                let mut f = f;
                // absolute forms: keep the address inside on-chip RAM / the @aa:8 page
                if ROWS[row].name.contains("@aa:8") {
                    f.data = 0x08;
                } else if ROWS[row].name.contains("@aa:16") {
                    f.data = 0xd040;
                } else if ROWS[row].name.contains("@aa:24") {
                    f.data = 0xffd060;
                }
                ctx.isa.encode(row, &f)
            };
            let a = reps2[chunk as usize];
            for (bi, &b) in reps2.iter().enumerate() {
                for rf in 0..2 {
                    let mut code = enc(ctx, a, 0);
                    code.extend(enc(ctx, b, 1));
                    let end = dom::CODE_RAM + 0x200 + code.len() as u32;
                    let mut init = Case::new(dom::CODE_RAM + 0x200, &[]);
                    init.code_len = 0;
                    init.image = vec![(init.pc, code)];
                    init.er = regfile(rf);
                    init.er[1] = dom::DATA_RAM + 0x100 | if rf == 1 { 0x4400_0000 } else { 0 };
                    init.er[3] = dom::DATA_RAM + 0x180;
                    init.er[7] = dom::STACK_RAM;
                    init.ccr = (bi as u8).wrapping_mul(29);
                    ctx.run_seq(&init, Act::Step, 2, &mut |o: &StepObs| if o.post_pc == end { Next::Stop } else { Next::Continue(Act::Step) });
                }
            }
        }));
    }
    // ---- the instruction is the one that was fetched: call / trap forms whose own stack frame lands on their code bytes
    //      (units shared with C05 / C06)
    for u in super::flow::c05(tier, _seed).units.into_iter().filter(|u| u.name == "calls/frame-over-code") {
        units.push(u);
    }
    for u in super::exc::c06(tier, _seed).units.into_iter().filter(|u| u.name == "TRAPA/frame-over-code") {
        units.push(u);
    }
    // ---- rejection seen through the real run loop: the unimplemented instruction is the last one before the
    //      exit address, so PC already equals the exit address when it fails
    units.push(Unit::new(
        "reject-through-run",
        16,
        "every first word that encodes a valid-but-unimplemented instruction (benign continuation words) and one instance of every unimplemented row of the encoding table, placed as the last instruction in front of the exit address of a small program and executed by the real Cpu::run(): run() must return that instruction's error, never success",
        move |ctx, chunk| {
            use crate::hv::props::runloop::{run_checked, Pair, Prog};
            let mut pair = Pair::new();
            let mut codes: Vec<Vec<u8>> = Vec::new();
            let (lo, hi) = crate::hv::shard::chunk_range(65536, 16, chunk);
            for w in lo as u32..hi as u32 {
                let mut bytes = [0u8; 12];
                bytes[0] = (w >> 8) as u8;
                bytes[1] = w as u8;
                for k in (2..12).step_by(2) {
                    bytes[k] = 0xf0;
                }
                if let crate::hv::isa::Decoded::ValidUnimpl { len, .. } = ctx.isa.decode(&bytes) {
                    codes.push(bytes[..len].to_vec());
                }
            }
            if chunk == 0 {
                for (row, r) in crate::hv::isa::ROWS.iter().enumerate() {
                    if !r.imp {
                        let f = crate::hv::isa::Fields { rs: 8, rd: 9, ra: 1, bitn: 3, rn: 10, cc: 0, trap: 1, data: 0x0041_0200 & ((1u64 << (4 * r.pat.matches('x').count() as u32)) - 1) as u32 };
                        codes.push(ctx.isa.encode(row, &f));
                    }
                }
            }
            for code in codes {
                // MOV.L #imm,ER1 ; <unimplemented> ; exit: BRA exit
                let mut c: Vec<u8> = vec![0x7a, 0x01, 0x00, 0x41, 0x02, 0x00];
                c.extend_from_slice(&code);
                let exit_addr = crate::hv::props::irq::CODE + c.len() as u32;
                c.extend_from_slice(&[0x40, 0xfe]);
                let p = Prog { code: c, exit_addr, vectors: vec![], desc: format!("unimplemented {:02x?} in front of the exit address", code) };
                let (o, v) = run_checked(&mut pair, &p, 100);
                ctx.st.cases += 1;
                ctx.st.nontrivial += 1;
                let case = json!({"reject_through_run": crate::hv::e1::hex(&code)});
                if ctx.panic_only {
                    // borrowed by C15: the only question is whether run() unwinds
                    if let Some(msg) = v.filter(|m| m.contains("panicked")) {
                        ctx.custom_violation("c07run", msg, case, json!(null), json!({"result": o.result}));
                    }
                } else if let Some(msg) = v {
                    ctx.custom_violation("c07run", msg, case, json!(null), json!({"result": o.result}));
                } else if o.result == "ok" {
                    ctx.custom_violation("c07run", format!("run() reported success although the last instruction {:02x?} is not implemented", code), case, json!(null), json!(null));
                }
                if ctx.stop {
                    return;
                }
            }
        },
    ));
    Prop {
        id: "C07",
        level: "exploration",
        rule: "every enumerated word sequence is decoded by an independent table (Appendix A of DESIGN.md): implemented => must execute, consume exactly the encoded length and produce the reference post-state; valid-but-unimplemented => must be rejected; undefined => left open (counted). Non-trivial = decoded as implemented-and-state-changing or as must-reject".into(),
        assumptions: vec![
            "the encoding table was written from the H8/300H manual's instruction-code tables; it is self-checked (no overlapping rows, decode(encode(x)) = x) and was cross-checked against every opcode literal in the repository's tests and printf.2.dump".into(),
            "undefined encodings are unconstrained: the evidence only counts how many the emulator executes".into(),
            "quick tier sweeps the second word for 8 register/address bytes per 78/7C-7F prefix class, thorough for all 256".into(),
        ],
        units,
        extra: no_extra(),
        profiles: vec!["release"],
    }
}

/// Replay of a `reject-through-run` counterexample.
pub fn replay_c07run(case: &serde_json::Value) -> bool {
    use crate::hv::props::runloop::{run_checked, Pair, Prog};
    let code = crate::hv::e1::unhex(case["reject_through_run"].as_str().unwrap_or("")).unwrap_or_default();
    let mut pair = Pair::new();
    let mut c: Vec<u8> = vec![0x7a, 0x01, 0x00, 0x41, 0x02, 0x00];
    c.extend_from_slice(&code);
    let exit_addr = crate::hv::props::irq::CODE + c.len() as u32;
    c.extend_from_slice(&[0x40, 0xfe]);
    let p = Prog { code: c, exit_addr, vectors: vec![], desc: String::new() };
    let (o, v) = run_checked(&mut pair, &p, 100);
    println!("run() returned: {}", o.result);
    match v {
        Some(m) => {
            println!("FAILS: {}", m);
            false
        }
        None => {
            if o.result == "ok" {
                println!("FAILS: run() reported success although the last instruction {:02x?} is not implemented", code);
                false
            } else {
                true
            }
        }
    }
}
