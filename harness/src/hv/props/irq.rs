//! C10 — interrupt delivery through the real `Cpu::run()` loop: every injection schedule up to a bound.
use crate::cpu::verif_hooks;
use crate::cpu::Cpu;
use crate::hv::e1::Ctx;
use crate::hv::isa::{Fields, Isa};
use crate::hv::shard::{chunk_range, Prop, Tier, Unit};
use serde_json::{json, Value};
use std::cell::RefCell;
use std::rc::Rc;

pub const CODE: u32 = 0x416900;
const LOG: u32 = 0x430000;
const CNT: u32 = 0x430100;
const DATA: u32 = 0x430200;
const STACK: u32 = 0x4f0000;
const VECTORS: [u8; 5] = [36, 37, 39, 1, 63];

pub fn poke(cpu: &mut Cpu, a: u32, b: &[u8]) {
    for (k, &x) in b.iter().enumerate() {
        let addr = a + k as u32;
        // through Bus::write (the path a host `u8:` line takes): an implementation that keeps fetched words and
        // invalidates them there stays coherent with programs loaded into a CPU that has run before
        match addr {
            0..=0xff | 0x400000..=0x5fffff | 0xffbf20..=0xffff1f => {
                let _ = cpu.bus.write(addr, x);
            }
            _ => panic!("poke outside plain storage: {:x}", addr),
        }
    }
}

pub fn peek(cpu: &Cpu, a: u32) -> u8 {
    match a {
        0..=0xff => cpu.bus.exception_handling_vector[a as usize],
        0x400000..=0x5fffff => cpu.bus.dram[(a - 0x400000) as usize],
        0xffbf20..=0xffff1f => cpu.bus.memory[(a - 0xffbf20) as usize],
        _ => 0,
    }
}

pub struct Guest {
    pub code: Vec<u8>,
    pub exit_addr: u32,
    pub handlers: Vec<(u8, u32)>, // (vector, address)
    pub name: String,
    /// the handlers of vectors 36 / 37 rewrite their own vector table entry (pairs H, H')
    pub rewriting: bool,
    pub trapping: bool,
}

/// upper byte of the stack pointer the guests start with (the second half of the all-vectors units sets it)
pub static SP_TOP: std::sync::atomic::AtomicU32 = std::sync::atomic::AtomicU32::new(0);

fn asm(isa: &Isa, name: &str, f: Fields) -> Vec<u8> {
    isa.encode(isa.row(name), &f)
}

/// main program kinds: 0 straight-line, 1 counted loop, 2 call in the middle; `long_handlers`: handlers run longer
pub fn build_guest(isa: &Isa, main_kind: usize, long_handlers: bool) -> Guest {
    let mut c: Vec<u8> = Vec::new();
    let f = |rd: u8, rs: u8, data: u32| Fields { rd, rs, data, ..Default::default() };
    // ---- main (uses ER0-ER3 only; ER4-ER6 belong to the handlers)
    c.extend(asm(isa, "MOV.L #xx:32,ERd", f(0, 0, 0x0001_0203)));
    c.extend(asm(isa, "MOV.L #xx:32,ERd", f(1, 0, 0x1020_3040)));
    let rewriting = (3..6).contains(&main_kind);
    // guest 6: the handler of vector 36 executes TRAPA #3 (a trap inside a handler, while other requests may be waiting)
    let trapping = main_kind == 6;
    match main_kind % 3 {
        0 => {
            c.extend(asm(isa, "ADD.L ERs,ERd", f(1, 0, 0)));
            c.extend(asm(isa, "INC.L #1,ERd", f(2, 0, 0)));
            c.extend(asm(isa, "XOR.W Rs,Rd", f(1, 0, 0)));
            c.extend(asm(isa, "ROTL.L ERd", f(1, 0, 0)));
            c.extend(asm(isa, "SUB.W Rs,Rd", f(2, 1, 0)));
            c.extend(asm(isa, "CMP.B Rs,Rd", f(9, 8, 0)));
            c.extend(asm(isa, "ADDX Rs,Rd", f(2, 9, 0)));
            c.extend(asm(isa, "NEG.W Rd", f(3, 0, 0)));
        }
        1 => {
            c.extend(asm(isa, "MOV.B #xx:8,Rd", f(11, 0, 4))); // R3L = 4
            let top = c.len();
            c.extend(asm(isa, "ADD.W Rs,Rd", f(1, 0, 0)));
            c.extend(asm(isa, "ROTXL.B Rd", f(2, 0, 0)));
            c.extend(asm(isa, "DEC.B Rd", f(11, 0, 0)));
            let here = c.len() + 2;
            c.extend(asm(isa, "Bcc d:8", Fields { cc: 6, data: (top as i32 - here as i32) as u32 & 0xff, ..Default::default() })); // BNE top
        }
        _ => {
            // BSR over a small function placed right after the call
            c.extend(asm(isa, "BSR d:8", Fields { data: 2, ..Default::default() })); // call f (skips the BRA)
            c.extend(asm(isa, "Bcc d:8", Fields { cc: 0, data: 6, ..Default::default() })); // BRA over f
            c.extend(asm(isa, "ADD.L ERs,ERd", f(1, 0, 0))); // f:
            c.extend(asm(isa, "SHLR.W Rd", f(1, 0, 0)));
            c.extend(asm(isa, "RTS", Fields::default()));
            c.extend(asm(isa, "INC.W #2,Rd", f(2, 0, 0)));
        }
    }
    c.extend(asm(isa, "MOV.L ERs,@aa:24", Fields { rs: 1, data: DATA, ..Default::default() }));
    c.extend(asm(isa, "MOV.L ERs,@aa:24", Fields { rs: 2, data: DATA + 4, ..Default::default() }));
    // tail: boundaries after the last injection point
    for _ in 0..6 {
        c.extend(asm(isa, "ADDS #1,ERd", f(3, 0, 0)));
    }
    let exit_addr = CODE + c.len() as u32;
    // the exit address itself holds a self-branch (never executed: run() returns when PC reaches it)
    c.extend(asm(isa, "Bcc d:8", Fields { cc: 0, data: 0xfe, ..Default::default() }));
    // ---- handlers
    let mut handlers = Vec::new();
    // rewriting guests: the handlers of vectors 36 and 37 come in pairs (H, H'); each stores the other's address into
    // the vector table before it returns, and H' also counts in a second counter
    let mut alt_handler_fixups: Vec<(usize, u8, bool)> = Vec::new(); // (offset of the imm32, vector, points to the alternate)
    let mut alt_addr = std::collections::BTreeMap::new();
    let mut emit_handler = |c: &mut Vec<u8>, v: u8, alternate: bool, fix: &mut Vec<(usize, u8, bool)>| {
        c.extend(asm(isa, "MOV.B #xx:8,Rd", f(12, 0, v as u32))); // R4L = v
        c.extend(asm(isa, "MOV.B Rs,@ERd", Fields { rs: 12, ra: 6, ..Default::default() }));
        c.extend(asm(isa, "ADDS #1,ERd", f(6, 0, 0)));
        if trapping && v == 36 {
            c.extend(asm(isa, "TRAPA #x:2", Fields { trap: 3, ..Default::default() }));
        }
        if long_handlers {
            for _ in 0..5 {
                c.extend(asm(isa, "ADDS #1,ERd", f(5, 0, 0)));
            }
        }
        c.extend(asm(isa, "MOV.B @aa:24,Rd", Fields { rd: 12, data: CNT + v as u32, ..Default::default() }));
        c.extend(asm(isa, "INC.B Rd", f(12, 0, 0)));
        c.extend(asm(isa, "MOV.B Rs,@aa:24", Fields { rs: 12, data: CNT + v as u32, ..Default::default() }));
        if alternate {
            c.extend(asm(isa, "MOV.B @aa:24,Rd", Fields { rd: 12, data: CNT + 0x40 + v as u32, ..Default::default() }));
            c.extend(asm(isa, "INC.B Rd", f(12, 0, 0)));
            c.extend(asm(isa, "MOV.B Rs,@aa:24", Fields { rs: 12, data: CNT + 0x40 + v as u32, ..Default::default() }));
        }
        if rewriting && (v == 36 || v == 37) {
            // vector table entry v := the other handler of the pair (an ordinary store into the writable vector area)
            let at = c.len() + 2;
            c.extend(asm(isa, "MOV.L #xx:32,ERd", f(4, 0, 0)));
            fix.push((at, v, !alternate));
            c.extend(asm(isa, "MOV.L ERs,@aa:24", Fields { rs: 4, data: 4 * v as u32, ..Default::default() }));
        }
        c.extend(asm(isa, "MOV.B #xx:8,Rd", f(12, 0, 0x80 | v as u32)));
        c.extend(asm(isa, "MOV.B Rs,@ERd", Fields { rs: 12, ra: 6, ..Default::default() }));
        c.extend(asm(isa, "ADDS #1,ERd", f(6, 0, 0)));
        c.extend(asm(isa, "RTE", Fields::default()));
    };
    for v in 1..=63u8 {
        handlers.push((v, CODE + c.len() as u32));
        if trapping && v == 11 {
            // the trap's own handler: counts in a counter of its own and returns (it is never requested as an interrupt)
            c.extend(asm(isa, "MOV.B @aa:24,Rd", Fields { rd: 12, data: CNT + 0x70, ..Default::default() }));
            c.extend(asm(isa, "INC.B Rd", f(12, 0, 0)));
            c.extend(asm(isa, "MOV.B Rs,@aa:24", Fields { rs: 12, data: CNT + 0x70, ..Default::default() }));
            c.extend(asm(isa, "RTE", Fields::default()));
            continue;
        }
        emit_handler(&mut c, v, false, &mut alt_handler_fixups);
        if rewriting && (v == 36 || v == 37) {
            alt_addr.insert(v, CODE + c.len() as u32);
            emit_handler(&mut c, v, true, &mut alt_handler_fixups);
        }
    }
    for (at, v, to_alt) in alt_handler_fixups {
        let target = if to_alt { alt_addr[&v] } else { handlers.iter().find(|h| h.0 == v).unwrap().1 };
        c[at..at + 4].copy_from_slice(&target.to_be_bytes());
    }
    Guest { code: c, exit_addr, handlers, name: format!("main{}-{}", main_kind, if long_handlers { "long" } else { "short" }), rewriting, trapping }
}

pub fn load_guest(cpu: &mut Cpu, g: &Guest) {
    poke(cpu, CODE, &g.code);
    for &(v, a) in g.handlers.iter() {
        poke(cpu, v as u32 * 4, &a.to_be_bytes());
    }
}

fn reset_run_state(cpu: &mut Cpu, g: &Guest) {
    for a in (LOG..LOG + 0x80).chain(CNT..CNT + 0x80).chain(DATA..DATA + 0x20).chain(STACK - 0x80..STACK) {
        let _ = cpu.bus.write(a, 0);
    }
    cpu.er = [0; 8];
    cpu.er[2] = CODE;
    cpu.er[6] = LOG;
    cpu.er[7] = STACK | SP_TOP.load(std::sync::atomic::Ordering::Relaxed);
    cpu.exit_addr = g.exit_addr;
    // the vector table as loaded (a rewriting guest has changed it)
    for &(v, a) in g.handlers.iter() {
        poke(cpu, v as u32 * 4, &a.to_be_bytes());
    }
    cpu.vh_set_ccr(0);
    cpu.vh_set_state_sum(0);
    cpu.vh_clear_pending_interrupts();
}

#[derive(Clone, Debug, Default)]
pub struct RunObs {
    pub result: String,
    pub iterations: usize,
    pub er: [u32; 8],
    pub ccr: u8,
    pub pc: u32,
    pub data: Vec<u8>,
    pub log: Vec<u8>,
    pub counters: Vec<u8>,
    pub pending_at_end: Vec<u8>,
    /// per loop iteration: (pc, ccr, pending before this iteration's injection)
    pub samples: Vec<(u32, u8, Vec<u8>)>,
    /// injections actually performed (an injection scheduled after the run has ended never happens)
    pub performed: Vec<(usize, u8)>,
}

/// Run the guest through the real `run()` with `schedule` = sorted (iteration, vector) injections.
pub fn run_with_schedule(cpu: &mut Cpu, g: &Guest, schedule: &[(usize, u8)], horizon: usize) -> RunObs {
    reset_run_state(cpu, g);
    let obs = Rc::new(RefCell::new(RunObs::default()));
    let o2 = obs.clone();
    let sched: Vec<(usize, u8)> = schedule.to_vec();
    let mut it = 0usize;
    verif_hooks::set_run_loop_hook(Some(Box::new(move |cpu: &mut Cpu| {
        let mut o = o2.borrow_mut();
        o.samples.push((cpu.vh_pc(), cpu.vh_ccr(), cpu.vh_pending_interrupts()));
        for &(i, v) in sched.iter() {
            if i == it {
                cpu.vh_request_interrupt(v);
                o.performed.push((i, v));
            }
        }
        it += 1;
        o.iterations = it;
        it > horizon
    })));
    let r = cpu.run();
    verif_hooks::set_run_loop_hook(None);
    let mut o = obs.borrow().clone();
    o.result = match r {
        Ok(()) => "ok".into(),
        Err(e) => format!("err: {:#}", e).chars().take(160).collect(),
    };
    o.er = cpu.er;
    o.ccr = cpu.vh_ccr();
    o.pc = cpu.vh_pc();
    o.data = (DATA..DATA + 0x20).map(|a| peek(cpu, a)).collect();
    o.log = (LOG..LOG + 0x80).map(|a| peek(cpu, a)).take_while(|&b| b != 0).collect();
    o.counters = (CNT..CNT + 0x80).map(|a| peek(cpu, a)).collect();
    o.pending_at_end = cpu.vh_pending_interrupts();
    o
}

/// The oracles (a)-(d) of DESIGN.md §6 C10; returns a violation text or None.
pub fn judge(g: &Guest, schedule_req: &[(usize, u8)], o: &RunObs, base: &RunObs) -> Option<String> {
    let _ = schedule_req;
    let schedule: &[(usize, u8)] = &o.performed;
    if o.result != "ok" {
        return Some(format!("run() did not finish normally: {}", o.result));
    }
    // (a) no acceptance while I is set: detect acceptances from the per-iteration samples
    //     (the pending list shrinks by one between this iteration's injection and the next sample)
    let mut outstanding: Vec<u8> = Vec::new();
    for i in 0..o.samples.len() {
        let (pc, ccr, ref pend_before) = o.samples[i];
        let mut pend_after = pend_before.clone();
        for &(it, v) in schedule {
            if it == i {
                pend_after.push(v);
                outstanding.push(v);
            }
        }
        let next_before: Vec<u8> = if i + 1 < o.samples.len() { o.samples[i + 1].2.clone() } else { o.pending_at_end.clone() };
        if next_before.len() + 1 == pend_after.len() {
            // one request was accepted at this boundary
            if ccr & 0x80 != 0 {
                return Some(format!("a request was accepted at loop iteration {} (PC {:06x}) although CCR.I was set (CCR {:02x}); pending before {:?}, after {:?}", i, pc, ccr, pend_after, next_before));
            }
        } else if next_before.len() + 1 < pend_after.len() {
            return Some(format!("more than one request left the pending queue at iteration {}: {:?} -> {:?}", i, pend_after, next_before));
        } else if next_before.len() > pend_after.len() {
            return Some(format!("requests appeared from nowhere at iteration {}: {:?} -> {:?}", i, pend_after, next_before));
        }
    }
    // (b) every `enter v` in the guest's own log matches one injected request of that very vector; handlers do not nest
    let mut injected: Vec<u8> = schedule.iter().map(|x| x.1).collect();
    let mut open: Option<u8> = None;
    for &b in o.log.iter() {
        if b & 0x80 == 0 {
            if let Some(v) = open {
                return Some(format!("handler {} was entered while handler {} had not returned (log {:02x?})", b, v, o.log));
            }
            match injected.iter().position(|&x| x == b) {
                Some(p) => {
                    injected.remove(p);
                }
                None => return Some(format!("handler {} entered without a matching outstanding request (log {:02x?}, schedule {:?})", b, o.log, schedule)),
            }
            open = Some(b);
        } else {
            if open != Some(b & 0x7f) {
                return Some(format!("exit record {:02x} does not match the open handler {:?} (log {:02x?})", b, open, o.log));
            }
            open = None;
        }
    }
    // (c) nothing lost or duplicated
    if !injected.is_empty() || !o.pending_at_end.is_empty() {
        return Some(format!("requests never delivered: {:?} (still pending at the end: {:?}; log {:02x?})", injected, o.pending_at_end, o.log));
    }
    for v in 1..=63u8 {
        let want = schedule.iter().filter(|x| x.1 == v).count() as u8;
        if o.counters[v as usize] != want {
            return Some(format!("vector {} handler ran {} times, {} requests were injected", v, o.counters[v as usize], want));
        }
        if g.rewriting && (v == 36 || v == 37) && o.counters[0x40 + v as usize] != want / 2 {
            return Some(format!("vector {}: the handlers rewrite the vector table entry after every entry, so of {} entries {} must go through the second handler of the pair; {} did (an entry did not use the vector as it stood in memory)", v, want, want / 2, o.counters[0x40 + v as usize]));
        }
    }
    if g.trapping {
        let want = schedule.iter().filter(|x| x.1 == 36).count() as u8;
        if o.counters[0x70] != want {
            return Some(format!("the handler of vector 36 executes TRAPA #3 once per entry: {} entries, the trap handler ran {} times (log {:02x?})", want, o.counters[0x70], o.log));
        }
    }
    // (d) the interrupted program computes what it computes without interrupts
    if o.er[..4] != base.er[..4] || o.er[7] != base.er[7] || o.data != base.data || o.ccr != base.ccr || o.pc != base.pc {
        return Some(format!(
            "main program result differs from the run without interrupts: ER0-3 {:08x?} vs {:08x?}, SP {:08x} vs {:08x}, CCR {:02x} vs {:02x}, data {:02x?} vs {:02x?}",
            &o.er[..4], &base.er[..4], o.er[7], base.er[7], o.ccr, base.ccr, &o.data[..8], &base.data[..8]
        ));
    }
    let _ = g;
    None
}

fn schedules_with(k: usize, tmax: usize) -> u64 {
    // number of multisets of size k over tmax * 5 (iteration, vector) slots
    let n = (tmax * VECTORS.len()) as u64;
    let mut num = 1u64;
    for i in 0..k as u64 {
        num = num * (n + i) / (i + 1);
    }
    num
}

/// i-th multiset of size k over n slots (combinatorial number system, non-decreasing)
fn nth_multiset(mut idx: u64, k: usize, n: u64) -> Vec<u64> {
    // enumerate non-decreasing sequences lexicographically
    let mut out = Vec::with_capacity(k);
    let mut lo = 0u64;
    for pos in 0..k {
        let rem = k - pos - 1;
        let mut v = lo;
        loop {
            // number of non-decreasing sequences of length rem over [v, n)
            let m = n - v;
            let mut cnt = 1u64;
            for i in 0..rem as u64 {
                cnt = cnt * (m + i) / (i + 1);
            }
            if idx < cnt {
                break;
            }
            idx -= cnt;
            v += 1;
        }
        out.push(v);
        lo = v;
    }
    out
}

fn c10_units(tier: Tier) -> Vec<Unit> {
    let mut units = Vec::new();
    let kmax = if tier == Tier::Thorough { 4 } else { 3 };
    for main_kind in [0usize, 1, 2, 4, 6] {
        for long in [false, true] {
            for k in 0..=kmax {
                if tier == Tier::Thorough && k == 4 && long {
                    continue;
                }
                let name = format!("main{}-{}/k={}", main_kind, if long { "long" } else { "short" }, k);
                // the zero-injection run length fixes the window of injection points
                let isa = Isa::new();
                let g0 = build_guest(&isa, main_kind, long);
                let mut cpu0 = Cpu::new();
                load_guest(&mut cpu0, &g0);
                let base0 = run_with_schedule(&mut cpu0, &g0, &[], 500);
                let tmax = base0.iterations.saturating_sub(3) + if long { 10 } else { 4 };
                let total = schedules_with(k, tmax);
                let chunks = (total / 3000).clamp(1, 512);
                let dom = format!(
                    "guest {} ({} loop iterations without interrupts): every schedule with exactly {} injected requests over vectors {:?} at any of the first {} loop iterations of the real run() (incl. several at the same boundary and bursts while a handler runs) = {} complete runs",
                    g0.name, base0.iterations, k, VECTORS, tmax, total
                );
                units.push(Unit::new(&name, chunks, &dom, move |ctx, chunk| {
                    let g = build_guest(&ctx.isa, main_kind, long);
                    let mut cpu = Cpu::new();
                    load_guest(&mut cpu, &g);
                    let base = run_with_schedule(&mut cpu, &g, &[], 500);
                    // determinism of the harness itself: the same schedule twice gives identical observations
                    let again = run_with_schedule(&mut cpu, &g, &[], 500);
                    if base.er != again.er || base.log != again.log || base.iterations != again.iterations || base.data != again.data {
                        ctx.machinery("two runs of the same schedule differ".into());
                        return;
                    }
                    if base.result != "ok" {
                        ctx.custom_violation("c10", format!("the guest does not finish without interrupts: {}", base.result), json!({"guest": g.name, "main": main_kind, "long": long, "schedule": []}), json!(null), json!(null));
                        return;
                    }
                    let (lo, hi) = chunk_range(total, chunks, chunk);
                    let n = (tmax * VECTORS.len()) as u64;
                    for idx in lo..hi {
                        let ms = nth_multiset(idx, k, n);
                        let schedule: Vec<(usize, u8)> = ms.iter().map(|&s| ((s / VECTORS.len() as u64) as usize, VECTORS[(s % VECTORS.len() as u64) as usize])).collect();
                        let o = run_with_schedule(&mut cpu, &g, &schedule, 600);
                        ctx.st.cases += 1;
                        if k > 0 {
                            ctx.st.nontrivial += 1;
                        }
                        *ctx.st.notes.entry("loop iterations executed".into()).or_insert(0) += o.iterations as u64;
                        let bit = (o.log.iter().fold(0u64, |h, &b| h.wrapping_mul(131).wrapping_add(b as u64)) & 0xffff) as usize;
                        ctx.st.outcome_bits[bit / 64] |= 1 << (bit % 64);
                        if let Some(msg) = judge(&g, &schedule, &o, &base) {
                            let case = json!({"guest": g.name, "main": main_kind, "long": long, "schedule": schedule.iter().map(|x| json!([x.0, x.1])).collect::<Vec<_>>()});
                            ctx.custom_violation("c10", msg, case, json!(null), json!({"log": o.log, "result": o.result, "iterations": o.iterations}));
                            if ctx.stop {
                                return;
                            }
                        }
                        if idx == lo {
                            ctx.sample(json!({"guest": g.name, "schedule": schedule.iter().map(|x| json!([x.0, x.1])).collect::<Vec<_>>(), "log": o.log}));
                        }
                    }
                }));
            }
        }
    }
    // ---- every vector number: all ordered pairs (and v,w,v triples) at three relative timings
    for long in [false, true] {
        let name = format!("all-vectors/{}", if long { "long" } else { "short" });
        units.push(Unit::new(
            &name,
            63,
            "every ordered pair (v1, v2) of vector numbers 1-63 injected at {the same boundary, v2 one iteration into v1's handler (masked), v2 well after v1 returned} and every triple (v1, v2, v1) as a burst into v1's handler, through the real run(), with the stack pointer's upper byte 00 and 5A: 63 x 63 x 4 x 2 schedules per guest",
            move |ctx, chunk| {
                let g = build_guest(&ctx.isa, 1, long);
                let mut cpu = Cpu::new();
                load_guest(&mut cpu, &g);
                let v1 = chunk as u8 + 1;
                // second half: the stack pointer carries a non-zero upper byte (it takes no part in addressing and must survive)
                for top in [0u32, 0x5a00_0000] {
                SP_TOP.store(top, std::sync::atomic::Ordering::Relaxed);
                let base = run_with_schedule(&mut cpu, &g, &[], 500);
                for v2 in 1..=63u8 {
                    let far = if long { 24 } else { 16 };
                    for schedule in [vec![(2usize, v1), (2, v2)], vec![(2, v1), (3, v2)], vec![(2, v1), (far, v2)], vec![(2, v1), (3, v2), (4, v1)]] {
                        let o = run_with_schedule(&mut cpu, &g, &schedule, 700);
                        ctx.st.cases += 1;
                        ctx.st.nontrivial += 1;
                        *ctx.st.notes.entry("loop iterations executed".into()).or_insert(0) += o.iterations as u64;
                        let bit = (o.log.iter().fold(0u64, |h, &b| h.wrapping_mul(131).wrapping_add(b as u64)) & 0xffff) as usize;
                        ctx.st.outcome_bits[bit / 64] |= 1 << (bit % 64);
                        if let Some(msg) = judge(&g, &schedule, &o, &base) {
                            let case = json!({"guest": g.name, "main": 1, "long": long, "sp_top": top, "schedule": schedule.iter().map(|x| json!([x.0, x.1])).collect::<Vec<_>>()});
                            ctx.custom_violation("c10", msg, case, json!(null), json!({"log": o.log, "result": o.result}));
                            if ctx.stop {
                                SP_TOP.store(0, std::sync::atomic::Ordering::Relaxed);
                                return;
                            }
                        }
                    }
                }
                }
                SP_TOP.store(0, std::sync::atomic::Ordering::Relaxed);
            },
        ));
    }
    // ---- single boundary, every vector x every CCR: masked => nothing happens and the request stays pending
    units.push(Unit::new(
        "boundary/all-vectors-x-ccr",
        1,
        "one boundary: every vector 1-63 x all 256 CCR values x {alone, behind another pending request}: with I set nothing is accepted, no register or memory changes and the same requests stay pending; with I clear exactly one of the pending requests is accepted, through the vector of its own number, and the other stays pending (which of two pending requests goes first is not fixed by the property)",
        move |ctx, _| {
            for v in 1..=63u8 {
                for ccr in 0..=255u8 {
                    for second in [None, Some(if v == 63 { 1 } else { v + 1 })] {
                        let cpu = &mut ctx.m.cpu;
                        cpu.er = crate::hv::dom::background_regs();
                        cpu.er[7] = 0x00ffe700;
                        cpu.vh_set_pc(0x410000);
                        cpu.vh_set_ccr(ccr);
                        cpu.vh_clear_pending_interrupts();
                        cpu.vh_request_interrupt(v);
                        if let Some(w) = second {
                            cpu.vh_request_interrupt(w);
                        }
                        let er = cpu.er;
                        crate::cpu::verif_hooks::bus_write_log_enable(true);
                        let r = cpu.vh_try_interrupt();
                        let mut wl = Vec::new();
                        crate::cpu::verif_hooks::bus_write_log_take(&mut wl);
                        crate::cpu::verif_hooks::bus_write_log_enable(false);
                        let pend = cpu.vh_pending_interrupts();
                        ctx.st.cases += 1;
                        ctx.st.nontrivial += 1;
                        let mut verdict = None;
                        let mut pend_sorted = pend.clone();
                        pend_sorted.sort();
                        if ccr & 0x80 != 0 {
                            let mut want: Vec<u8> = std::iter::once(v).chain(second).collect();
                            want.sort();
                            if r.is_err() || cpu.er != er || cpu.vh_pc() != 0x410000 || cpu.vh_ccr() != ccr || !wl.is_empty() || pend_sorted != want {
                                verdict = Some(format!("vector {} requested with CCR {:02x} (I set): expected nothing to happen and {:?} to stay pending; PC {:06x} CCR {:02x} SP {:08x} pending {:?} writes {:?}", v, ccr, want, cpu.vh_pc(), cpu.vh_ccr(), cpu.er[7], pend, wl.len()));
                            }
                        } else {
                            // exactly one of the pending requests is entered through its own vector; the other one stays
                            let all: Vec<u8> = std::iter::once(v).chain(second).collect();
                            let pc_now = cpu.vh_pc();
                            let sp_now = cpu.er[7];
                            let ccr_now = cpu.vh_ccr();
                            let mut ok = false;
                            for (k, &x) in all.iter().enumerate() {
                                let mut rest = all.clone();
                                rest.remove(k);
                                rest.sort();
                                let va = 4 * x as u32;
                                let target = (0..4).fold(0u32, |acc, j| (acc << 8) | ctx.m.peek(va + j).unwrap_or(0) as u32) & 0x00ff_ffff;
                                if pend_sorted == rest && pc_now == target {
                                    ok = true;
                                }
                            }
                            if r.is_err() || sp_now != er[7].wrapping_sub(4) || !ok || ccr_now & 0x80 == 0 {
                                verdict = Some(format!("vector {} requested with CCR {:02x} (I clear){}: expected exactly one pending request to be accepted through its own vector; PC {:06x} SP {:08x} pending {:?} CCR {:02x}", v, ccr, second.map(|w| format!(" together with {}", w)).unwrap_or_default(), pc_now, sp_now, pend, ccr_now));
                            }
                        }
                        // undo the frame
                        for a in wl {
                            if let Some(p) = ctx.m.peek_shadow(a) {
                                if let Some(s) = ctx.m.real_slot(a) {
                                    *s = p;
                                }
                            }
                        }
                        ctx.m.cpu.vh_clear_pending_interrupts();
                        if let Some(msg) = verdict {
                            ctx.custom_violation("c10", msg, json!({"boundary": true, "vector": v, "ccr": ccr}), json!(null), json!(null));
                            if ctx.stop {
                                return;
                            }
                        }
                    }
                }
            }
        },
    ));
    // ---- no I/O register value changes the masking rule (priority / control registers that are not modelled must stay inert)
    units.push(Unit::new(
        "boundary/io-register-values",
        16,
        "every I/O register address (H'FEE000-H'FEE0FF, H'FFFF20-H'FFFFE9) x values {01, 80, ff, 55, aa, 0f, f0, 18} written through Bus::write, then every vector 1-63 at a boundary with I set (nothing is accepted, the request stays pending) and with I clear (it is accepted through its own vector); the register gets its old value back afterwards",
        move |ctx, chunk| {
            let regs: Vec<u32> = (0xfee000u32..=0xfee0ff).chain(0xffff20..=0xffffe9).collect();
            for (i, &a) in regs.iter().enumerate() {
                if i % 16 != chunk as usize {
                    continue;
                }
                for val in [0x01u8, 0x80, 0xff, 0x55, 0xaa, 0x0f, 0xf0, 0x18] {
                    for v in 1..=63u8 {
                        for ccr in [0x80u8, 0x00] {
                            ctx.st.cases += 1;
                            ctx.st.nontrivial += 1;
                            if let Some(msg) = io_boundary_case(ctx, a, val, v, ccr) {
                                ctx.custom_violation("c10", msg, json!({"io_register": format!("{:x}", a), "value": val, "vector": v, "ccr": ccr}), json!(null), json!(null));
                                if ctx.stop {
                                    return;
                                }
                            }
                        }
                    }
                }
            }
            // peripherals back to reset (a timer control write may have started a clock)
            ctx.m.cpu.vh_module_manager_restore(crate::modules::ModuleManager::new());
            ctx.m.fill_pristine();
        },
    ));
    // ---- queue depth with history: a burst, part of it served, a second burst on top, then drained
    units.push(Unit::new(
        "boundary/queue-history",
        16,
        "three-phase histories of the pending queue: a requests are raised while masked, b of them are served (I cleared before each boundary), c more are raised, then everything is drained; a over {2^k - 1, 2^k, 2^k + 1 for k = 4..11, 600, 1000}, b over {0, 1, a/2 - 1, a/2, a/2 + 1, a - 1}, c chosen so that the number waiting passes the next one and two powers of two by one: every acceptance enters through a vector that is pending, and at the end every vector was entered exactly as often as it was requested",
        move |ctx, chunk| {
            let mut scen: Vec<(u32, u32, u32)> = Vec::new();
            let mut avals: Vec<u32> = vec![600, 1000];
            for k in 4..=11u32 {
                avals.extend([(1 << k) - 1, 1 << k, (1 << k) + 1]);
            }
            for &a in avals.iter() {
                for b in [0u32, 1, a / 2 - 1, a / 2, a / 2 + 1, a - 1] {
                    let waiting = a - b;
                    let p = a.next_power_of_two();
                    for target in [p + 1, 2 * p + 1] {
                        if target > waiting {
                            scen.push((a, b, target - waiting));
                        }
                    }
                }
            }
            for (i, &(a, b, c)) in scen.iter().enumerate() {
                if i % 16 != chunk as usize {
                    continue;
                }
                ctx.st.cases += 1;
                ctx.st.nontrivial += 1;
                if let Some(msg) = burst3_case(ctx, a, b, c) {
                    ctx.custom_violation("c10", msg, json!({"burst3": [a, b, c]}), json!(null), json!(null));
                    if ctx.stop {
                        return;
                    }
                }
            }
        },
    ));
    // ---- queue depth: bursts of N requests raised while I is set, for every N up to 600 and around 2^16
    units.push(Unit::new(
        "boundary/queue-depth",
        8,
        "bursts while masked: for every N in 0..=600 and N in {65535, 65536, 65537}, N requests (vector numbers cycling through 1-63) are raised with I set; nothing is accepted while I is set; then I is cleared before every boundary (as RTE does) and boundaries are offered until no request is left: exactly N acceptances, each removing exactly one pending request and entering through that request's vector, and a further boundary does nothing",
        move |ctx, chunk| {
            let mut ns: Vec<u32> = (0..=600u32).filter(|n| n % 8 == chunk as u32).collect();
            if chunk < 3 {
                ns.push(65535 + chunk as u32);
            }
            for n in ns {
                if let Some(msg) = burst_case(ctx, n) {
                    ctx.custom_violation("c10", msg, json!({"burst": n}), json!(null), json!(null));
                    if ctx.stop {
                        return;
                    }
                }
            }
        },
    ));
    units
}

/// One case of unit boundary/io-register-values: `val` is written to I/O register `a`, vector `v` is requested
/// at a boundary with CCR = `ccr`, the register gets its old value back.
pub fn io_boundary_case(ctx: &mut Ctx, a: u32, val: u8, v: u8, ccr: u8) -> Option<String> {
    let old = ctx.m.cpu.bus.read(a).unwrap_or(0);
    let _ = ctx.m.cpu.bus.write(a, val);
    let sp0 = 0x00ffe700u32;
    {
        let cpu = &mut ctx.m.cpu;
        cpu.er = crate::hv::dom::background_regs();
        cpu.er[7] = sp0;
        cpu.vh_set_pc(0x410000);
        cpu.vh_set_ccr(ccr);
        cpu.vh_clear_pending_interrupts();
        cpu.vh_request_interrupt(v);
    }
    crate::cpu::verif_hooks::bus_write_log_enable(true);
    let r = ctx.m.cpu.vh_try_interrupt();
    let mut wl = Vec::new();
    crate::cpu::verif_hooks::bus_write_log_take(&mut wl);
    crate::cpu::verif_hooks::bus_write_log_enable(false);
    let pend = ctx.m.cpu.vh_pending_interrupts();
    let (pc_now, sp_now, ccr_now) = (ctx.m.cpu.vh_pc(), ctx.m.cpu.er[7], ctx.m.cpu.vh_ccr());
    let va = 4 * v as u32;
    let target = (0..4).fold(0u32, |acc, k| (acc << 8) | ctx.m.peek_shadow(va + k).unwrap_or(0) as u32) & 0x00ff_ffff;
    for w in wl {
        if let Some(p) = ctx.m.peek_shadow(w) {
            if let Some(s) = ctx.m.real_slot(w) {
                *s = p;
            }
        }
    }
    ctx.m.cpu.vh_clear_pending_interrupts();
    let _ = ctx.m.cpu.bus.write(a, old);
    let bad = if ccr & 0x80 != 0 {
        r.is_err() || pend != vec![v] || pc_now != 0x410000 || sp_now != sp0 || ccr_now != ccr
    } else {
        r.is_err() || !pend.is_empty() || pc_now != target || sp_now != sp0.wrapping_sub(4) || ccr_now & 0x80 == 0
    };
    if bad {
        Some(format!(
            "with {:02x} written to I/O register {:06x}: vector {} at a boundary with CCR {:02x}: {} (PC {:06x}, SP {:08x}, CCR {:02x}, pending {:?})",
            val, a, v, ccr,
            if ccr & 0x80 != 0 { "I is set, nothing may be accepted" } else { "I is clear, the request must be accepted through its vector" },
            pc_now, sp_now, ccr_now, pend
        ))
    } else {
        None
    }
}

/// Three-phase history of the pending queue (unit boundary/queue-history): raise `a` while masked, serve `b`,
/// raise `c` more, drain.  Per-vector bookkeeping only (no per-step copy of the queue).
pub fn burst3_case(ctx: &mut Ctx, a: u32, b: u32, c: u32) -> Option<String> {
    let vec_of = |i: u32| -> u8 { 1 + ((i * 11) % 63) as u8 };
    let sp0 = 0x00ffe700u32;
    let mut targets = [0u32; 64];
    for v in 0..64u32 {
        targets[v as usize] = (0..4).fold(0u32, |acc, k| (acc << 8) | ctx.m.peek_shadow(4 * v + k).unwrap_or(0) as u32) & 0x00ff_ffff;
    }
    let mut requested = [0u32; 64];
    let mut entered = [0u32; 64];
    {
        let cpu = &mut ctx.m.cpu;
        cpu.er = crate::hv::dom::background_regs();
        cpu.vh_clear_pending_interrupts();
    }
    let mut serve = |ctx: &mut Ctx, entered: &mut [u32; 64], requested: &[u32; 64]| -> Result<bool, String> {
        {
            let cpu = &mut ctx.m.cpu;
            cpu.er[7] = sp0;
            cpu.vh_set_pc(0x410000);
            cpu.vh_set_ccr(0x00);
        }
        crate::cpu::verif_hooks::bus_write_log_enable(true);
        let r = ctx.m.cpu.vh_try_interrupt();
        let mut wl = Vec::new();
        crate::cpu::verif_hooks::bus_write_log_take(&mut wl);
        crate::cpu::verif_hooks::bus_write_log_enable(false);
        for w in wl {
            if let Some(p) = ctx.m.peek_shadow(w) {
                if let Some(s) = ctx.m.real_slot(w) {
                    *s = p;
                }
            }
        }
        if let Err(e) = r {
            return Err(format!("an acceptance failed: {:#}", e));
        }
        let did = ctx.m.cpu.er[7] == sp0.wrapping_sub(4);
        if did {
            let pc = ctx.m.cpu.vh_pc();
            // which vector was it?  one that is still owed an entry and whose target is PC
            match (1..64usize).find(|&v| targets[v] == pc && entered[v] < requested[v]) {
                Some(v) => entered[v] += 1,
                None => return Err(format!("an entry went to {:06x}, which is not the vector target of any request that is still waiting", pc)),
            }
        }
        Ok(did)
    };
    let mut i = 0u32;
    for _ in 0..a {
        let v = vec_of(i);
        i += 1;
        requested[v as usize] += 1;
        ctx.m.cpu.vh_set_ccr(0x80);
        ctx.m.cpu.vh_request_interrupt(v);
    }
    let mut fail: Option<String> = None;
    for k in 0..b {
        match serve(ctx, &mut entered, &requested) {
            Ok(true) => {}
            Ok(false) => {
                fail = Some(format!("after {} of {} requests were served the next boundary (I clear) accepted nothing", k, a));
                break;
            }
            Err(m) => {
                fail = Some(m);
                break;
            }
        }
    }
    if fail.is_none() {
        for _ in 0..c {
            let v = vec_of(i);
            i += 1;
            requested[v as usize] += 1;
            ctx.m.cpu.vh_request_interrupt(v);
        }
        let waiting = a - b + c;
        for k in 0..waiting + 2 {
            match serve(ctx, &mut entered, &requested) {
                Ok(true) => {}
                Ok(false) => {
                    if k < waiting {
                        fail = Some(format!("{} requests were waiting, only {} were delivered", waiting, k));
                    }
                    break;
                }
                Err(m) => {
                    fail = Some(m);
                    break;
                }
            }
        }
    }
    let left = ctx.m.cpu.vh_pending_interrupts().len();
    ctx.m.cpu.vh_clear_pending_interrupts();
    if fail.is_none() {
        if left != 0 {
            fail = Some(format!("{} requests are still pending after the queue was drained", left));
        } else if let Some(v) = (1..64usize).find(|&v| entered[v] != requested[v]) {
            fail = Some(format!("vector {} was requested {} times and entered {} times", v, requested[v], entered[v]));
        }
    }
    fail.map(|m| format!("history (raise {}, serve {}, raise {}, drain): {}", a, b, c, m))
}

/// One burst of `n` requests raised while I is set, then drained (unit boundary/queue-depth).
pub fn burst_case(ctx: &mut Ctx, n: u32) -> Option<String> {
                let big = n > 1000;
                let vec_of = |i: u32| -> u8 { 1 + ((i * 7) % 63) as u8 };
                let sp0 = 0x00ffe700u32;
                {
                    let cpu = &mut ctx.m.cpu;
                    cpu.er = crate::hv::dom::background_regs();
                    cpu.er[7] = sp0;
                    cpu.vh_set_pc(0x410000);
                    cpu.vh_set_ccr(0x80);
                    cpu.vh_clear_pending_interrupts();
                    for i in 0..n {
                        cpu.vh_request_interrupt(vec_of(i));
                    }
                }
                ctx.st.cases += 1;
                ctx.st.nontrivial += 1;
                // masked boundary: nothing happens
                let r = ctx.m.cpu.vh_try_interrupt();
                let mut want: Vec<u8> = (0..n).map(vec_of).collect();
                want.sort();
                let mut pend = ctx.m.cpu.vh_pending_interrupts();
                pend.sort();
                if r.is_err() || pend != want || ctx.m.cpu.er[7] != sp0 || ctx.m.cpu.vh_pc() != 0x410000 {
                    let msg = format!("burst of {} requests while I is set: a masked boundary changed something (pending {} of {}, SP {:08x}, PC {:06x})", n, pend.len(), n, ctx.m.cpu.er[7], ctx.m.cpu.vh_pc());
                    ctx.m.cpu.vh_clear_pending_interrupts();
                    return Some(msg);
                }
                // unmasked boundaries until the queue is empty
                let mut accepted = 0u32;
                let mut bad: Option<String> = None;
                for _ in 0..(n + 2) {
                    let before = if big { Vec::new() } else { ctx.m.cpu.vh_pending_interrupts() };
                    {
                        let cpu = &mut ctx.m.cpu;
                        cpu.er[7] = sp0;
                        cpu.vh_set_pc(0x410000);
                        cpu.vh_set_ccr(0x00);
                    }
                    crate::cpu::verif_hooks::bus_write_log_enable(true);
                    let r = ctx.m.cpu.vh_try_interrupt();
                    let mut wl = Vec::new();
                    crate::cpu::verif_hooks::bus_write_log_take(&mut wl);
                    crate::cpu::verif_hooks::bus_write_log_enable(false);
                    let entered = ctx.m.cpu.er[7] == sp0.wrapping_sub(4) && ctx.m.cpu.vh_ccr() & 0x80 != 0;
                    let pc_now = ctx.m.cpu.vh_pc();
                    for a in wl {
                        if let Some(p) = ctx.m.peek_shadow(a) {
                            if let Some(s) = ctx.m.real_slot(a) {
                                *s = p;
                            }
                        }
                    }
                    if r.is_err() {
                        bad = Some(format!("burst of {}: acceptance {} failed: {:?}", n, accepted, r.err().map(|e| format!("{:#}", e))));
                        break;
                    }
                    if entered {
                        accepted += 1;
                        if !big {
                            let after = ctx.m.cpu.vh_pending_interrupts();
                            // exactly one request left the queue, and the entry went through its vector
                            let mut b2 = before.clone();
                            let mut ok = false;
                            if after.len() + 1 == before.len() {
                                let mut a2 = after.clone();
                                a2.sort();
                                b2.sort();
                                // the removed element
                                let mut removed = None;
                                let mut j = 0;
                                for (i, &x) in b2.iter().enumerate() {
                                    if j < a2.len() && a2[j] == x {
                                        j += 1;
                                    } else if removed.is_none() {
                                        removed = Some(x);
                                    } else {
                                        removed = None;
                                        let _ = i;
                                        break;
                                    }
                                }
                                if let Some(x) = removed {
                                    let va = 4 * x as u32;
                                    let target = (0..4).fold(0u32, |acc, k| (acc << 8) | ctx.m.peek(va + k).unwrap_or(0) as u32) & 0x00ff_ffff;
                                    ok = pc_now == target;
                                }
                            }
                            if !ok {
                                bad = Some(format!("burst of {}: acceptance {} did not remove exactly one pending request and enter through its vector (pending {} -> {}, PC {:06x})", n, accepted, before.len(), after.len(), pc_now));
                                break;
                            }
                        }
                    } else if ctx.m.cpu.er[7] != sp0 || pc_now != 0x410000 {
                        bad = Some(format!("burst of {}: a boundary changed SP/PC without a complete entry (SP {:08x}, PC {:06x})", n, ctx.m.cpu.er[7], pc_now));
                        break;
                    }
                }
                let left = ctx.m.cpu.vh_pending_interrupts().len();
                if bad.is_none() && (accepted != n || left != 0) {
                    bad = Some(format!("burst of {} requests raised while I was set: {} were delivered after I was cleared, {} are still pending", n, accepted, left));
                }
                ctx.m.cpu.vh_clear_pending_interrupts();
                bad
}

pub fn c10(tier: Tier, _seed: u64) -> Prop {
    Prop {
        id: "C10",
        level: "model_checking",
        rule: "stateless, deviation-bounded exploration of the real Cpu::run(): a schedule is the list of interrupt requests injected by the run-loop hook at chosen loop iterations (a deviation = one injected request); every schedule with 0,1,..,k deviations is run to completion; verdicts come from the guest's own enter/exit log, per-vector counters, the hook's per-iteration (PC, CCR, pending) samples and a differential comparison with the zero-injection run; non-trivial = runs with at least one injection".into(),
        assumptions: vec![
            "requests are injected at the top of a loop iteration, exactly where a peripheral's request (raised by update_modules at the end of the previous iteration) becomes visible".into(),
            "order among simultaneously pending requests is not constrained".into(),
            "deviation bound: k <= 3 (quick) / k <= 4 (thorough) injections over vectors {36,37,39,1,63} at every loop iteration, plus every ordered pair / (v,w,v) triple over ALL vectors 1-63 at four relative timings, plus every vector x every CCR at a single boundary; six generated guests (straight-line / counted loop / call) x (short / long handlers) with handlers for all 63 vectors; handlers never clear I themselves".into(),
        ],
        units: c10_units(tier),
        extra: Box::new(|m| {
            let mut runs = 0u64;
            let mut iters = 0u64;
            for (_, st) in m.iter() {
                runs += st.cases;
                iters += st.notes.get("loop iterations executed").copied().unwrap_or(0);
            }
            json!({"states": iters.max(1), "transitions": iters.max(1), "traces_validated_against_impl": runs, "complete_runs": runs, "max_deviations_completed": "see units: every k up to the tier's bound"})
        }),
        profiles: vec!["release"],
    }
}

pub fn replay_c10(case: &Value) -> bool {
    if let Some(a) = case["io_register"].as_str() {
        let mut ctx = Ctx::new();
        let g = |k: &str| case[k].as_u64().unwrap_or(0) as u8;
        return match io_boundary_case(&mut ctx, u32::from_str_radix(a, 16).unwrap_or(0), g("value"), g("vector"), g("ccr")) {
            Some(m) => {
                println!("FAILS: {}", m);
                false
            }
            None => true,
        };
    }
    if let Some(b3) = case["burst3"].as_array() {
        let mut ctx = Ctx::new();
        let g = |k: usize| b3.get(k).and_then(|x| x.as_u64()).unwrap_or(0) as u32;
        return match burst3_case(&mut ctx, g(0), g(1), g(2)) {
            Some(m) => {
                println!("FAILS: {}", m);
                false
            }
            None => true,
        };
    }
    if let Some(n) = case["burst"].as_u64() {
        let mut ctx = Ctx::new();
        return match burst_case(&mut ctx, n as u32) {
            Some(m) => {
                println!("FAILS: {}", m);
                false
            }
            None => true,
        };
    }
    let isa = Isa::new();
    let g = build_guest(&isa, case["main"].as_u64().unwrap_or(0) as usize, case["long"].as_bool().unwrap_or(false));
    SP_TOP.store(case["sp_top"].as_u64().unwrap_or(0) as u32, std::sync::atomic::Ordering::Relaxed);
    let mut cpu = Cpu::new();
    load_guest(&mut cpu, &g);
    let base = run_with_schedule(&mut cpu, &g, &[], 500);
    let schedule: Vec<(usize, u8)> = case["schedule"].as_array().map(|a| a.iter().map(|x| (x[0].as_u64().unwrap_or(0) as usize, x[1].as_u64().unwrap_or(0) as u8)).collect()).unwrap_or_default();
    let o = run_with_schedule(&mut cpu, &g, &schedule, 600);
    println!("schedule (iteration, vector): {:?}", schedule);
    println!("guest log: {:02x?}   result: {}   iterations: {}", o.log, o.result, o.iterations);
    match judge(&g, &schedule, &o, &base) {
        Some(m) => {
            println!("FAILS: {}", m);
            false
        }
        None => true,
    }
}
