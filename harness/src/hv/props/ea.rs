//! C08 — effective-address formation, modulo 2^24.
use super::memform::*;
use crate::hv::dom::{self, K4};
use crate::hv::e1::{Case, Ctx};
use crate::hv::isa::{Fields, Isa, Mode, Sem, Sz, ROWS};
use crate::hv::sem::{self, M24};
use crate::hv::shard::{chunk_range, no_extra, Prop, Tier, Unit};

const TOPS_QUICK: [u8; 24] = [0x00, 0x01, 0x02, 0x04, 0x08, 0x10, 0x20, 0x40, 0x80, 0xff, 0xfe, 0x7f, 0x5a, 0xa5, 0x0f, 0xf0, 0x12, 0xc3, 0x3c, 0x55, 0xaa, 0x81, 0x7e, 0xef];

fn tops(tier: Tier) -> Vec<u8> {
    let _ = (tier, TOPS_QUICK);
    (0..=255u8).collect()
}

/// rows with a data memory operand
fn mem_rows() -> Vec<&'static str> {
    ROWS.iter().filter(|r| r.imp && mem_shape(r.sem).is_some()).map(|r| r.name).collect()
}

fn code_pc_for(ea: u32) -> u32 {
    // keep code away from the operand
    if ea >= 0xffc000 && ea < 0xffc100 {
        dom::CODE_DRAM
    } else {
        dom::CODE_RAM
    }
}

pub fn ea_units(name: &'static str, tier: Tier, seed: u64) -> Vec<Unit> {
    let isa = Isa::new();
    let row = isa.row(name);
    let shape = mem_shape(ROWS[row].sem).unwrap();
    let sz = shape.sz;
    let even = sz != Sz::B;
    let mut units = Vec::new();
    let regmode = matches!(shape.mode, Mode::Ind | Mode::Inc | Mode::D16 | Mode::D24);
    let thorough = tier == Tier::Thorough;

    if regmode {
        // ---- (T) upper byte x low-24 set
        let tp = tops(tier);
        let lows = ea_low_set(even);
        let disps: Vec<u32> = match shape.mode {
            Mode::D16 => vec![0x0000, 0x0002, 0xfffe, 0x7ffe, 0x8000],
            Mode::D24 => vec![0x000000, 0x000002, 0xfffffe, 0x7ffffe, 0x800000],
            _ => vec![0],
        };
        let ras: Vec<u8> = if shape.mode == Mode::Inc { vec![1, 7] } else { vec![1] };
        let nl = lows.len() as u64;
        let dom = format!(
            "address register upper byte in {} values x {} low-24 values (both ends of every mapped region, their unmapped neighbours, around 0 and 2^24) x {} displacements x address registers {:?}",
            tp.len(),
            nl,
            disps.len(),
            ras
        );
        units.push(Unit::new(&format!("{}/T", name), 8, &dom, move |ctx, chunk| {
            let regs = dom::background_regs();
            let (lo, hi) = chunk_range(nl, 8, chunk);
            for li in lo..hi {
                let ea = lows[li as usize];
                for &ra in ras.iter() {
                    for &d in disps.iter() {
                        let mut f = default_fields(sz);
                        f.ra = ra;
                        if ra == 7 {
                            f.rs = if sz == Sz::B { 2 } else if sz == Sz::W { 10 } else { 2 };
                            f.rd = f.rs;
                        }
                        f.data = d;
                        for &t in tp.iter() {
                            let base = base_for(&shape, ea, d, t);
                            let c = build_case(&ctx.isa, row, &f, &shape, base, 0, None, code_pc_for(ea), if t & 1 == 0 { 0x00 } else { 0xff }, &regs);
                            ctx.run(&c);
                        }
                    }
                }
            }
        }));
        // ---- (TR) every address register x upper-byte patterns that set and clear every bit
        {
            let dom = "all 8 address registers x upper byte {00, 01, 5a, a5, 80, ff} x one operand in on-chip RAM, DRAM and the vector area x 2 displacements: the upper byte takes no part in addressing whichever register holds the address".to_string();
            units.push(Unit::new(&format!("{}/TR", name), 1, &dom, move |ctx, _| {
                let regs = dom::background_regs();
                let disps: Vec<u32> = match shape.mode {
                    Mode::D16 => vec![0x0010, 0xfff0],
                    Mode::D24 => vec![0x000010, 0xfffff0],
                    _ => vec![0],
                };
                for ra in 0..8u8 {
                    for &ea in &[0x00ff_d080u32, 0x0048_0080, 0x0000_0080] {
                        for &d in disps.iter() {
                            let mut f = default_fields(sz);
                            f.ra = ra;
                            // the data register must not be (part of) the address register
                            let dr = (ra + 2) & 7;
                            f.rs = if sz == Sz::L { dr } else { dr | 8 };
                            f.rd = f.rs;
                            f.data = d;
                            for &t in &[0x00u8, 0x01, 0x5a, 0xa5, 0x80, 0xff] {
                                let base = base_for(&shape, ea, d, t);
                                let c = build_case(&ctx.isa, row, &f, &shape, base, 0x1234_5678, if shape.load { Some(ea) } else { None }, code_pc_for(ea), 0x00, &regs);
                                ctx.run(&c);
                            }
                        }
                    }
                }
            }));
        }
        // ---- values near 0 and near 2^32 (sums that wrap)
        {
            let mut bases: Vec<u32> = Vec::new();
            for k in 0..0x120u32 {
                bases.push(k);
                bases.push(0u32.wrapping_sub(k + 1));
            }
            for k in [0x7ffeu32, 0x8000, 0xfffe, 0x10000, 0xffff0000, 0xffff8000, 0xffff7ffe] {
                bases.push(k);
            }
            if even {
                bases.retain(|b| b % 2 == 0);
            }
            let disps: Vec<u32> = match shape.mode {
                Mode::D16 => vec![0x0000, 0x0100, 0xff00, 0x7ffe, 0x8000, 0xfffe],
                Mode::D24 => vec![0x000000, 0x000100, 0xffff00, 0x7ffffe, 0x800000, 0xfffffe, 0x400000, 0xffbf20],
                _ => vec![0],
            };
            let nb = bases.len() as u64;
            let dom = format!("{} base register values within 0x120 of 0 and of 2^32 (sums wrap) x {} displacements", nb, disps.len());
            units.push(Unit::new(&format!("{}/W", name), 2, &dom, move |ctx, chunk| {
                let regs = dom::background_regs();
                let (lo, hi) = chunk_range(nb, 2, chunk);
                for bi in lo..hi {
                    let base = bases[bi as usize];
                    for &d in disps.iter() {
                        let mut f = default_fields(sz);
                        f.data = d;
                        let c = build_case(&ctx.isa, row, &f, &shape, base, 0, None, dom::CODE_RAM, 0x00, &regs);
                        ctx.run(&c);
                    }
                }
            }));
        }
    }
    match shape.mode {
        Mode::D16 => {
            // ---- all 65536 displacements on one base per class
            let bases: Vec<u32> = vec![0x00500000, 0x00ffdf20, 0x00000040, 0xffffff80, 0x5a480000, 0x00fee080];
            let dom = format!("all 65536 d:16 values x bases {:08x?} (all-mapped, partly mapped, wrap below 0, wrap above 2^24 / 2^32, non-zero upper byte, I/O block)", bases);
            units.push(Unit::new(&format!("{}/D", name), 32, &dom, move |ctx, chunk| {
                let regs = dom::background_regs();
                let (lo, hi) = chunk_range(65536, 32, chunk);
                for d in lo as u32..hi as u32 {
                    if even && d % 2 == 1 {
                        continue;
                    }
                    let mut f = default_fields(sz);
                    f.data = d;
                    for &b in bases.iter() {
                        let c = build_case(&ctx.isa, row, &f, &shape, b, 0, None, dom::CODE_DRAM, 0x00, &regs);
                        ctx.run(&c);
                    }
                }
            }));
        }
        Mode::D24 => {
            let ds = d24_set(seed);
            let lows = ea_low_set(even);
            let nd = ds.len() as u64;
            let dom = format!("{} boundary / single-bit / seed-rotated d:24 values x {} low-24 targets x upper bytes {{00,ff,5a}}", nd, lows.len());
            units.push(Unit::new(&format!("{}/D", name), 8, &dom, move |ctx, chunk| {
                let regs = dom::background_regs();
                let (lo, hi) = chunk_range(nd, 8, chunk);
                for di in lo..hi {
                    let d = ds[di as usize];
                    if even && d % 2 == 1 {
                        continue;
                    }
                    for &ea in lows.iter() {
                        for &t in &[0x00u8, 0xff, 0x5a] {
                            let mut f = default_fields(sz);
                            f.data = d;
                            let base = base_for(&shape, ea, d, t);
                            let c = build_case(&ctx.isa, row, &f, &shape, base, 0, None, code_pc_for(ea), 0x00, &regs);
                            ctx.run(&c);
                        }
                    }
                }
            }));
        }
        Mode::A8 => {
            units.push(Unit::new(&format!("{}/A", name), 1, "all 256 @aa:8 values (port DDR/DR stores left open)", move |ctx, _| {
                let regs = dom::background_regs();
                for aa in 0..256u32 {
                    let mut f = default_fields(sz);
                    f.data = aa;
                    let c = build_case(&ctx.isa, row, &f, &shape, 0, 0, None, dom::CODE_RAM, 0x00, &regs);
                    ctx.run(&c);
                }
            }));
        }
        Mode::A16 => {
            units.push(Unit::new(&format!("{}/A", name), 16, "all 65536 @aa:16 values (even for W/L)", move |ctx, chunk| {
                let regs = dom::background_regs();
                let (lo, hi) = chunk_range(65536, 16, chunk);
                for aa in lo as u32..hi as u32 {
                    if even && aa % 2 == 1 {
                        continue;
                    }
                    let mut f = default_fields(sz);
                    f.data = aa;
                    let ea = if aa & 0x8000 != 0 { 0xff0000 | aa } else { aa };
                    let c = build_case(&ctx.isa, row, &f, &shape, 0, 0, None, code_pc_for(ea), 0x00, &regs);
                    ctx.run(&c);
                }
            }));
        }
        Mode::A24 => {
            let mut addrs = ea_low_set(even);
            addrs.extend(dom::addr_cov(even, sz.bytes()));
            addrs.sort();
            addrs.dedup();
            let na = addrs.len();
            let dom = format!("{} @aa:24 values: both ends of every mapped region, unmapped neighbours, region interiors", na);
            units.push(Unit::new(&format!("{}/A", name), 1, &dom, move |ctx, _| {
                let regs = dom::background_regs();
                for &ea in addrs.iter() {
                    let mut f = default_fields(sz);
                    f.data = ea;
                    let c = build_case(&ctx.isa, row, &f, &shape, 0, 0, None, code_pc_for(ea), 0x00, &regs);
                    ctx.run(&c);
                }
            }));
        }
        _ => {}
    }
    let _ = thorough;
    units
}

/// JMP / JSR / BSR / RTS / RTE / TRAPA: target and stack addresses
fn flow_units(tier: Tier, _seed: u64) -> Vec<Unit> {
    let mut units = Vec::new();
    let tp = tops(tier);
    // ---- JMP @ERn / JSR @ERn: target register upper byte x low set
    for name in ["JMP @ERn", "JSR @ERn"] {
        let tp = tp.clone();
        let lows: Vec<u32> = ea_low_set(true);
        let dom = format!("target register upper byte in {} values x {} even low-24 values x all 7/8 registers", tp.len(), lows.len());
        units.push(Unit::new(&format!("{}/T", name), 8, &dom, move |ctx, chunk| {
            let row = ctx.isa.row(name);
            let mut regs = dom::background_regs();
            regs[7] = dom::STACK_RAM;
            let ra = chunk as u8;
            for &low in lows.iter() {
                for &t in tp.iter() {
                    let mut f = Fields::default();
                    f.ra = ra;
                    let code = ctx.isa.encode(row, &f);
                    let mut c = Case::new(dom::CODE_RAM, &code);
                    c.er = regs;
                    c.er[ra as usize] = low | ((t as u32) << 24);
                    if ra == 7 {
                        // target register is SP itself: only meaningful for JMP
                        c.er[7] = (low & M24) | ((t as u32) << 24);
                    }
                    ctx.run(&c);
                }
            }
        }));
    }
    // ---- @@aa:8: all 256 vector addresses x vector contents
    for name in ["JMP @@aa:8", "JSR @@aa:8"] {
        units.push(Unit::new(&format!("{}/A", name), 1, "all 256 @@aa:8 values x vector contents with upper byte {00,5a,ff} x targets in RAM/DRAM (vector must be read from H'0000aa)", move |ctx, _| {
            let row = ctx.isa.row(name);
            let mut regs = dom::background_regs();
            regs[7] = dom::STACK_RAM | 0x3300_0000;
            for aa in 0..256u32 {
                for (k, &tgt) in [0x00ffc100u32, 0x5a410200, 0xff4ffffe, 0x000000f0].iter().enumerate() {
                    let mut f = Fields::default();
                    f.data = aa;
                    let code = ctx.isa.encode(row, &f);
                    let mut c = Case::new(dom::CODE_RAM + 0x10 * k as u32, &code);
                    c.er = regs;
                    c.patch_l(aa, tgt);
                    // decoy at the H'FFFFaa alias so that a read from the wrong page is visible
                    if sem::mapped(0xffff00 | aa) && sem::mapped((0xffff00 | aa) + 3) && !(0xffffd0..=0xffffda).contains(&(0xffff00 | aa)) {
                        c.patch_l(0xffff00 | aa, 0x00ffd000);
                    }
                    ctx.run(&c);
                }
            }
        }));
    }
    // ---- stack users: SP upper byte x low set
    for name in ["BSR d:8", "BSR d:16", "JSR @ERn", "JSR @aa:24", "JSR @@aa:8", "RTS", "RTE", "TRAPA #x:2"] {
        let tp = tp.clone();
        let lows: Vec<u32> = ea_low_set(true);
        let nl = lows.len() as u64;
        let dom = format!("stack pointer upper byte in {} values x {} even low-24 values (mapped ends, unmapped neighbours, around 0 / 2^24)", tp.len(), nl);
        units.push(Unit::new(&format!("{}/S", name), 4, &dom, move |ctx, chunk| {
            let row = ctx.isa.row(name);
            let regs = dom::background_regs();
            let (lo, hi) = chunk_range(nl, 4, chunk);
            for li in lo..hi {
                let low = lows[li as usize];
                for &t in tp.iter() {
                    let mut f = Fields::default();
                    f.ra = 2;
                    f.trap = 1 + (t % 3);
                    f.data = match name {
                        "BSR d:8" => 0x10,
                        "BSR d:16" => 0xff00,
                        "JSR @aa:24" => 0x410100,
                        "JSR @@aa:8" => 0x40,
                        _ => 0,
                    };
                    let code = ctx.isa.encode(row, &f);
                    let pc = if (low & M24) >= 0xffc000 && (low & M24) < 0xffc200 { dom::CODE_DRAM } else { dom::CODE_RAM };
                    let mut c = Case::new(pc, &code);
                    c.er = regs;
                    c.er[2] = 0x7700_0000 | dom::CODE_DRAM + 0x200;
                    c.er[7] = low | ((t as u32) << 24);
                    c.ccr = t;
                    match name {
                        "JSR @@aa:8" => c.patch_l(0x40, 0x12ffc200),
                        "TRAPA #x:2" => {
                            for n in 1..4u32 {
                                c.patch_l((8 + n) * 4, 0x9a410300 + 0x10 * n);
                            }
                        }
                        "RTS" | "RTE" => {
                            // a frame with a non-zero top byte
                            let fa = low & M24;
                            if sem::mapped(fa) && sem::mapped(fa + 3) && !(fa <= 0xff) && !sem::is_port_reg(fa) {
                                c.patch_l(fa, ((t as u32) << 24) | 0x410400);
                            }
                        }
                        _ => {}
                    }
                    ctx.run(&c);
                }
            }
        }));
    }
    units
}

/// deep sweeps on representative forms: complete 24-bit address / displacement spaces (thorough), strided (quick)
fn deep_units(tier: Tier) -> Vec<Unit> {
    let mut units = Vec::new();
    let stride: u32 = if tier == Tier::Thorough { 1 } else { 251 };
    for name in ["MOV.B @aa:24,Rd", "MOV.W Rs,@aa:24", "MOV.L @aa:24,ERd"] {
        let dom = format!("every {}@aa:24 value 0..2^24-1 (even for W/L): mapped => the tagged byte(s) of exactly that address, unmapped => error and nothing touched", if stride == 1 { "".to_string() } else { format!("{}th ", stride) });
        units.push(Unit::new(&format!("{}/ALL", name), 256, &dom, move |ctx, chunk| {
            let row = ctx.isa.row(name);
            let shape = mem_shape(ROWS[row].sem).unwrap();
            let even = shape.sz != Sz::B;
            let regs = dom::background_regs();
            let (lo, hi) = chunk_range(1 << 24, 256, chunk);
            let mut a = lo as u32 + (stride - (lo as u32 % stride)) % stride;
            ctx.count_forms = false;
            while (a as u64) < hi {
                if !(even && a % 2 == 1) && !(a >= 0x40ff00 && a < 0x410100) {
                    let mut f = default_fields(shape.sz);
                    f.data = a;
                    let c = build_case(&ctx.isa, row, &f, &shape, 0, 0x1234_5678, None, dom::CODE_DRAM, 0x00, &regs);
                    ctx.run(&c);
                }
                a += stride;
            }
            ctx.count_forms = true;
        }));
    }
    for name in ["MOV.B @(d:24,ERs),Rd", "MOV.L ERs,@(d:24,ERd)"] {
        let dom = format!("every {}d:24 value 0..2^24-1 (even for L) x bases {{H'00500000, H'5AFFD000}}: effective address = (base + sext(d)) mod 2^24", if stride == 1 { "".to_string() } else { format!("{}th ", stride) });
        units.push(Unit::new(&format!("{}/ALL", name), 256, &dom, move |ctx, chunk| {
            let row = ctx.isa.row(name);
            let shape = mem_shape(ROWS[row].sem).unwrap();
            let even = shape.sz != Sz::B;
            let regs = dom::background_regs();
            let (lo, hi) = chunk_range(1 << 24, 256, chunk);
            let mut d = lo as u32 + (stride - (lo as u32 % stride)) % stride;
            ctx.count_forms = false;
            while (d as u64) < hi {
                if !(even && d % 2 == 1) {
                    for base in [0x0050_0000u32, 0x5aff_d000] {
                        let mut f = default_fields(shape.sz);
                        f.data = d;
                        let c = build_case(&ctx.isa, row, &f, &shape, base, 0x8765_4321, None, dom::CODE_RAM, 0x00, &regs);
                        ctx.run(&c);
                    }
                }
                d += stride;
            }
            ctx.count_forms = true;
        }));
    }
    if tier == Tier::Thorough {
        for name in ["MOV.B Rs,@(d:16,ERd)", "MOV.W @(d:16,ERs),Rd"] {
            units.push(Unit::new(&format!("{}/ALLxTOP", name), 256, "all 65536 d:16 values x all 256 upper bytes of the base register x 2 low-24 bases", move |ctx, chunk| {
                let row = ctx.isa.row(name);
                let shape = mem_shape(ROWS[row].sem).unwrap();
                let even = shape.sz != Sz::B;
                let regs = dom::background_regs();
                let top = chunk as u32;
                ctx.count_forms = false;
                for d in 0..65536u32 {
                    if even && d % 2 == 1 {
                        continue;
                    }
                    for low in [0x500000u32, 0xffdf20] {
                        let mut f = default_fields(shape.sz);
                        f.data = d;
                        let c = build_case(&ctx.isa, row, &f, &shape, low | (top << 24), 0x0bad_f00d, None, dom::CODE_DRAM, 0x00, &regs);
                        ctx.run(&c);
                    }
                }
                ctx.count_forms = true;
            }));
        }
    }
    units
}

pub fn c08(tier: Tier, seed: u64) -> Prop {
    let mut units = Vec::new();
    for name in mem_rows() {
        units.extend(ea_units(name, tier, seed));
    }
    units.extend(flow_units(tier, seed));
    units.extend(deep_units(tier));
    // ---- "@aa:24 is taken as is" also when the call's own stack frame lands on its extension words (unit shared with C05)
    for u in super::flow::c05(tier, seed).units.into_iter().filter(|u| u.name == "calls/frame-over-code") {
        units.push(u);
    }
    Prop {
        id: "C08",
        level: "exploration",
        rule: "cases are the full product of the declared finite sets per unit; memory holds an address-tagged pattern so the loaded value / the position of stored bytes identifies the address used; non-trivial = reference outcome Ok with an access, or an error outcome for an unmapped effective address".into(),
        assumptions: vec![
            "EA = (ERn + sext(d)) mod 2^24 etc. read literally from the property statement: a sum that wraps must access the wrapped address (not raise an error)".into(),
            "an unmapped effective address must yield an error and touch no other location (every Bus::write address is checked against the reference's write set; periodic full-memory comparison as backstop)".into(),
            "24-bit interior addresses and d:24 values come from declared covering sets; all 256 upper-byte values in both tiers".into(),
            "W/L operands at odd addresses and stores into port DDR/DR are left open".into(),
        ],
        units,
        extra: no_extra(),
        profiles: vec!["release"],
    }
}
