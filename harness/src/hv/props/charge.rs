//! C20 — per-instruction state charges = manual's bus-cycle mix x the implementation's own per-cycle cost.
use super::memform::*;
use crate::hv::dom;
use crate::hv::e1::{Case, Ctx};
use crate::hv::isa::{Fields, Isa, Mode, Sem, Sz, ROWS};
use crate::hv::mach::{ABWCR, ASTCR, DRCRA, WCRH, WCRL};
use crate::hv::sem::{set_r, M24};
use serde_json::json;
use crate::hv::shard::{no_extra, Prop, Tier, Unit};

/// (ABWCR, ASTCR, WCRH, WCRL, DRCRA)
pub const SETTINGS: [[u8; 5]; 6] = [
    [0xff, 0xfb, 0xff, 0xcf, 0xe0], // as run() programs them: area 0 8-bit 3-state 3 waits, area 2 DRAM space
    [0x00, 0xff, 0x00, 0x1b, 0x00], // 16-bit, 3-state, waits: area0=3 area1=2 area2=1
    [0x05, 0x00, 0x00, 0x00, 0x00], // areas 0,2 8-bit, 2-state
    [0xfa, 0x05, 0x00, 0x21, 0x20], // areas 0,2 16-bit 3-state, area0 1 wait, area 2 DRAM space with 2 waits
    [0x04, 0x01, 0x00, 0x32, 0x00], // area 0 16-bit 3-state 2 waits, area 2 8-bit 2-state
    [0x00, 0x00, 0x00, 0x00, 0x00], // everything 16-bit 2-state
];

const CODE_AREAS: [u32; 3] = [0xffc000, 0x410000, 0x000080];
const OPND_AREAS: [u32; 3] = [0xffd040, 0x480040, 0x000040];
/// incl. stack pointers at the first address above a region: the frame is in the region, SP itself is not
const STACKS: [u32; 6] = [0x00ffe000, 0x5a4c0000, 0x000000e0, 0x00ffff20, 0x00600000, 0x00000100];
/// for pops: the frame is the last four bytes of a region
const POP_STACKS: [u32; 5] = [0x00ffe000, 0x5a4c0000, 0x000000e0, 0x00ffff1c, 0x005ffffc];

fn apply_settings(c: &mut Case, s: &[u8; 5]) {
    c.patch(ABWCR, s[0]);
    c.patch(ASTCR, s[1]);
    c.patch(WCRH, s[2]);
    c.patch(WCRL, s[3]);
    c.patch(DRCRA, s[4]);
    c.check_cycles = true;
}

/// Enumerate the benign cases of one row at one code address.
fn cases_for_row(isa: &Isa, row: usize, pc: u32, out: &mut Vec<Case>) {
    let sem = ROWS[row].sem;
    let regs = dom::background_regs();
    if let Some(shape) = mem_shape(sem) {
        let sz = shape.sz;
        for &area in OPND_AREAS.iter() {
            for variant in 0..2u32 {
                let mut f = default_fields(sz);
                f.bitn = 3;
                let mut ea = area + 0x10 * variant;
                match shape.mode {
                    Mode::A8 => {
                        if area != OPND_AREAS[0] {
                            continue;
                        }
                        ea = 0xffff08 + 2 * variant;
                        f.data = ea & 0xff;
                    }
                    Mode::A16 => match abs_field(Mode::A16, ea) {
                        Some(x) => f.data = x,
                        None => continue,
                    },
                    Mode::A24 => f.data = ea,
                    Mode::D16 => f.data = if variant == 0 { 0x0010 } else { 0xfff0 },
                    Mode::D24 => f.data = if variant == 0 { 0x000100 } else { 0xffff00 },
                    _ => {}
                }
                if ea.wrapping_sub(pc) < 0x20 {
                    continue;
                }
                let base = base_for(&shape, ea, f.data, if variant == 0 { 0x00 } else { 0x6d });
                let value = if variant == 0 { 0x0000_0000 } else { 0xffff_ffff };
                let c = build_case(isa, row, &f, &shape, base, value, if shape.load { Some(ea) } else { None }, pc, 0x00, &regs);
                out.push(c);
            }
        }
        // every address register and several data registers (a charge must not depend on the register number)
        if matches!(shape.mode, Mode::Ind | Mode::Inc | Mode::D16 | Mode::D24) {
            for ra in 0..8u8 {
                for dreg in [0u8, 5, 7, 9, 15] {
                    let mut f = default_fields(sz);
                    f.bitn = 3;
                    f.ra = ra;
                    let d = if sz == Sz::L { dreg & 7 } else { dreg };
                    f.rs = d;
                    f.rd = d;
                    f.rn = dreg;
                    if shape.mode == Mode::D16 {
                        f.data = 0x0020;
                    }
                    if shape.mode == Mode::D24 {
                        f.data = 0x000200;
                    }
                    let ea = OPND_AREAS[(ra as usize + dreg as usize) % 3] + 0x40 + 0x10 * ra as u32;
                    if ea.wrapping_sub(pc) < 0x40 {
                        continue;
                    }
                    let base = base_for(&shape, ea, f.data, 0x00);
                    // several loaded values: when the data register is the address register itself the loaded
                    // value replaces the pointer, and the charge must still be taken at the address read
                    for value in [0x5a5a_5a5au32, 0x0000_0000, 0x0041_0008, 0x00ff_d008] {
                        let c = build_case(isa, row, &f, &shape, base, value, if shape.load { Some(ea) } else { None }, pc, 0x00, &regs);
                        out.push(c);
                        if !(shape.load && (d & 7) == ra) {
                            break;
                        }
                    }
                }
            }
        }
        // +/- forms whose register points at the first byte after on-chip RAM: the access itself is in RAM
        if shape.mode == Mode::Inc && shape.predec {
            let mut f = default_fields(sz);
            f.bitn = 3;
            let c = build_case(isa, row, &f, &shape, 0x00ffff20, 0x1234_5678, None, pc, 0x00, &regs);
            out.push(c);
            // ... and whose operand is the first byte / word / long of a region (the byte below belongs to another area)
            for start in [0x0040_0000u32, 0x00ff_bf20, 0x0000_0000] {
                let c = build_case(isa, row, &f, &shape, start + sz.bytes(), 0x1234_5678, None, pc, 0x00, &regs);
                out.push(c);
            }
        }
        // post-increment loads whose operand is the last byte / word / long of a region
        if shape.mode == Mode::Inc && !shape.predec && shape.load {
            let mut f = default_fields(sz);
            f.bitn = 3;
            for end in [0x0060_0000u32, 0x0000_0100] {
                let ea = end - sz.bytes();
                if ea.wrapping_sub(pc) < 0x20 {
                    continue;
                }
                let c = build_case(isa, row, &f, &shape, ea, 0x1234_5678, Some(ea), pc, 0x00, &regs);
                out.push(c);
            }
        }
        return;
    }
    let mk = |f: &Fields| -> Case {
        let code = isa.encode(row, f);
        let mut c = Case::new(pc, &code);
        c.er = regs;
        c.er[7] = STACKS[0];
        c
    };
    match sem {
        Sem::Mov { sz, .. } | Sem::Alu2 { sz, .. } | Sem::Alu1 { sz, .. } => {
            for (k, v) in [0u32, 1, 0x7fff_ffff, 0xffff_ffff, 0x8080_8080, 0x0000_00fe, 0x0001_0000, 0x1234_5678].into_iter().enumerate() {
                let mut f = Fields::default();
                f.rd = (2 + 3 * k as u8) & 15;
                f.rs = (1 + 5 * k as u8) & 15;
                if sz == Sz::L {
                    f.rd &= 7;
                    f.rs &= 7;
                }
                f.data = v ^ 0x5555_5555;
                let mut c = mk(&f);
                set_r(&mut c.er, sz, f.rd, v);
                c.ccr = (v as u8) & 0x7f;
                out.push(c);
            }
        }
        Sem::Adds(_) | Sem::Subs(_) | Sem::StcB => {
            for v in [0u32, 0xffff_ffff] {
                let mut f = Fields::default();
                f.rd = 2;
                let mut c = mk(&f);
                c.er[2] = v;
                out.push(c);
            }
        }
        Sem::Mulxu(_) | Sem::Divxu(_) => {
            for (a, b) in [(0u32, 1u32), (0x0000_1234, 0x7f), (0x0012_3456, 0xffff), (0x0000_00ff, 0xff)] {
                let mut f = Fields::default();
                f.rd = 2;
                f.rs = 9; // R1L / E1
                let mut c = mk(&f);
                c.er[2] = a;
                c.er[1] = (b << 16) | (b & 0xff) | 0xff00;
                out.push(c);
            }
        }
        Sem::Bit { by_reg: _, .. } => {
            for v in [0u32, 0xff] {
                let mut f = Fields::default();
                f.rd = 2;
                f.rn = 11;
                f.bitn = 5;
                let mut c = mk(&f);
                crate::hv::sem::set_b(&mut c.er, 2, v);
                c.ccr = v as u8 & 1;
                out.push(c);
            }
        }
        Sem::Bcc { wide } => {
            for cc in 0..16u8 {
                for ccr in [0x00u8, 0x04, 0x0a, 0x0f] {
                    let mut f = Fields::default();
                    f.cc = cc;
                    f.data = if wide { 0x0100 } else { 0x10 };
                    let mut c = mk(&f);
                    c.ccr = ccr;
                    out.push(c);
                }
            }
        }
        Sem::Jmp(mode) | Sem::Jsr(mode) => {
            let is_jsr = matches!(sem, Sem::Jsr(_));
            for &sp in STACKS.iter() {
                for &tgt in &[0x00ffc400u32, 0x00410400] {
                    let mut f = Fields::default();
                    f.ra = 2;
                    match mode {
                        Mode::A24 => f.data = tgt,
                        Mode::Mind => f.data = 0x40,
                        _ => {}
                    }
                    let mut c = mk(&f);
                    c.er[7] = sp;
                    c.er[2] = tgt;
                    if mode == Mode::Mind {
                        c.patch_l(0x40, tgt);
                    }
                    out.push(c);
                    if !is_jsr {
                        break;
                    }
                }
                if !is_jsr {
                    break;
                }
            }
        }
        Sem::Bsr { wide } => {
            for &sp in STACKS.iter() {
                let mut f = Fields::default();
                f.data = if wide { 0x0200 } else { 0x20 };
                let mut c = mk(&f);
                c.er[7] = sp;
                out.push(c);
            }
        }
        Sem::Rts | Sem::Rte => {
            for &sp in POP_STACKS.iter() {
                let mut c = mk(&Fields::default());
                c.er[7] = sp;
                c.patch_l(sp & M24, 0x2a00_0000 | 0x410600);
                out.push(c);
            }
        }
        Sem::Trapa => {
            for n in 1..4u8 {
                for &sp in STACKS.iter() {
                    let mut f = Fields::default();
                    f.trap = n;
                    let mut c = mk(&f);
                    c.er[7] = sp;
                    c.patch_l((8 + n as u32) * 4, 0x00ffc500 + 0x20 * n as u32);
                    out.push(c);
                }
            }
        }
        _ => {}
    }
}

/// One (background, code base) case of unit charges-through-run; returns the violation text and the instruction index.
pub fn charges_through_run_case(ctx: &mut Ctx, b: u8, base: u32) -> Option<(String, usize)> {
    use crate::cpu::verif_hooks;
                ctx.m = crate::hv::mach::Mach::new();
                for a in (0xfee000u32..=0xfee0ff).chain(0xffff20..=0xffffe9) {
                    if ![0xfee020u32, 0xfee021, 0xfee022, 0xfee023, 0xfee026].contains(&a) && !crate::hv::sem::is_port_reg(a) && !crate::hv::sem::is_timer_reg(a) {
                        let _ = ctx.m.cpu.bus.write(a, b);
                    }
                }
                ctx.m.shadow_from_real();
                // the program
                let unit = super::longprog::straight_code(&ctx.isa);
                let mut code: Vec<u8> = Vec::new();
                while code.len() + unit.len() < 0x2f00 {
                    code.extend_from_slice(&unit);
                }
                let end = base + code.len() as u32;
                code.extend_from_slice(&[0x40, 0xfe]);
                ctx.m.poke_bytes(base, &code);
                let start_er = [0x1111_0000u32, 0x2222_0000, base, 0x4444_0000, 0x8002_8003, 0x0000_1003, 0x8421_c3a5, 0x00ff_e000];
                {
                    let cpu = &mut ctx.m.cpu;
                    cpu.er = start_er;
                    cpu.exit_addr = end;
                    cpu.vh_set_ccr(0);
                    cpu.vh_set_state_sum(0);
                    cpu.bus.cpu_state_sum = 0;
                }
                let trace: std::rc::Rc<std::cell::RefCell<Vec<(u32, [u32; 8], u8, usize)>>> = std::rc::Rc::new(std::cell::RefCell::new(Vec::new()));
                let t2 = trace.clone();
                verif_hooks::set_run_loop_hook(Some(Box::new(move |cpu: &mut crate::cpu::Cpu| {
                    let mut t = t2.borrow_mut();
                    t.push((cpu.vh_pc(), cpu.er, cpu.vh_ccr(), cpu.vh_state_sum()));
                    t.len() > 6000
                })));
                let r = {
                    let cpu = &mut ctx.m.cpu;
                    std::panic::catch_unwind(std::panic::AssertUnwindSafe(|| cpu.run()))
                };
                verif_hooks::set_run_loop_hook(None);
                let final_sum = ctx.m.cpu.vh_state_sum();
                let mut t = trace.borrow().clone();
                t.push((ctx.m.cpu.vh_pc(), ctx.m.cpu.er, ctx.m.cpu.vh_ccr(), final_sum));
                let case_json = json!({"charges_through_run": {"background": b, "base": format!("{:x}", base)}});
                if !matches!(r, Ok(Ok(()))) {
                    let _ = case_json;
                    return Some((format!("the straight-line program did not run to its end through run(): {:?}", r.map(|x| x.map_err(|e| format!("{:#}", e))).map_err(|_| "panic")), 0));
                }
                // judge every instruction
                ctx.closed_form_cost = true;
                let mut factor = 0usize;
                for k in 0..t.len() - 1 {
                    let (pc, er, ccr, sum) = t[k];
                    let delta = t[k + 1].3 - sum;
                    let mut c = Case::new(pc, &[]);
                    c.code_len = 0;
                    c.code_sticky = true;
                    c.er = er;
                    c.ccr = ccr;
                    let (_, ro) = ctx.reference(&c, &crate::hv::sem::Defects::default());
                    ctx.st.cases += 1;
                    ctx.st.nontrivial += 1;
                    if let Some(exp) = ctx.expected_cycles(&ro) {
                        if factor == 0 && exp > 0 {
                            factor = delta / exp as usize;
                        }
                        if exp as usize * factor != delta || factor == 0 {
                            ctx.closed_form_cost = false;
                            return Some((format!("instruction {} at {:06x}: run() advanced the state count by {}, the form's cycle mix ({}) costs {} x {} = {}", k, pc, delta, crate::hv::e1::cyc_text(&ro), exp, factor, exp as usize * factor), k));
                        }
                    }
                }
                ctx.closed_form_cost = false;
                None
}

pub fn c20(_tier: Tier, _seed: u64) -> Prop {
    let mut units = Vec::new();
    for (ri, r) in ROWS.iter().enumerate() {
        if !r.imp {
            continue;
        }
        let name = r.name;
        units.push(Unit::new(
            &format!("{}", name),
            1,
            "benign operands (2-8 value variants, all address registers x 5 data registers for register-indirect forms, all 16 conditions for Bcc) x code in on-chip RAM / DRAM / vector area x operand, stack, vector in on-chip RAM / DRAM / vector area x 6 bus-controller settings; pre-decrement forms also with the register at the first byte after on-chip RAM and with the operand at the first bytes of DRAM / on-chip RAM / the vector area, post-increment loads at the last bytes of DRAM / the vector area",
            move |ctx, _| {
                ctx.cycles_only = true;
                for &pc in CODE_AREAS.iter() {
                    let mut cases = Vec::new();
                    cases_for_row(&ctx.isa, ri, pc, &mut cases);
                    for c0 in cases.iter() {
                        for s in SETTINGS.iter() {
                            let mut c = c0.clone();
                            apply_settings(&mut c, s);
                            ctx.run(&c);
                        }
                    }
                }
                ctx.cycles_only = false;
            },
        ));
    }
    // ---- charges as the real run() adds them up, with time passing for the peripherals between instructions and the
    //      rest of the I/O page filled with a background (a peripheral that steals cycles once it has been started)
    units.push(Unit::new(
        "charges-through-run",
        16,
        "a straight-line program of about 3000 instructions (every register / immediate form in turn) in DRAM and in on-chip RAM, executed by the real Cpu::run() (peripherals see the elapsed states after every instruction) on a machine whose I/O registers other than bus-controller, port and timer registers were filled through Bus::write with one of 16 background values: the state count must advance, for every instruction, by the form's cycle mix priced with the closed form of C19 (times run()'s constant factor)",
        move |ctx, chunk| {
            let b = crate::hv::dom::K16[chunk as usize];
            for &base in &[0x42_0000u32, 0xff_c100] {
                if let Some((msg, k)) = charges_through_run_case(ctx, b, base) {
                    ctx.custom_violation("c20run", msg, json!({"charges_through_run": {"background": b, "base": format!("{:x}", base)}, "instruction": k}), json!(null), json!(null));
                }
            }
            ctx.m = crate::hv::mach::Mach::new();
        },
    ));
    // ---- operand, stack and code addresses across the whole of DRAM and on-chip RAM
    units.push(Unit::new(
        "address-sweep",
        16,
        "operand (MOV.B/W load, MOV.L store through @ERn), stack (PUSH.L, JSR @ERn, RTS) and code (MOV.B #xx:8) at every multiple of H'100 in DRAM and on-chip RAM (8192 + 63 addresses) x 2 bus-controller settings under which DRAM, area 0 and on-chip RAM cost differently: the charge is the form's cycle mix priced with the closed form of C19 at exactly these addresses",
        move |ctx, chunk| {
            ctx.cycles_only = true;
            ctx.closed_form_cost = true;
            let mut addrs: Vec<u32> = (0x400000u32..0x600000).step_by(0x100).collect();
            addrs.extend((0xffc000u32..0xffff00).step_by(0x100));
            let isa = Isa::new();
            let enc = |n: &str, f: Fields| isa.encode(isa.row(n), &f);
            let forms: Vec<(Vec<u8>, u8)> = vec![
                (enc("MOV.B @ERs,Rd", Fields { ra: 1, rd: 10, ..Default::default() }), 0),
                (enc("MOV.W @ERs,Rd", Fields { ra: 1, rd: 2, ..Default::default() }), 0),
                (enc("MOV.L ERs,@ERd", Fields { rs: 2, ra: 1, ..Default::default() }), 0),
                (enc("MOV.L ERs,@-ERd", Fields { rs: 2, ra: 7, ..Default::default() }), 1),
                (enc("JSR @ERn", Fields { ra: 3, ..Default::default() }), 1),
                (enc("RTS", Fields::default()), 2),
                (enc("MOV.B #xx:8,Rd", Fields { rd: 8, data: 0x5a, ..Default::default() }), 3),
            ];
            for (i, &a) in addrs.iter().enumerate() {
                if i as u64 % 16 != chunk {
                    continue;
                }
                for s in [SETTINGS[0], SETTINGS[3]].iter() {
                    for (code, role) in forms.iter() {
                        let pc = if *role == 3 { a } else if a >= 0xff0000 { 0x410000 } else { 0xffc000 };
                        let mut c = Case::new(pc, code);
                        c.er = dom::background_regs();
                        c.er[1] = a;
                        c.er[3] = 0x00ffc800;
                        c.er[7] = 0x00ffe700;
                        match role {
                            1 => c.er[7] = a + 0x40,
                            2 => {
                                c.er[7] = a + 0x40;
                                c.patch_l(a + 0x40, 0x0041_0600);
                            }
                            _ => {}
                        }
                        apply_settings(&mut c, s);
                        ctx.run(&c);
                    }
                }
                if ctx.stop {
                    break;
                }
            }
            ctx.cycles_only = false;
            ctx.closed_form_cost = false;
        },
    ));
    Prop {
        id: "C20",
        level: "exploration",
        rule: "one case per implemented form x placement x bus setting x operand variant (full product, distinct by construction); the expected charge is the manual's (kind,count) list of the form evaluated with the implementation's own calc_state_with_addr(kind,1,address-of-that-cycle), so a C19 defect cannot surface here; non-trivial = the form executes and its charge is compared".into(),
        assumptions: vec![
            "cycle mixes (advanced mode) as listed in DESIGN.md Appendix B, written from the H8/300H programming manual's execution-state table".into(),
            "TRAPA #0 (MES gate, not an instruction of the manual) and operands in the on-chip I/O register ranges are excluded, as the property says".into(),
            "six bus-controller settings chosen so that area 0, area 2 and on-chip RAM have different per-kind costs in most of them".into(),
        ],
        units,
        extra: no_extra(),
        profiles: vec!["release"],
    }
}
