//! C17 — 8-bit timer channel 0 (engine E2): all register-write / elapsed-time histories up to a bound,
//! against a tick-by-tick reference with an existential phase, plus a twin real timer that receives the
//! same elapsed time one state at a time (partition equivalence).
use crate::cpu::Cpu;
use crate::hv::e1::Ctx;
use crate::hv::shard::{chunk_range, Prop, Tier, Unit};
use crate::modules::ModuleManager;
use serde_json::{json, Value};

const TCR: u32 = 0xffff80;
const TCSR: u32 = 0xffff82;
const TCORA: u32 = 0xffff84;
const TCORB: u32 = 0xffff86;
const TCNT: u32 = 0xffff88;
const IO2: u32 = 0xffff20;

#[derive(Clone, Copy, PartialEq, Eq, Hash, Debug)]
pub enum TAct {
    Elapse(u8),
    /// `k` times elapse(255): needed to see a /8192 tick within the depth bound
    Long(u8),
    Tcr(u8),
    Tcnt(u8),
    Tcora(u8),
    Tcorb(u8),
    Tcsr(u8),
    /// byte write to a register of the neighbouring channel 1 (TCR + offset, offset odd): nothing of channel 0 may change
    Chan1(u8, u8),
}

impl TAct {
    pub fn text(&self) -> String {
        match self {
            TAct::Elapse(n) => format!("elapse({})", n),
            TAct::Long(k) => format!("elapse(255)x{}", k),
            TAct::Tcr(v) => format!("TCR={:02x}", v),
            TAct::Tcnt(v) => format!("TCNT={:02x}", v),
            TAct::Tcora(v) => format!("TCORA={:02x}", v),
            TAct::Tcorb(v) => format!("TCORB={:02x}", v),
            TAct::Tcsr(v) => format!("TCSR={:02x}", v),
            TAct::Chan1(o, v) => format!("CH1+{}={:02x}", o, v),
        }
    }
    pub fn parse(s: &str) -> Option<TAct> {
        if let Some(r) = s.strip_prefix("elapse(255)x") {
            return Some(TAct::Long(r.parse().ok()?));
        }
        if let Some(r) = s.strip_prefix("elapse(") {
            return Some(TAct::Elapse(r.trim_end_matches(')').parse().ok()?));
        }
        let (l, r) = s.split_once('=')?;
        let v = u8::from_str_radix(r, 16).ok()?;
        Some(match l {
            "TCR" => TAct::Tcr(v),
            "TCNT" => TAct::Tcnt(v),
            "TCORA" => TAct::Tcora(v),
            "TCORB" => TAct::Tcorb(v),
            "TCSR" => TAct::Tcsr(v),
            x if x.starts_with("CH1+") => TAct::Chan1(x[4..].parse().ok()?, v),
            _ => return None,
        })
    }
}

fn divisor(tcr: u8) -> Option<u16> {
    match tcr & 7 {
        1 => Some(8),
        2 => Some(64),
        3 => Some(8192),
        _ => None,
    }
}

/// One hypothesis of the reference: which clear-timing variant, which residuals are still feasible.
#[derive(Clone, PartialEq, Eq, Hash, Debug)]
struct Hyp {
    /// false: TCNT is cleared on the count that produces the selected match (TCNT never shows TCORx);
    /// true: cleared on the following count (period TCORx + 1, the hardware manual's description)
    late_clear: bool,
    pending_clear: bool,
    lo: u16,
    hi: u16, // feasible residual interval (inclusive), 0 <= lo <= hi < divisor
    tcnt: u8,
    tcsr: u8,
}

#[derive(Clone, PartialEq, Eq, Hash, Debug)]
pub struct RefTimer {
    tcr: u8,
    tcora: u8,
    tcorb: u8,
    /// CKS = 4..7 (external / cascade): the property says nothing until a defined clock is selected again
    suspended: bool,
    hyps: Vec<Hyp>,
}

impl RefTimer {
    pub fn new() -> RefTimer {
        RefTimer { tcr: 0, tcora: 0, tcorb: 0, suspended: false, hyps: vec![Hyp { late_clear: false, pending_clear: false, lo: 0, hi: 0, tcnt: 0, tcsr: 0 }, Hyp { late_clear: true, pending_clear: false, lo: 0, hi: 0, tcnt: 0, tcsr: 0 }] }
    }

    /// one count under hypothesis h; pushes raised vectors
    fn tick(&self, h: &mut Hyp, irqs: &mut Vec<u8>) {
        let cclr = (self.tcr >> 3) & 3;
        let (mut new, mut ovf) = h.tcnt.overflowing_add(1);
        if h.late_clear && h.pending_clear {
            new = 0;
            ovf = false;
            h.pending_clear = false;
        }
        if new == self.tcora {
            h.tcsr |= 0x40;
            if self.tcr & 0x40 != 0 {
                irqs.push(36);
            }
            if cclr == 1 {
                if h.late_clear {
                    h.pending_clear = true;
                } else {
                    new = 0;
                }
            }
        }
        if new == self.tcorb {
            h.tcsr |= 0x80;
            if self.tcr & 0x80 != 0 {
                irqs.push(37);
            }
            if cclr == 2 {
                if h.late_clear {
                    h.pending_clear = true;
                } else {
                    new = 0;
                }
            }
        }
        if ovf {
            h.tcsr |= 0x20;
            if self.tcr & 0x20 != 0 {
                irqs.push(39);
            }
        }
        h.tcnt = new;
    }

    /// Elapsed time: keep the hypotheses (split by feasible tick count) that predict exactly what was observed.
    /// Returns Err(text) when no constant phase explains the observation.
    fn elapse(&mut self, n: u32, obs_tcnt: u8, obs_tcsr: u8, obs_irqs: &[u8]) -> Result<(), String> {
        if self.suspended {
            return Ok(());
        }
        let d = match divisor(self.tcr) {
            Some(d) => d as u32,
            None => {
                // no clock selected: nothing may change
                let h = &self.hyps[0];
                if obs_tcnt != h.tcnt || obs_tcsr != h.tcsr || !obs_irqs.is_empty() {
                    return Err(format!("no clock selected, yet TCNT/TCSR/requests changed: TCNT {:02x}->{:02x}, TCSR {:02x}->{:02x}, requests {:?}", h.tcnt, obs_tcnt, h.tcsr, obs_tcsr, obs_irqs));
                }
                return Ok(());
            }
        };
        let cclr = (self.tcr >> 3) & 3;
        if (cclr == 1 || cclr == 2) && (self.tcora == self.tcorb || self.tcora == 0 || self.tcorb == 0) {
            // simultaneous events with a clear source selected: left open by the quantifier; re-synchronise
            let dd = d as u16;
            self.hyps = vec![
                Hyp { late_clear: false, pending_clear: false, lo: 0, hi: dd - 1, tcnt: obs_tcnt, tcsr: obs_tcsr },
                Hyp { late_clear: true, pending_clear: false, lo: 0, hi: dd - 1, tcnt: obs_tcnt, tcsr: obs_tcsr },
                Hyp { late_clear: true, pending_clear: true, lo: 0, hi: dd - 1, tcnt: obs_tcnt, tcsr: obs_tcsr },
            ];
            return Ok(());
        }
        let mut next: Vec<Hyp> = Vec::new();
        let mut predictions: Vec<String> = Vec::new();
        let mut sorted_obs = obs_irqs.to_vec();
        sorted_obs.sort();
        for h in self.hyps.iter() {
            let kmin = (h.lo as u32 + n) / d;
            let kmax = (h.hi as u32 + n) / d;
            for k in kmin..=kmax {
                // residuals r in [lo,hi] with floor((r+n)/d) == k
                let rlo = (k * d).saturating_sub(n).max(h.lo as u32);
                let rhi = ((k + 1) * d - 1).saturating_sub(n).min(h.hi as u32);
                if rlo > rhi {
                    continue;
                }
                let mut g = h.clone();
                let mut irqs = Vec::new();
                for _ in 0..k {
                    self.tick(&mut g, &mut irqs);
                }
                irqs.sort();
                g.lo = (rlo + n - k * d) as u16;
                g.hi = (rhi + n - k * d) as u16;
                if g.tcnt == obs_tcnt && g.tcsr == obs_tcsr && irqs == sorted_obs {
                    if !next.contains(&g) {
                        next.push(g);
                    }
                } else if predictions.len() < 4 {
                    predictions.push(format!("{} counts -> TCNT {:02x} TCSR {:02x} requests {:?} ({} clear)", k, g.tcnt, g.tcsr, irqs, if g.late_clear { "late" } else { "immediate" }));
                }
            }
        }
        if next.is_empty() {
            return Err(format!(
                "no constant phase explains the observation after {} more states at divisor {}: observed TCNT {:02x} TCSR {:02x} requests {:?}; feasible predictions: {:?}",
                n, d, obs_tcnt, obs_tcsr, sorted_obs, predictions
            ));
        }
        // merge hypotheses that differ only in adjacent residual intervals
        next.sort_by_key(|h| (h.late_clear, h.pending_clear, h.tcnt, h.tcsr, h.lo));
        let mut merged: Vec<Hyp> = Vec::new();
        for h in next {
            if let Some(l) = merged.last_mut() {
                if l.late_clear == h.late_clear && l.pending_clear == h.pending_clear && l.tcnt == h.tcnt && l.tcsr == h.tcsr && h.lo <= l.hi.saturating_add(1) {
                    l.hi = l.hi.max(h.hi);
                    continue;
                }
            }
            merged.push(h);
        }
        self.hyps = merged;
        Ok(())
    }

    fn dedup(&mut self) {
        let mut v: Vec<Hyp> = Vec::new();
        for h in self.hyps.drain(..) {
            if !v.contains(&h) {
                v.push(h);
            }
        }
        self.hyps = v;
    }

    /// CPU write to a timer register.
    fn write(&mut self, a: &TAct, impl_tcnt: u8, impl_tcsr: u8) {
        match *a {
            TAct::Tcr(v) => {
                let old = self.tcr;
                self.tcr = v;
                if v & 7 >= 4 {
                    self.suspended = true;
                    return;
                }
                if self.suspended {
                    // a defined clock again: re-synchronise with what the timer shows now
                    self.suspended = false;
                    self.hyps = vec![
                        Hyp { late_clear: false, pending_clear: false, lo: 0, hi: 0, tcnt: impl_tcnt, tcsr: impl_tcsr },
                        Hyp { late_clear: true, pending_clear: false, lo: 0, hi: 0, tcnt: impl_tcnt, tcsr: impl_tcsr },
                        Hyp { late_clear: true, pending_clear: true, lo: 0, hi: 0, tcnt: impl_tcnt, tcsr: impl_tcsr },
                    ];
                }
                if let Some(d) = divisor(v) {
                    if divisor(old) != Some(d) {
                        // a clock is (re)selected: any phase 0 <= p < divisor
                        for h in self.hyps.iter_mut() {
                            h.lo = 0;
                            h.hi = d - 1;
                        }
                    }
                } else {
                    for h in self.hyps.iter_mut() {
                        h.lo = 0;
                        h.hi = 0;
                    }
                }
                // a pending (late) clear whose source is deselected: both continuations are admitted
                let mut extra = Vec::new();
                for h in self.hyps.iter() {
                    if h.pending_clear {
                        let mut g = h.clone();
                        g.pending_clear = false;
                        extra.push(g);
                    }
                }
                self.hyps.extend(extra);
                self.dedup();
            }
            TAct::Tcnt(v) => {
                let mut extra = Vec::new();
                for h in self.hyps.iter_mut() {
                    h.tcnt = v;
                    if h.pending_clear {
                        let mut g = h.clone();
                        g.pending_clear = false;
                        extra.push(g);
                    }
                }
                self.hyps.extend(extra);
                self.dedup();
            }
            TAct::Tcora(v) => self.tcora = v,
            TAct::Tcorb(v) => self.tcorb = v,
            TAct::Tcsr(v) => {
                for h in self.hyps.iter_mut() {
                    h.tcsr = v;
                }
                self.dedup();
            }
            _ => {}
        }
    }
}

pub struct TimerSys {
    pub cpu: Cpu,
    pub twin: Cpu,
    pub r: RefTimer,
}

#[derive(Clone)]
pub struct TSnap {
    mm: ModuleManager,
    mm2: ModuleManager,
    regs: [u8; 10],
    regs2: [u8; 10],
    r: RefTimer,
}

fn reg(cpu: &Cpu, a: u32) -> u8 {
    cpu.bus.io_registrs2[(a - IO2) as usize]
}

impl TimerSys {
    pub fn new() -> TimerSys {
        TimerSys { cpu: Cpu::new(), twin: Cpu::new(), r: RefTimer::new() }
    }
    pub fn snapshot(&self) -> TSnap {
        let mut regs = [0u8; 10];
        let mut regs2 = [0u8; 10];
        for k in 0..10 {
            regs[k] = self.cpu.bus.io_registrs2[(TCR - IO2) as usize + k];
            regs2[k] = self.twin.bus.io_registrs2[(TCR - IO2) as usize + k];
        }
        TSnap { mm: self.cpu.vh_module_manager_clone(), mm2: self.twin.vh_module_manager_clone(), regs, regs2, r: self.r.clone() }
    }
    pub fn restore(&mut self, s: &TSnap) {
        self.cpu.vh_module_manager_restore(s.mm.clone());
        self.twin.vh_module_manager_restore(s.mm2.clone());
        for k in 0..10 {
            self.cpu.bus.io_registrs2[(TCR - IO2) as usize + k] = s.regs[k];
            self.twin.bus.io_registrs2[(TCR - IO2) as usize + k] = s.regs2[k];
        }
        self.cpu.vh_clear_pending_interrupts();
        self.twin.vh_clear_pending_interrupts();
        self.r = s.r.clone();
    }

    pub fn apply(&mut self, a: &TAct) -> Result<(), String> {
        let r = std::panic::catch_unwind(std::panic::AssertUnwindSafe(|| self.apply_inner(a)));
        match r {
            Ok(x) => x,
            Err(_) => Err(format!("{}: the emulator panicked @ {}", a.text(), crate::hv::panics::take_last_location())),
        }
    }

    fn apply_inner(&mut self, a: &TAct) -> Result<(), String> {
        let (n_states, reps): (u32, u32) = match *a {
            TAct::Elapse(n) => (n as u32, 1),
            TAct::Long(k) => (255, k as u32),
            _ => (0, 0),
        };
        if reps > 0 {
            for _ in 0..reps {
                self.cpu.vh_update_modules(n_states as u16).map_err(|e| format!("update_modules failed: {}", e))?;
                if reps == 1 {
                    // the finest partition: one state at a time
                    for _ in 0..n_states {
                        self.twin.vh_update_modules(1u16).map_err(|e| format!("update_modules failed: {}", e))?;
                    }
                } else {
                    // long stretches: a different, coarser partition (pieces of 7 and a rest of 3)
                    let mut left = n_states;
                    while left > 0 {
                        let p = left.min(7);
                        self.twin.vh_update_modules(p as u16).map_err(|e| format!("update_modules failed: {}", e))?;
                        left -= p;
                    }
                }
            }
            let irqs = self.cpu.vh_pending_interrupts();
            self.cpu.vh_clear_pending_interrupts();
            let mut irqs2 = self.twin.vh_pending_interrupts();
            self.twin.vh_clear_pending_interrupts();
            let (tcnt, tcsr) = (reg(&self.cpu, TCNT), reg(&self.cpu, TCSR));
            // (1) partition equivalence: the same elapsed time delivered one state at a time
            let (tcnt2, tcsr2) = (reg(&self.twin, TCNT), reg(&self.twin, TCSR));
            let mut s1 = irqs.clone();
            s1.sort();
            irqs2.sort();
            if !self.r.suspended && (tcnt != tcnt2 || tcsr != tcsr2 || s1 != irqs2) {
                return Err(format!(
                    "{}: the same elapsed time split into single states gives TCNT {:02x} TCSR {:02x} requests {:?}, delivered at once TCNT {:02x} TCSR {:02x} requests {:?}",
                    a.text(), tcnt2, tcsr2, irqs2, tcnt, tcsr, s1
                ));
            }
            // (2) tick-by-tick reference with existential phase
            self.r.elapse(n_states * reps, tcnt, tcsr, &irqs).map_err(|e| format!("{}: {}", a.text(), e))?;
            return Ok(());
        }
        let (addr, v) = match *a {
            TAct::Tcr(v) => (TCR, v),
            TAct::Tcnt(v) => (TCNT, v),
            TAct::Tcora(v) => (TCORA, v),
            TAct::Tcorb(v) => (TCORB, v),
            TAct::Tcsr(v) => (TCSR, v),
            TAct::Chan1(o, v) => (TCR + o as u32, v),
            _ => unreachable!(),
        };
        self.cpu.bus.write(addr, v).map_err(|e| format!("{}: {}", a.text(), e))?;
        self.twin.bus.write(addr, v).map_err(|e| format!("{}: {}", a.text(), e))?;
        // a register write never raises a request and stores the value
        if !self.cpu.vh_pending_interrupts().is_empty() {
            return Err(format!("{}: a register write raised requests {:?}", a.text(), self.cpu.vh_pending_interrupts()));
        }
        if reg(&self.cpu, addr) != v {
            return Err(format!("{}: register reads back {:02x}", a.text(), reg(&self.cpu, addr)));
        }
        let (tcnt, tcsr) = (reg(&self.cpu, TCNT), reg(&self.cpu, TCSR));
        self.r.write(a, tcnt, tcsr);
        if !self.r.suspended {
            // the other registers are untouched by a write
            let h = &self.r.hyps[0];
            if tcnt != h.tcnt || tcsr != h.tcsr {
                return Err(format!("{}: TCNT/TCSR changed by a write to another register (TCNT {:02x} expected {:02x}, TCSR {:02x} expected {:02x})", a.text(), tcnt, h.tcnt, tcsr, h.tcsr));
            }
        }
        Ok(())
    }
}

fn runtime_actions(full: bool) -> Vec<TAct> {
    let mut v = Vec::new();
    let el: &[u8] = if full { &[1, 2, 7, 8, 9, 63, 64, 65, 127, 200, 255] } else { &[1, 7, 8, 9, 64, 255] };
    for &n in el {
        v.push(TAct::Elapse(n));
    }
    v.push(TAct::Long(33));
    if full {
        v.push(TAct::Long(32));
    }
    // clock changes and enable flips (applied on top of whatever TCR holds: expressed as absolute values)
    for t in if full { vec![0x01u8, 0x02, 0x03, 0x00, 0xe9, 0xf2, 0x4b, 0x04] } else { vec![0x01, 0x02, 0x03, 0x00, 0xe9] } {
        v.push(TAct::Tcr(t));
    }
    v.push(TAct::Tcsr(0x00));
    // the other channel's control register (H'FFFF81), written as a byte: channel 0 keeps its clock, enables and phase
    // (C17-M11: registers decoded on their word address)
    v.push(TAct::Chan1(1, 0x03));
    if full {
        v.push(TAct::Chan1(1, 0x00));
        v.push(TAct::Chan1(9, 0x55));
        v.push(TAct::Tcnt(0xfe));
        v.push(TAct::Tcnt(0x00));
        v.push(TAct::Tcora(0x02));
        v.push(TAct::Tcorb(0x01));
    }
    v
}

/// (TCORA, TCORB, TCNT) start values; TCORA != TCORB and both non-zero (needed whenever a clear source is selected)
const COMBOS: [(u8, u8, u8); 12] = [
    (0x01, 0x02, 0x00),
    (0x02, 0x01, 0x00),
    (0x80, 0xff, 0x7e),
    (0xff, 0x80, 0xfe),
    (0x03, 0xfe, 0xfd),
    (0x10, 0x08, 0x07),
    (0xff, 0x01, 0xff),
    (0x02, 0xff, 0x01),
    (0x05, 0x04, 0x05),
    (0x40, 0x41, 0x3f),
    (0x01, 0xff, 0x00),
    (0xfe, 0xfd, 0xfc),
];

fn dfs(ctx: &mut Ctx, sys: &mut TimerSys, acts: &[TAct], depth: usize, path: &mut Vec<TAct>) {
    if depth == 0 || ctx.stop {
        return;
    }
    let snap = sys.snapshot();
    for a in acts {
        path.push(*a);
        ctx.st.cases += 1;
        ctx.st.nontrivial += 1;
        let r = sys.apply(a);
        {
            let h = ((reg(&sys.cpu, TCNT) as usize) << 8 ^ (reg(&sys.cpu, TCSR) as usize) ^ (reg(&sys.cpu, TCR) as usize) * 257) & 0xffff;
            ctx.st.outcome_bits[h / 64] |= 1 << (h % 64);
        }
        match r {
            Ok(()) => dfs(ctx, sys, acts, depth - 1, path),
            Err(m) => {
                let p: Vec<String> = path.iter().map(|x| x.text()).collect();
                ctx.custom_violation("c17", m, json!({"path": p}), json!(null), json!(null));
            }
        }
        path.pop();
        sys.restore(&snap);
        if ctx.stop {
            return;
        }
    }
}

fn setup(ctx: &mut Ctx, sys: &mut TimerSys, tcr: u8, combo: (u8, u8, u8), path: &mut Vec<TAct>) -> bool {
    for a in [TAct::Tcora(combo.0), TAct::Tcorb(combo.1), TAct::Tcnt(combo.2), TAct::Tcr(tcr)] {
        path.push(a);
        ctx.st.cases += 1;
        if let Err(m) = sys.apply(&a) {
            let p: Vec<String> = path.iter().map(|x| x.text()).collect();
            ctx.custom_violation("c17", m, json!({"path": p}), json!(null), json!(null));
            return false;
        }
    }
    true
}

fn c17_units(tier: Tier) -> Vec<Unit> {
    let thorough = tier == Tier::Thorough;
    let mut units = Vec::new();
    // ---- A: every TCR value x 12 register combos x every runtime sequence up to depth 3 (4 thorough) over the full alphabet
    {
        let depth = if thorough { 4 } else { 3 };
        let acts = runtime_actions(true);
        let dom = format!(
            "all 256 TCR values x 12 (TCORA,TCORB,TCNT) start combinations x every sequence of up to {} actions over {} runtime actions (elapse 1..255, 32/33 x 255, clock changes, enable flips, TCNT/TCORx/TCSR writes): no state merging",
            depth,
            acts.len()
        );
        units.push(Unit::new("config-x-runtime", 256, &dom, move |ctx, chunk| {
            let tcr = chunk as u8;
            let acts = runtime_actions(true);
            for combo in COMBOS.iter() {
                let mut sys = TimerSys::new();
                let mut path = Vec::new();
                if setup(ctx, &mut sys, tcr, *combo, &mut path) {
                    dfs(ctx, &mut sys, &acts, depth, &mut path);
                }
            }
            ctx.sample(json!({"path": ["TCORA=01", "TCORB=02", "TCNT=00", format!("TCR={:02x}", tcr), "elapse(255)x33", "TCR=01", "elapse(1)"]}));
        }));
    }
    // ---- B: deeper histories over a smaller alphabet
    {
        let depth = if thorough { 6 } else { 5 };
        let tcrs: Vec<u8> = vec![0x01, 0x02, 0x03, 0x09, 0x0a, 0x0b, 0x11, 0x12, 0x13, 0xe1, 0xe2, 0xe3, 0xe9, 0xea, 0xeb, 0xf1, 0xf2, 0xf3, 0x41, 0x82, 0x23, 0x00, 0x19, 0x04];
        let acts = runtime_actions(false);
        let combos: Vec<(u8, u8, u8)> = vec![COMBOS[0], COMBOS[3], COMBOS[4], COMBOS[6]];
        let total = (tcrs.len() * combos.len() * acts.len()) as u64;
        let dom = format!(
            "{} TCR values (every clock select, every clear source, each enable bit) x {} start combinations x every sequence of up to {} actions over {} runtime actions, split by the first action",
            tcrs.len(),
            combos.len(),
            depth,
            acts.len()
        );
        units.push(Unit::new("deep", total, &dom, move |ctx, chunk| {
            let acts = runtime_actions(false);
            let ai = (chunk as usize) % acts.len();
            let ci = (chunk as usize / acts.len()) % combos.len();
            let ti = chunk as usize / acts.len() / combos.len();
            let mut sys = TimerSys::new();
            let mut path = Vec::new();
            if !setup(ctx, &mut sys, tcrs[ti], combos[ci], &mut path) {
                return;
            }
            let first = acts[ai];
            path.push(first);
            ctx.st.cases += 1;
            match sys.apply(&first) {
                Ok(()) => dfs(ctx, &mut sys, &acts, depth - 1, &mut path),
                Err(m) => {
                    let p: Vec<String> = path.iter().map(|x| x.text()).collect();
                    ctx.custom_violation("c17", m, json!({"path": p}), json!(null), json!(null));
                }
            }
        }));
    }
    // ---- C: every compare value (the histories above use 12 start combinations)
    {
        let tcnts: Vec<u8> = if thorough { (0..=255u8).collect() } else { crate::hv::dom::K16.to_vec() };
        let dom = format!(
            "every TCORA value 1-255 x 3 TCORB values (TCORA+1, TCORA-1, the complement; non-zero and different) x {} TCNT start values x 8 TCR values (each clear source, enables on/off, /8 and /64) x the history elapse(9), elapse(255), 33 x 255 states, TCSR=00, elapse(200): the counter passes every value at least four times under /8",
            tcnts.len()
        );
        units.push(Unit::new("all-compare-values", 255, &dom, move |ctx, chunk| {
            let a = chunk as u8 + 1;
            let mut bs: Vec<u8> = vec![a.wrapping_add(1), a.wrapping_sub(1), !a];
            bs.retain(|&b| b != 0 && b != a);
            bs.dedup();
            for &b in bs.iter() {
                for &tcr in &[0x01u8, 0x09, 0x11, 0xe9, 0xf1, 0xc1, 0x0a, 0xea] {
                    for &t in tcnts.iter() {
                        let mut sys = TimerSys::new();
                        let mut path = Vec::new();
                        if !setup(ctx, &mut sys, tcr, (a, b, t), &mut path) {
                            continue;
                        }
                        for act in [TAct::Elapse(9), TAct::Elapse(255), TAct::Long(33), TAct::Tcsr(0x00), TAct::Elapse(200)] {
                            path.push(act);
                            ctx.st.cases += 1;
                            ctx.st.nontrivial += 1;
                            if let Err(m) = sys.apply(&act) {
                                let p: Vec<String> = path.iter().map(|x| x.text()).collect();
                                ctx.custom_violation("c17", m, json!({"path": p}), json!(null), json!(null));
                                break;
                            }
                        }
                        if ctx.stop {
                            return;
                        }
                    }
                }
            }
        }));
    }
    // ---- C2: free-running counter (no clear source): zero and equal compare values are inside the quantifier
    {
        let tcnts: Vec<u8> = if thorough { (0..=255u8).collect() } else { crate::hv::dom::K16.to_vec() };
        let dom = format!(
            "no counter-clear source selected (TCR in {{01, e1, c1, 21, e2}}): every TCORA value 0-255 x TCORB in {{TCORA (equal), 00, TCORA+1, ff}} x {} TCNT start values x the history elapse(9), elapse(255), 33 x 255 states, TCSR=00, elapse(200): a compare value of zero matches on the wrap H'FF -> H'00 together with the overflow, equal compare values match together",
            tcnts.len()
        );
        units.push(Unit::new("free-running-compare-values", 256, &dom, move |ctx, chunk| {
            let a = chunk as u8;
            let mut bs: Vec<u8> = vec![a, 0x00, a.wrapping_add(1), 0xff];
            bs.sort();
            bs.dedup();
            for &b in bs.iter() {
                for &tcr in &[0x01u8, 0xe1, 0xc1, 0x21, 0xe2] {
                    for &t in tcnts.iter() {
                        let mut sys = TimerSys::new();
                        let mut path = Vec::new();
                        if !setup(ctx, &mut sys, tcr, (a, b, t), &mut path) {
                            continue;
                        }
                        for act in [TAct::Elapse(9), TAct::Elapse(255), TAct::Long(33), TAct::Tcsr(0x00), TAct::Elapse(200)] {
                            path.push(act);
                            ctx.st.cases += 1;
                            ctx.st.nontrivial += 1;
                            if let Err(m) = sys.apply(&act) {
                                let p: Vec<String> = path.iter().map(|x| x.text()).collect();
                                ctx.custom_violation("c17", m, json!({"path": p}), json!(null), json!(null));
                                break;
                            }
                        }
                        if ctx.stop {
                            return;
                        }
                    }
                }
            }
        }));
    }
    // ---- D: a clock that stays selected for more than 2^32 states
    {
        let divs: Vec<(u8, u64)> = if thorough { vec![(0x23, 8192), (0x22, 64), (0x21, 8)] } else { vec![(0x23, 8192), (0x22, 64)] };
        let nd = divs.len() as u64;
        units.push(Unit::new(
            "long-run",
            nd,
            "one internal clock (divisor 8192, 64; thorough also 8) with the overflow interrupt enabled stays selected for 2^32 + 2^25 states, charged in 16.9 million pieces of 255 states: after every piece the number of counts so far must equal floor((E + p) / divisor) for one constant phase p (the set of phases still possible is narrowed piece by piece and must never become empty), every wrap H'FF -> H'00 sets OVF and raises exactly one request (the flag is cleared and the request taken out as soon as they are seen)",
            move |ctx, chunk| {
                let (tcr, div) = divs[chunk as usize];
                if let Some(msg) = long_run_case(tcr, div, (1u64 << 32) + (1 << 25)) {
                    ctx.custom_violation("c17", msg, json!({"long_run": [tcr, div]}), json!(null), json!(null));
                }
                ctx.st.cases += ((1u64 << 32) + (1 << 25)) / 255;
                ctx.st.nontrivial += 1;
            },
        ));
    }
    let _ = chunk_range;
    units
}

/// One long run (unit long-run): TCR = `tcr` (an internal clock with divisor `div`), `total` states in pieces of 255.
pub fn long_run_case(tcr: u8, div: u64, total: u64) -> Option<String> {
    let mut cpu = Cpu::new();
    let _ = cpu.bus.write(TCORA, 0xfe);
    let _ = cpu.bus.write(TCORB, 0xfd);
    let _ = cpu.bus.write(TCNT, 0x00);
    let _ = cpu.bus.write(TCR, tcr);
    let mut e: u64 = 0;
    let mut counts: u64 = 0; // counts observed so far
    let mut last_tcnt = reg(&cpu, TCNT);
    let (mut p_lo, mut p_hi) = (0i128, div as i128 - 1);
    let mut overflows: u64 = 0;
    let mut requests: u64 = 0;
    let mut pieces: u64 = 0;
    while e < total {
        if cpu.vh_update_modules(255).is_err() {
            return Some(format!("update_modules failed after {} states", e));
        }
        e += 255;
        let t = reg(&cpu, TCNT);
        let d = t.wrapping_sub(last_tcnt) as u64; // at most 255 / 8 = 31 counts per piece
        if t < last_tcnt {
            overflows += 1;
        }
        last_tcnt = t;
        counts += d;
        // floor((e + p) / div) == counts  <=>  counts*div - e <= p <= (counts+1)*div - e - 1
        let lo = counts as i128 * div as i128 - e as i128;
        let hi = (counts as i128 + 1) * div as i128 - e as i128 - 1;
        p_lo = p_lo.max(lo);
        p_hi = p_hi.min(hi);
        if p_lo > p_hi {
            return Some(format!("divisor {}: {} states after the clock was selected {} counts have been made; no constant phase 0 <= p < {} explains this together with the earlier observations (a count was lost, gained or bunched)", div, e, counts, div));
        }
        let tcsr = reg(&cpu, TCSR);
        let wrapped_now = tcsr & 0x20 != 0;
        if wrapped_now {
            let _ = cpu.bus.write(TCSR, 0x00);
        }
        pieces += 1;
        // the pending list is looked at whenever a wrap was seen and every 4096th piece (a request without a wrap)
        let pend = if wrapped_now || requests != overflows || pieces % 4096 == 0 { cpu.vh_pending_interrupts() } else { Vec::new() };
        if !pend.is_empty() {
            if pend.iter().any(|&v| v != 39) {
                return Some(format!("divisor {}: unexpected requests {:?} after {} states (only the overflow interrupt is enabled)", div, pend, e));
            }
            requests += pend.len() as u64;
            cpu.vh_clear_pending_interrupts();
        }
        if requests != overflows {
            return Some(format!("divisor {}: after {} states the counter has wrapped {} times but {} overflow requests were raised", div, e, overflows, requests));
        }
    }
    None
}

pub fn c17(tier: Tier, _seed: u64) -> Prop {
    Prop {
        id: "C17",
        level: "model_checking",
        rule: "every transition applies one action (elapsed states, or a CPU write to TCR/TCNT/TCORA/TCORB/TCSR through Bus::write) to the real timer, to a twin real timer that receives elapsed time one state at a time, and to the reference; all sequences up to the depth bound are enumerated without merging; non-trivial = every transition".into(),
        assumptions: vec![
            "reference is black-box: the phase is the set of residuals still consistent with everything observed since the clock was selected (empty set = violation: lost, extra or bunched ticks); the moment the selected compare match clears TCNT (matching count vs following count) is a second existential parameter".into(),
            "partition equivalence is decided on a second real timer that receives every elapse(n) one state at a time (the finest partition) and the 32/33 x 255 stretches in pieces of 7".into(),
            "CKS 4-7 (external clock / cascade) suspends the oracle until a defined clock is selected again; TCORA != TCORB and both non-zero in every start combination with a clear source; unit free-running-compare-values covers zero and equal compare values without a clear source".into(),
            "depth bound: 4 set-up writes + 3 (quick) / 4 (thorough) runtime actions over 26 actions for all 256 TCR values; + 5 / 6 actions over 13 actions for 24 TCR values".into(),
        ],
        units: {
            let mut u = c17_units(tier);
            // the timer as run() drives it: guest with an overflow handler across sync thresholds, every loop iteration
            // compared with a twin timer stepped by the harness (units shared with C13)
            u.extend(super::runloop::c13(tier, 0).units.into_iter().filter(|x| x.name.starts_with("shape6/")));
            u
        },
        extra: Box::new(|m| {
            let mut trans = 0u64;
            for (_, st) in m.iter() {
                trans += st.cases;
            }
            json!({"states": trans.max(1), "transitions": trans.max(1), "traces_validated_against_impl": trans})
        }),
        profiles: vec!["release"],
    }
}

pub fn replay_c17(case: &Value) -> bool {
    if let Some(lr) = case["long_run"].as_array() {
        return match long_run_case(lr[0].as_u64().unwrap_or(0x23) as u8, lr[1].as_u64().unwrap_or(8192), (1u64 << 32) + (1 << 25)) {
            Some(m) => {
                println!("FAILS: {}", m);
                false
            }
            None => true,
        };
    }
    let mut sys = TimerSys::new();
    let mut ok = true;
    if let Some(p) = case["path"].as_array() {
        for s in p {
            if let Some(a) = s.as_str().and_then(TAct::parse) {
                match sys.apply(&a) {
                    Ok(()) => println!("  {:<16} ok   TCNT={:02x} TCSR={:02x}", a.text(), reg(&sys.cpu, TCNT), reg(&sys.cpu, TCSR)),
                    Err(m) => {
                        println!("  {:<16} FAILS: {}", a.text(), m);
                        ok = false;
                        break;
                    }
                }
            }
        }
    }
    ok
}
