//! C16 — I/O ports: data latch + direction register + external pins (engine E2, explicit-state).
//!
//! The system under exploration is the real `Bus` (inside the real `Cpu`, because `Bus::write`
//! upgrades its `Weak<ModuleManager>`).  The 2 MiB DRAM box is swapped for an empty one while
//! exploring so that a node snapshot is simply the compiler-derived `Bus::clone()` — every field a
//! later change may add to `Bus` is snapshotted and restored automatically.
use crate::bus::Bus;
use crate::cpu::Cpu;
use crate::hv::e1::Ctx;
use crate::hv::shard::{chunk_range, Prop, Tier, Unit};
use serde_json::{json, Value};
use std::collections::{HashSet, VecDeque};
use std::sync::mpsc::{channel, Receiver};

const DDR_BASE: u32 = 0xfee000;
const DR_BASE: u32 = 0xffffd0;

#[derive(Clone, Copy, PartialEq, Eq, Hash, Debug)]
pub enum PAct {
    Ddr(u8, u8), // port, value
    Dr(u8, u8),
    Pins(u8, u8),
    /// the harness moves the state count (time passes without port activity)
    Clock(u64),
    /// `count` alternating DR writes (a5 / 5a) to port `0`, the state count advancing by `gap` between them
    Storm(u8, u32, u32),
}

impl PAct {
    fn text(&self) -> String {
        match self {
            PAct::Ddr(p, v) => format!("P{:X}DDR={:02x}", p, v),
            PAct::Dr(p, v) => format!("P{:X}DR={:02x}", p, v),
            PAct::Pins(p, v) => format!("P{:X}pins={:02x}", p, v),
            PAct::Clock(t) => format!("clock={}", t),
            PAct::Storm(p, gap, n) => format!("P{:X}storm={}x{}", p, gap, n),
        }
    }
    fn parse(s: &str) -> Option<PAct> {
        let (l, r) = s.split_once('=')?;
        if l == "clock" {
            return r.parse().ok().map(PAct::Clock);
        }
        if l.len() > 2 && &l[2..] == "storm" {
            let p = u8::from_str_radix(&l[1..2], 16).ok()?;
            let (g, n) = r.split_once('x')?;
            return Some(PAct::Storm(p, g.parse().ok()?, n.parse().ok()?));
        }
        let v = u8::from_str_radix(r, 16).ok()?;
        let p = u8::from_str_radix(&l[1..2], 16).ok()?;
        match &l[2..] {
            "DDR" => Some(PAct::Ddr(p, v)),
            "DR" => Some(PAct::Dr(p, v)),
            "pins" => Some(PAct::Pins(p, v)),
            _ => None,
        }
    }
}

/// Reference model of one port (DESIGN.md §4.2 `ref_port`).
#[derive(Clone, Copy, PartialEq, Eq, Hash, Debug, Default)]
pub struct RefPort {
    latch: u8,
    ddr: u8,
    pins: u8,
    /// last announced output value (None: nothing announced yet, the output is still its reset value 0)
    ann: Option<u8>,
    last_t: u64,
}

impl RefPort {
    fn out(&self) -> u8 {
        self.latch & self.ddr
    }
    fn read(&self) -> u8 {
        (self.latch & self.ddr) | (self.pins & !self.ddr)
    }
}

pub struct PortSys {
    pub cpu: Cpu,
    rx: Receiver<String>,
    saved_dram: Box<[u8]>,
    pub refs: [RefPort; 12], // index = port number 1..=11
    pub clock: u64,
    /// `defect` = the listed known finding's model (no latch): reference switches to it
    pub no_latch_model: bool,
}

impl PortSys {
    pub fn new() -> PortSys {
        let mut cpu = Cpu::new();
        let (tx, rx) = channel();
        cpu.bus.message_tx = Some(tx);
        let saved_dram = std::mem::replace(&mut cpu.bus.dram, Vec::new().into_boxed_slice());
        PortSys { cpu, rx, saved_dram, refs: [RefPort::default(); 12], clock: 0, no_latch_model: false }
    }

    pub fn snapshot(&self) -> (Bus, [RefPort; 12], u64) {
        (self.cpu.bus.clone(), self.refs, self.clock)
    }

    pub fn restore(&mut self, s: &(Bus, [RefPort; 12], u64)) {
        self.cpu.bus = s.0.clone();
        self.refs = s.1;
        self.clock = s.2;
        while self.rx.try_recv().is_ok() {}
    }

    /// Apply one action to the real bus and to the reference; returns a violation text if they disagree.
    pub fn apply(&mut self, a: &PAct, watch: &[u8]) -> Result<(), String> {
        let r = std::panic::catch_unwind(std::panic::AssertUnwindSafe(|| self.apply_inner(a, watch)));
        match r {
            Ok(x) => x,
            Err(_) => Err(format!("{}: the emulator panicked @ {}", a.text(), crate::hv::panics::take_last_location())),
        }
    }

    fn apply_inner(&mut self, a: &PAct, watch: &[u8]) -> Result<(), String> {
        if let PAct::Clock(t) = *a {
            self.clock = t;
            return Ok(());
        }
        if let PAct::Storm(p, gap, n) = *a {
            for i in 0..n {
                // apply_inner adds 7 itself
                self.clock = self.clock.wrapping_add(gap as u64).wrapping_sub(7);
                let w = PAct::Dr(p, if i % 2 == 0 { 0xa5 } else { 0x5a });
                self.apply_inner(&w, watch).map_err(|m| format!("write {} of the storm: {}", i, m))?;
            }
            return Ok(());
        }
        self.clock += 7;
        self.cpu.bus.cpu_state_sum = self.clock as usize;
        let before: Vec<(u8, u8, u8)> = watch.iter().map(|&p| self.impl_bytes(p)).collect();
        let port = match *a {
            PAct::Ddr(p, v) => {
                self.cpu.bus.write(DDR_BASE + p as u32 - 1, v).map_err(|e| format!("{}: Bus::write failed: {}", a.text(), e))?;
                self.refs[p as usize].ddr = v;
                p
            }
            PAct::Dr(p, v) => {
                self.cpu.bus.write(DR_BASE + p as u32 - 1, v).map_err(|e| format!("{}: Bus::write failed: {}", a.text(), e))?;
                self.refs[p as usize].latch = v;
                p
            }
            PAct::Pins(p, v) => {
                self.cpu.bus.write_port(p, v);
                self.refs[p as usize].pins = v;
                p
            }
            PAct::Clock(_) | PAct::Storm(..) => unreachable!(),
        };
        // messages emitted by this action
        let msgs: Vec<String> = self.rx.try_iter().collect();
        for m in msgs.iter() {
            let parts: Vec<&str> = m.split(':').collect();
            if parts.len() != 4 || parts[0] != "ioport" {
                return Err(format!("{}: unexpected message '{}'", a.text(), m));
            }
            let mp = u8::from_str_radix(parts[1], 16).map_err(|_| format!("bad port in '{}'", m))?;
            let mv = u8::from_str_radix(parts[2], 16).map_err(|_| format!("bad value in '{}'", m))?;
            let mt: u64 = parts[3].parse().map_err(|_| format!("bad time stamp in '{}'", m))?;
            if mp != port {
                return Err(format!("{}: message '{}' names port {:x}, the action concerned port {:x}", a.text(), m, mp, port));
            }
            let r = &mut self.refs[port as usize];
            if mt < r.last_t {
                return Err(format!("{}: time stamp {} goes back (previous {})", a.text(), mt, r.last_t));
            }
            r.last_t = mt;
            r.ann = Some(mv);
        }
        let r = self.refs[port as usize];
        // the last announced value always equals the current output
        if r.ann.unwrap_or(0) != r.out() {
            return Err(format!("{}: driven output is {:02x} but the last announced value is {:?} (messages of this action: {:?})", a.text(), r.out(), r.ann, msgs));
        }
        // reading DR: latch where output, pins where input
        let got = self.cpu.bus.read(DR_BASE + port as u32 - 1).map_err(|e| format!("read DR failed: {}", e))?;
        if got != r.read() {
            return Err(format!("{}: reading P{:X}DR gives {:02x}, expected {:02x} (latch {:02x}, ddr {:02x}, pins {:02x})", a.text(), port, got, r.read(), r.latch, r.ddr, r.pins));
        }
        // ports never influence each other
        for (k, &p) in watch.iter().enumerate() {
            if p != port && self.impl_bytes(p) != before[k] {
                return Err(format!("{}: port {:X} changed ({:02x?} -> {:02x?}) although the action concerned port {:X}", a.text(), p, before[k], self.impl_bytes(p), port));
            }
        }
        Ok(())
    }

    fn impl_bytes(&self, p: u8) -> (u8, u8, u8) {
        let b = &self.cpu.bus;
        (b.io_registrs1[p as usize - 1], b.io_registrs2[0xb0 + p as usize - 1], b.io_port_in[p as usize - 1])
    }

    /// canonical key of port p: implementation bytes + a hash-free dump of the reference
    fn key(&self, ports: &[u8]) -> Vec<u8> {
        let mut k = Vec::with_capacity(8 * ports.len());
        for &p in ports {
            let (a, b, c) = self.impl_bytes(p);
            let r = &self.refs[p as usize];
            k.extend_from_slice(&[a, b, c, r.latch, r.ddr, r.pins, r.ann.is_some() as u8, r.ann.unwrap_or(0)]);
        }
        k
    }
}

impl Drop for PortSys {
    fn drop(&mut self) {
        let d = std::mem::replace(&mut self.saved_dram, Vec::new().into_boxed_slice());
        self.cpu.bus.dram = d;
    }
}

fn actions(ports: &[u8], vals: &[u8]) -> Vec<PAct> {
    let mut v = Vec::new();
    for &p in ports {
        for &x in vals {
            v.push(PAct::Ddr(p, x));
        }
        for &x in vals {
            v.push(PAct::Dr(p, x));
        }
        for &x in vals {
            v.push(PAct::Pins(p, x));
        }
    }
    v
}

fn report(ctx: &mut Ctx, path: &[PAct], msg: String) {
    let p: Vec<String> = path.iter().map(|a| a.text()).collect();
    ctx.custom_violation("c16", msg, json!({"path": p}), json!(null), json!(null));
}

/// Depth-bounded exhaustive enumeration of all action sequences (no state merging).
fn dfs(ctx: &mut Ctx, sys: &mut PortSys, acts: &[PAct], watch: &[u8], depth: usize, path: &mut Vec<PAct>) {
    if depth == 0 || ctx.stop {
        return;
    }
    let snap = sys.snapshot();
    for a in acts {
        path.push(*a);
        ctx.st.cases += 1;
        ctx.st.nontrivial += 1;
        let r = sys.apply(a, watch);
        {
            let (x, y, z) = sys.impl_bytes(watch[0]);
            let h = ((x as usize) << 8 ^ (y as usize) << 3 ^ (z as usize) * 131 ^ (sys.refs[watch[0] as usize].latch as usize) * 7919) & 0xffff;
            ctx.st.outcome_bits[h / 64] |= 1 << (h % 64);
        }
        match r {
            Ok(()) => dfs(ctx, sys, acts, watch, depth - 1, path),
            Err(m) => report(ctx, path, m),
        }
        path.pop();
        sys.restore(&snap);
        if ctx.stop {
            return;
        }
    }
}

const VP4: [u8; 4] = [0x00, 0xff, 0x0f, 0x55];
const VP8: [u8; 8] = [0x00, 0xff, 0x0f, 0x55, 0xf0, 0xaa, 0x01, 0x80];
const VPAIR: [u8; 4] = [0x00, 0xff, 0x0f, 0x5a];

fn c16_units(tier: Tier) -> Vec<Unit> {
    let mut units = Vec::new();
    let thorough = tier == Tier::Thorough;
    // ---- per port: all sequences to depth 6 over VP4 (12 actions), split by the first action
    for p in 1..=11u8 {
        let depth = 6usize;
        let dom = format!("port {:X}: every sequence of up to {} actions over {{write DDR, write DR, external pins}} x values {:02x?} (12^{} paths, no state merging), DR read back after every action", p, depth, VP4, depth);
        units.push(Unit::new(&format!("port{:X}/seq", p), 12, &dom, move |ctx, chunk| {
            let acts = actions(&[p], &VP4);
            let mut sys = PortSys::new();
            let first = acts[chunk as usize];
            let mut path = vec![first];
            ctx.st.cases += 1;
            match sys.apply(&first, &[p]) {
                Ok(()) => dfs(ctx, &mut sys, &acts, &[p], depth - 1, &mut path),
                Err(m) => report(ctx, &path, m),
            }
            ctx.sample(json!({"path": ["P1DDR=00", "P1DR=ff", "P1DDR=ff"], "port": p}));
        }));
    }
    // ---- the same histories with the print-messages flag on (-m): what is printed is still announced
    for p in [1u8, 6, 11] {
        let depth = 4usize;
        let dom = format!("port {:X} with the print-messages flag (-m) switched on: every sequence of up to {} actions over {{write DDR, write DR, external pins}} x values {:02x?}; every announcement must still reach the message channel", p, depth, VP4);
        units.push(Unit::new(&format!("port{:X}/seq-with-print-flag", p), 12, &dom, move |ctx, chunk| {
            *crate::setting::ENABLE_PRINT_MESSAGES.write().unwrap() = true;
            let acts = actions(&[p], &VP4);
            let mut sys = PortSys::new();
            let first = acts[chunk as usize];
            let mut path = vec![first];
            ctx.st.cases += 1;
            match sys.apply(&first, &[p]) {
                Ok(()) => dfs(ctx, &mut sys, &acts, &[p], depth - 1, &mut path),
                Err(m) => report(ctx, &path, m),
            }
            *crate::setting::ENABLE_PRINT_MESSAGES.write().unwrap() = false;
        }));
    }
    // ---- per port: full reachable product graph (implementation bytes x reference) over VP4 / VP8, BFS with merging
    for p in 1..=11u8 {
        let vals: Vec<u8> = if thorough { VP8.to_vec() } else { VP4.to_vec() };
        let dom = format!("port {:X}: breadth-first search of the full reachable graph of (DDR, DR, pins bytes) x (reference latch, announced value) over values {:02x?} to frontier exhaustion", p, vals);
        units.push(Unit::new(&format!("port{:X}/graph", p), 1, &dom, move |ctx, _| {
            let acts = actions(&[p], &vals);
            let mut sys = PortSys::new();
            let mut seen: HashSet<Vec<u8>> = HashSet::new();
            let mut q: VecDeque<((Bus, [RefPort; 12], u64), Vec<PAct>)> = VecDeque::new();
            seen.insert(sys.key(&[p]));
            q.push_back((sys.snapshot(), vec![]));
            let mut maxdepth = 0;
            while let Some((snap, path)) = q.pop_front() {
                if ctx.stop {
                    break;
                }
                maxdepth = maxdepth.max(path.len());
                for a in acts.iter() {
                    sys.restore(&snap);
                    ctx.st.cases += 1;
                    ctx.st.nontrivial += 1;
                    let mut np = path.clone();
                    np.push(*a);
                    match sys.apply(a, &[p]) {
                        Ok(()) => {
                            let k = sys.key(&[p]);
                            if seen.insert(k) {
                                q.push_back((sys.snapshot(), np));
                            }
                        }
                        Err(m) => {
                            report(ctx, &np, m);
                            // do not expand beyond a violating transition
                        }
                    }
                }
            }
            *ctx.st.notes.entry("graph states".into()).or_insert(0) += seen.len() as u64;
            *ctx.st.notes.entry(format!("graph depth at frontier exhaustion (port {:X})", p)).or_insert(0) += maxdepth as u64;
        }));
    }
    // ---- per port: every byte value (the sequence units use a 4-value covering alphabet)
    for p in 1..=11u8 {
        let dom = format!("port {:X}: (a) from each of the 512 states reached by (write DDR d, write DR l, pins x) with d, l, x in {:02x?}, every action over {{write DDR, write DR, external pins}} x ALL 256 values; (b) from reset every ordered pair of actions x ALL 256 x 256 values", p, VP8);
        units.push(Unit::new(&format!("port{:X}/all-values", p), 8, &dom, move |ctx, chunk| {
            let mut sys = PortSys::new();
            let all: Vec<PAct> = (0..=255u8).flat_map(|v| [PAct::Ddr(p, v), PAct::Dr(p, v), PAct::Pins(p, v)]).collect();
            // (a)
            let d0 = VP8[chunk as usize];
            for &l0 in VP8.iter() {
                for &x0 in VP8.iter() {
                    let reset = sys.snapshot();
                    let mut path = vec![PAct::Ddr(p, d0), PAct::Dr(p, l0), PAct::Pins(p, x0)];
                    let mut ok = true;
                    for a in path.clone().iter() {
                        if let Err(m) = sys.apply(a, &[p]) {
                            report(ctx, &path, m);
                            ok = false;
                            break;
                        }
                    }
                    if ok {
                        let base = sys.snapshot();
                        for a in all.iter() {
                            ctx.st.cases += 1;
                            ctx.st.nontrivial += 1;
                            path.push(*a);
                            if let Err(m) = sys.apply(a, &[p]) {
                                report(ctx, &path, m);
                            }
                            path.pop();
                            sys.restore(&base);
                            if ctx.stop {
                                return;
                            }
                        }
                    }
                    sys.restore(&reset);
                }
            }
            // (b) pairs from reset; the first action's value is split over the chunks
            let reset = sys.snapshot();
            for (i, a1) in all.iter().enumerate() {
                if i % 8 != chunk as usize {
                    continue;
                }
                let mut path = vec![*a1];
                if let Err(m) = sys.apply(a1, &[p]) {
                    report(ctx, &path, m);
                    sys.restore(&reset);
                    continue;
                }
                let base = sys.snapshot();
                for a2 in all.iter() {
                    ctx.st.cases += 1;
                    ctx.st.nontrivial += 1;
                    path.push(*a2);
                    if let Err(m) = sys.apply(a2, &[p]) {
                        report(ctx, &path, m);
                    }
                    path.pop();
                    sys.restore(&base);
                    if ctx.stop {
                        return;
                    }
                }
                sys.restore(&reset);
            }
        }));
    }
    // ---- time stamps far into a run: the state count passes 2^31, 2^32, 2^33, 2^40, 2^53 while outputs change
    units.push(Unit::new(
        "time-stamps",
        1,
        "ports 1 and B: with DDR = ff the output is toggled 12 times while the state count advances in steps of 7 across each of 2^31, 2^32, 2^33, 2^40, 2^53 (starting 40 states below): every change is announced and the time stamps never go back",
        move |ctx, _| {
            for p in [1u8, 11] {
                let mut sys = PortSys::new();
                let mut path = vec![PAct::Ddr(p, 0xff)];
                if let Err(m) = sys.apply(&path[0], &[p]) {
                    report(ctx, &path, m);
                    continue;
                }
                for k in [31u32, 32, 33, 40, 53] {
                    let c = PAct::Clock((1u64 << k) - 40);
                    path.push(c);
                    let _ = sys.apply(&c, &[p]);
                    for i in 0..12u8 {
                        let a = PAct::Dr(p, if i % 2 == 0 { 0xa5 } else { 0x5a });
                        path.push(a);
                        ctx.st.cases += 1;
                        ctx.st.nontrivial += 1;
                        if let Err(m) = sys.apply(&a, &[p]) {
                            report(ctx, &path, format!("{} (state count about 2^{})", m, k));
                            break;
                        }
                    }
                }
            }
        },
    ));
    // ---- long runs of output changes (a tight toggle loop in the guest): every single change must be announced
    units.push(Unit::new(
        "toggle-storms",
        16,
        "ports 1 and B with DDR = ff: 30,000 alternating DR writes with the state count advancing by g between them, g in {7, 8, 60, 66, 199, 200, 1000, 100000}, starting at state count 0 and just below a multiple of 2,000,000; then the other port is written once: every change is announced with the new value (the last announced value always equals the output), time stamps never go back",
        move |ctx, chunk| {
            let gaps = [7u32, 8, 60, 66, 199, 200, 1000, 100_000];
            let g = gaps[(chunk % 8) as usize];
            let p = if chunk < 8 { 1u8 } else { 11 };
            let other = if p == 1 { 2u8 } else { 1 };
            for start in [0u64, 1_999_000] {
                let mut sys = PortSys::new();
                let path = vec![PAct::Ddr(p, 0xff), PAct::Ddr(other, 0xff), PAct::Clock(start), PAct::Storm(p, g, 30_000), PAct::Dr(other, 0x3c), PAct::Dr(p, 0x00)];
                for (k, a) in path.iter().enumerate() {
                    ctx.st.cases += if let PAct::Storm(_, _, n) = a { *n as u64 } else { 1 };
                    ctx.st.nontrivial += 1;
                    if let Err(m) = sys.apply(a, &[p, other]) {
                        report(ctx, &path[..=k], m);
                        break;
                    }
                }
            }
        },
    ));
    // ---- pairs of ports: all sequences to depth 4 (5 thorough) over both ports
    let mut pairs = Vec::new();
    for a in 1..=11u8 {
        for b in (a + 1)..=11u8 {
            pairs.push((a, b));
        }
    }
    let depth = if thorough { 5 } else { 4 };
    for (a, b) in pairs {
        let dom = format!("ports {:X} and {:X}: every sequence of up to {} actions on either port over values {:02x?}; an action on one port must leave the other's bytes and announced value untouched", a, b, depth, VPAIR);
        units.push(Unit::new(&format!("pair{:X}{:X}/seq", a, b), 24, &dom, move |ctx, chunk| {
            let acts = actions(&[a, b], &VPAIR);
            let mut sys = PortSys::new();
            let first = acts[chunk as usize];
            let mut path = vec![first];
            ctx.st.cases += 1;
            match sys.apply(&first, &[a, b]) {
                Ok(()) => dfs(ctx, &mut sys, &acts, &[a, b], depth - 1, &mut path),
                Err(m) => report(ctx, &path, m),
            }
        }));
    }
    units.extend(super::sock::c16_borrowed_units(thorough));
    units
}

pub fn c16(tier: Tier, _seed: u64) -> Prop {
    Prop {
        id: "C16",
        level: "model_checking",
        rule: "every transition is one action applied to the real Bus and to the reference port model, followed by a DR read-back; sequence units enumerate all action sequences to the depth bound without merging; graph units run a breadth-first search with state merging on (implementation bytes x reference state) until the frontier is empty; non-trivial = every transition (each is a distinct (path, action) or (state, action) pair)".into(),
        assumptions: vec![
            "reference: read DR = (latch & DDR) | (pins & ~DDR), output = latch & DDR, the last announced value equals the output after every action, redundant announcements are allowed".into(),
            "a node snapshot is the compiler-derived Bus::clone() (DRAM box swapped out), so hidden per-port state added later is restored as well; merging keys use the three public bytes per port plus the reference state".into(),
            "value alphabets: {00,ff,0f,55} splits the eight bit positions into four classes taking every combination of (ddr, dr, pin); thorough adds {f0,aa,01,80}".into(),
        ],
        units: c16_units(tier),
        extra: Box::new(|m| {
            let mut states = 0u64;
            let mut trans = 0u64;
            for (_, st) in m.iter() {
                trans += st.cases;
                states += st.notes.get("graph states").copied().unwrap_or(0);
            }
            json!({"states": states.max(1), "transitions": trans.max(1), "traces_validated_against_impl": trans})
        }),
        profiles: vec!["release"],
    }
}

/// replay handler for engine "c16": re-run the recorded action path on a fresh bus
pub fn replay_c16(case: &Value) -> bool {
    let mut sys = PortSys::new();
    let watch: Vec<u8> = (1..=11).collect();
    let mut ok = true;
    if let Some(p) = case["path"].as_array() {
        for s in p {
            if let Some(a) = s.as_str().and_then(PAct::parse) {
                match sys.apply(&a, &watch) {
                    Ok(()) => println!("  {:<14} ok", a.text()),
                    Err(m) => {
                        println!("  {:<14} FAILS: {}", a.text(), m);
                        ok = false;
                        break;
                    }
                }
            }
        }
    }
    ok
}
