//! C05 — branches, jumps, calls and returns: truth tables (E1) and all call/return nestings (E2).
use super::memform::ea_low_set;
use crate::hv::dom::{self, K16, K4};
use crate::hv::e1::{Act, Case, Ctx, Next, StepObs};
use crate::hv::isa::{Decoded, Fields, Isa, Mode, Sem, ROWS};
use crate::hv::sem::M24;
use crate::hv::shard::{chunk_range, Prop, Tier, Unit};
use serde_json::json;

const POSITIONS: [u32; 8] = [0xffc000, 0xffbfa0, 0xffff00, 0xffd7fe, 0x400080, 0x4ffffe, 0x5fff00, 0x410000];

fn sp_cov() -> Vec<u32> {
    let mut v = Vec::new();
    for low in [0xffc100u32, 0xffbf24, 0xffff20, 0xffe000, 0x400004, 0x500000, 0x600000, 0x4c0002, 0x400000, 0xffbf22, 0x000002, 0x000100] {
        for top in [0x00u32, 0x5a, 0xff] {
            v.push(low | (top << 24));
        }
    }
    v
}

fn d16_set() -> Vec<u32> {
    let mut v = vec![0u32, 2, 4, 0x7e, 0x80, 0xfe, 0x100, 0x7ffe, 0x8000, 0x8002, 0xff00, 0xff80, 0xfffe, 0xfffc, 0x1000, 0xf000, 0x0ffe, 0x4000, 0xc000, 0x0001, 0xffff, 0x7fff];
    for b in 1..15 {
        v.push(1 << b);
        v.push(0x10000 - (1 << b));
    }
    v.sort();
    v.dedup();
    v
}

fn target_cov() -> Vec<u32> {
    let mut v: Vec<u32> = ea_low_set(true);
    v.extend([0xffc200, 0x410200, 0x5ffffe, 0x000000, 0xfffffe, 0x123456]);
    v.sort();
    v.dedup();
    v
}

fn case_with(ctx: &Ctx, name: &str, f: &Fields, pc: u32) -> Case {
    let row = ctx.isa.row(name);
    let code = ctx.isa.encode(row, f);
    let mut c = Case::new(pc, &code);
    c.er = dom::background_regs();
    c.er[7] = dom::STACK_RAM;
    c
}

fn e1_units(tier: Tier) -> Vec<Unit> {
    let mut units = Vec::new();
    units.push(Unit::new("Bcc d:8/T", 16, "16 conditions x all 256 CCR values x all 256 displacements (odd ones left open) x 8 code positions in on-chip RAM and DRAM (complete truth table)", |ctx, chunk| {
        let cc = chunk as u8;
        for d in 0..256u32 {
            for &pc in POSITIONS.iter() {
                let mut f = Fields::default();
                f.cc = cc;
                f.data = d;
                let mut c = case_with(ctx, "Bcc d:8", &f, pc);
                for ccr in 0..=255u8 {
                    c.ccr = ccr;
                    ctx.run(&c);
                }
            }
        }
    }));
    units.push(Unit::new("Bcc d:16/T", 16, "16 conditions x all 256 CCR values x boundary/single-bit 16-bit displacements x 8 code positions", |ctx, chunk| {
        let cc = chunk as u8;
        for &d in d16_set().iter() {
            for &pc in POSITIONS.iter() {
                let mut f = Fields::default();
                f.cc = cc;
                f.data = d;
                let mut c = case_with(ctx, "Bcc d:16", &f, pc);
                for ccr in 0..=255u8 {
                    c.ccr = ccr;
                    ctx.run(&c);
                }
            }
        }
    }));
    if tier == Tier::Thorough {
        units.push(Unit::new("Bcc d:16/D", 64, "16 conditions x CCR in K16 x all 32768 even 16-bit displacements x 2 code positions", |ctx, chunk| {
            let (lo, hi) = chunk_range(32768, 64, chunk);
            for dd in lo as u32..hi as u32 {
                for cc in 0..16u8 {
                    for &pc in &[0xffd7feu32, 0x4ffffe] {
                        let mut f = Fields::default();
                        f.cc = cc;
                        f.data = dd * 2;
                        let mut c = case_with(ctx, "Bcc d:16", &f, pc);
                        for &ccr in &K16 {
                            c.ccr = ccr;
                            ctx.run(&c);
                        }
                    }
                }
            }
        }));
    }
    units.push(Unit::new("JMP @ERn/R", 8, "all 8 target registers x target covering set (both ends of all regions, unmapped neighbours) x 8 upper bytes x K4 CCR", |ctx, chunk| {
        let ra = chunk as u8;
        for &t in target_cov().iter() {
            for top in [0x00u32, 0x01, 0x5a, 0x80, 0xff, 0x10, 0x7f, 0xa5] {
                let mut f = Fields::default();
                f.ra = ra;
                let mut c = case_with(ctx, "JMP @ERn", &f, dom::CODE_RAM);
                c.er[ra as usize] = t | (top << 24);
                for &ccr in &K4 {
                    c.ccr = ccr;
                    ctx.run(&c);
                }
            }
        }
    }));
    units.push(Unit::new("JMP @aa:24/A", 1, "target covering set x K16 CCR x 2 code positions", |ctx, _| {
        for &t in target_cov().iter() {
            for &pc in &[dom::CODE_RAM, dom::CODE_DRAM] {
                let mut f = Fields::default();
                f.data = t;
                let mut c = case_with(ctx, "JMP @aa:24", &f, pc);
                for &ccr in &K16 {
                    c.ccr = ccr;
                    ctx.run(&c);
                }
            }
        }
    }));
    units.push(Unit::new("JMP @@aa:8/A", 1, "all 256 vector addresses (odd ones left open) x vector contents with upper byte {00,5a,ff} x K4 CCR", |ctx, _| {
        for aa in 0..256u32 {
            for &v in &[0x00ffc200u32, 0x5a410200, 0xff5ffffe] {
                let mut f = Fields::default();
                f.data = aa;
                let mut c = case_with(ctx, "JMP @@aa:8", &f, dom::CODE_RAM);
                c.patch_l(aa, v);
                for &ccr in &K4 {
                    c.ccr = ccr;
                    ctx.run(&c);
                }
            }
        }
    }));
    units.push(Unit::new("BSR d:8/T", 8, "all 256 displacements x 36 stack pointers (RAM/DRAM, region ends, upper byte 00/5a/ff) x 8 code positions x K4 CCR", |ctx, chunk| {
        let pc = POSITIONS[chunk as usize];
        for d in 0..256u32 {
            for &sp in sp_cov().iter() {
                let mut f = Fields::default();
                f.data = d;
                let mut c = case_with(ctx, "BSR d:8", &f, pc);
                c.er[7] = sp;
                for &ccr in &K4 {
                    c.ccr = ccr;
                    ctx.run(&c);
                }
            }
        }
    }));
    units.push(Unit::new("BSR d:16/T", 8, "boundary 16-bit displacements x 36 stack pointers x 8 code positions x K4 CCR", |ctx, chunk| {
        let pc = POSITIONS[chunk as usize];
        for &d in d16_set().iter() {
            for &sp in sp_cov().iter() {
                let mut f = Fields::default();
                f.data = d;
                let mut c = case_with(ctx, "BSR d:16", &f, pc);
                c.er[7] = sp;
                for &ccr in &K4 {
                    c.ccr = ccr;
                    ctx.run(&c);
                }
            }
        }
    }));
    units.push(Unit::new("JSR @ERn/R", 8, "all 8 target registers x target covering set x upper bytes {00,5a,ff} x 36 stack pointers x CCR {00,ff}; JSR @ER7: the target is the stack pointer itself, before or after the push (both allowed), 24 bits either way", |ctx, chunk| {
        let ra = chunk as u8;
        for &t in target_cov().iter() {
            for top in [0x00u32, 0x5a, 0xff] {
                for &sp in sp_cov().iter() {
                    let mut f = Fields::default();
                    f.ra = ra;
                    let mut c = case_with(ctx, "JSR @ERn", &f, dom::CODE_RAM);
                    c.er[7] = sp;
                    if ra == 7 && (t != target_cov()[0] || top != 0) {
                        continue; // the target is SP: one pass over the stack pointers
                    }
                    if ra != 7 {
                        c.er[ra as usize] = t | (top << 24);
                    }
                    for &ccr in &[0x00u8, 0xff] {
                        c.ccr = ccr;
                        ctx.run(&c);
                    }
                }
            }
        }
    }));
    units.push(Unit::new("JSR @aa:24/A", 2, "target covering set x 36 stack pointers x 2 code positions x CCR {00,ff}", |ctx, chunk| {
        let pc = if chunk == 0 { dom::CODE_RAM } else { dom::CODE_DRAM };
        for &t in target_cov().iter() {
            for &sp in sp_cov().iter() {
                let mut f = Fields::default();
                f.data = t;
                let mut c = case_with(ctx, "JSR @aa:24", &f, pc);
                c.er[7] = sp;
                for &ccr in &[0x00u8, 0xff] {
                    c.ccr = ccr;
                    ctx.run(&c);
                }
            }
        }
    }));
    units.push(Unit::new("JSR @@aa:8/A", 2, "all 256 vector addresses x vector contents with upper byte {00,5a,ff} x 36 stack pointers", |ctx, chunk| {
        let (lo, hi) = chunk_range(256, 2, chunk);
        for aa in lo as u32..hi as u32 {
            for &v in &[0x00ffc200u32, 0x5a410200, 0xff5ffffe] {
                for &sp in sp_cov().iter() {
                    let mut f = Fields::default();
                    f.data = aa;
                    let mut c = case_with(ctx, "JSR @@aa:8", &f, dom::CODE_RAM);
                    c.er[7] = sp;
                    c.patch_l(aa, v);
                    c.ccr = (aa as u8).wrapping_mul(7);
                    ctx.run(&c);
                }
            }
        }
    }));
    units.push(Unit::new("calls/frame-over-code", 8, "every call form (BSR d:8, BSR d:16, JSR @ERn, JSR @aa:24, JSR @@aa:8) with the stack frame overlapping the call instruction's own bytes or its neighbours: SP = instruction address + k for every even k in -2..=len+6, upper byte {00,5a} x displacement / target sets x 8 code positions x K4 CCR: the instruction is the one fetched before the frame was stored", |ctx, chunk| {
        let pc = POSITIONS[chunk as usize];
        let forms: [(&str, u32); 5] = [("BSR d:8", 2), ("BSR d:16", 4), ("JSR @ERn", 2), ("JSR @aa:24", 4), ("JSR @@aa:8", 2)];
        for (name, len) in forms {
            let datas: Vec<u32> = match name {
                "BSR d:8" => (0..256u32).step_by(2).collect(),
                "BSR d:16" => d16_set().into_iter().filter(|d| d % 2 == 0).collect(),
                "JSR @aa:24" => vec![0xffc200, 0x410200, 0x5ffffe, 0xffbf20],
                "JSR @@aa:8" => vec![0x10, 0x80, 0xfc],
                _ => vec![0],
            };
            let mut k: i32 = -2;
            while k <= len as i32 + 6 {
                for top in [0x00u32, 0x5a] {
                    let sp = (pc.wrapping_add(k as u32) & M24) | (top << 24);
                    for &d in datas.iter() {
                        let mut f = Fields::default();
                        f.data = d;
                        f.ra = 3;
                        let mut c = case_with(ctx, name, &f, pc);
                        c.er[7] = sp;
                        c.er[3] = 0x7700_0000 | 0x41_0300;
                        if name == "JSR @@aa:8" {
                            c.patch_l(d, 0x00ff_c200);
                        }
                        for &ccr in &K4 {
                            c.ccr = ccr;
                            ctx.run(&c);
                        }
                    }
                }
                k += 2;
            }
        }
    }));
    units.push(Unit::new("RTS/T", 1, "24 stack pointers x return addresses (covering set) x frame upper byte {00,5a,ff} x K16 CCR", |ctx, _| {
        for &sp in sp_cov().iter() {
            for &ret in target_cov().iter() {
                for top in [0x00u32, 0x5a, 0xff] {
                    let f = Fields::default();
                    let mut c = case_with(ctx, "RTS", &f, dom::CODE_RAM);
                    c.er[7] = sp;
                    c.patch_l(sp & M24, ret | (top << 24));
                    for &ccr in &K16 {
                        c.ccr = ccr;
                        ctx.run(&c);
                    }
                }
            }
        }
    }));
    units
}

// ------------------------------------------------------------------------------------------------
// E2: every call/return nesting (ordered forests), every call kind per node
// ------------------------------------------------------------------------------------------------

/// All ordered forests with `n` nodes as parent arrays (pre-order numbering, parent = usize::MAX for roots).
pub fn forests(n: usize) -> Vec<Vec<usize>> {
    // a forest in pre-order is determined by the depth sequence d0=0, d(i+1) <= d(i)+1
    let mut out = Vec::new();
    fn rec(n: usize, depths: &mut Vec<usize>, out: &mut Vec<Vec<usize>>) {
        if depths.len() == n {
            // parents from depths
            let mut parents = vec![usize::MAX; n];
            for i in 0..n {
                if depths[i] > 0 {
                    let mut j = i;
                    while j > 0 {
                        j -= 1;
                        if depths[j] == depths[i] - 1 {
                            parents[i] = j;
                            break;
                        }
                    }
                }
            }
            out.push(parents);
            return;
        }
        let maxd = if depths.is_empty() { 0 } else { depths[depths.len() - 1] + 1 };
        for d in 0..=maxd {
            depths.push(d);
            rec(n, depths, out);
            depths.pop();
        }
    }
    if n == 0 {
        return vec![vec![]];
    }
    rec(n, &mut Vec::new(), &mut out);
    out
}

const KINDS: usize = 5; // BSR d:8, BSR d:16, JSR @ERn, JSR @aa:24, JSR @@aa:8

struct Prog {
    image: Vec<(u32, Vec<u8>)>,
    entry: u32,
    end_pc: u32,
    expected_log: Vec<u8>,
}

/// Lay out one program: function 0 is `main` (calls the roots in order), function i+1 is node i.
fn build_program(isa: &Isa, parents: &[usize], kinds_req: &[usize], base: u32, log: u32) -> Prog {
    // a d:8 call whose target is out of reach is widened to d:16; iterate until the layout is stable
    let mut kinds: Vec<usize> = kinds_req.to_vec();
    loop {
        match build_program_once(isa, parents, &kinds, base, log) {
            Ok(p) => return p,
            Err(node) => kinds[node] = 1,
        }
    }
}

fn build_program_once(isa: &Isa, parents: &[usize], kinds: &[usize], base: u32, log: u32) -> Result<Prog, usize> {
    let n = parents.len();
    // children lists
    let mut children: Vec<Vec<usize>> = vec![Vec::new(); n + 1];
    for i in 0..n {
        let p = if parents[i] == usize::MAX { 0 } else { parents[i] + 1 };
        children[p].push(i + 1);
    }
    // sizes: marker = MOV.B #id,R0L (2) + MOV.B R0L,@ER6 (2) + ADDS #1,ER6 (2) = 6 bytes
    let call_size = |k: usize| -> u32 {
        match k {
            0 => 2,     // BSR d:8
            1 => 4,     // BSR d:16
            2 => 6 + 2, // MOV.L #t,ER4 ; JSR @ER4
            3 => 4,     // JSR @aa:24
            _ => 2,     // JSR @@aa:8
        }
    };
    let mut size = vec![0u32; n + 1];
    for fidx in 0..=n {
        let mut s = 6; // marker
        for &c in &children[fidx] {
            s += call_size(kinds[c - 1]);
        }
        s += 2; // RTS or end marker (BRA .)
        size[fidx] = s;
    }
    let mut addr = vec![0u32; n + 1];
    let mut a = base;
    for fidx in 0..=n {
        addr[fidx] = a;
        a += size[fidx];
    }
    let mut code: Vec<u8> = Vec::new();
    let mut vectors: Vec<(u32, Vec<u8>)> = Vec::new();
    let mut end_pc = 0;
    for fidx in 0..=n {
        debug_assert_eq!(base + code.len() as u32, addr[fidx]);
        // marker
        code.extend(isa.encode(isa.row("MOV.B #xx:8,Rd"), &Fields { rd: 8, data: fidx as u32, ..Default::default() }));
        code.extend(isa.encode(isa.row("MOV.B Rs,@ERd"), &Fields { rs: 8, ra: 6, ..Default::default() }));
        code.extend(isa.encode(isa.row("ADDS #1,ERd"), &Fields { rd: 6, ..Default::default() }));
        for &c in &children[fidx] {
            let here = base + code.len() as u32;
            let tgt = addr[c];
            let k = kinds[c - 1];
            if k == 0 {
                let d = tgt as i64 - (here as i64 + 2);
                if d < -128 || d > 127 {
                    return Err(c - 1);
                }
            }
            match k {
                0 => {
                    let d = (tgt.wrapping_sub(here + 2)) & 0xff;
                    code.extend(isa.encode(isa.row("BSR d:8"), &Fields { data: d, ..Default::default() }));
                }
                1 => {
                    let d = (tgt.wrapping_sub(here + 4)) & 0xffff;
                    code.extend(isa.encode(isa.row("BSR d:16"), &Fields { data: d, ..Default::default() }));
                }
                2 => {
                    code.extend(isa.encode(isa.row("MOV.L #xx:32,ERd"), &Fields { rd: 4, data: tgt | 0x6b00_0000, ..Default::default() }));
                    code.extend(isa.encode(isa.row("JSR @ERn"), &Fields { ra: 4, ..Default::default() }));
                }
                3 => code.extend(isa.encode(isa.row("JSR @aa:24"), &Fields { data: tgt, ..Default::default() })),
                _ => {
                    let aa = 0x40 + 4 * c as u32;
                    vectors.push((aa, (tgt | 0x9c00_0000).to_be_bytes().to_vec()));
                    code.extend(isa.encode(isa.row("JSR @@aa:8"), &Fields { data: aa, ..Default::default() }));
                }
            }
        }
        if fidx == 0 {
            end_pc = base + code.len() as u32;
            code.extend(isa.encode(isa.row("Bcc d:8"), &Fields { cc: 0, data: 0xfe, ..Default::default() })); // BRA .
        } else {
            code.extend(isa.encode(isa.row("RTS"), &Fields::default()));
        }
    }
    // expected pre-order trace: main, then nodes in pre-order (node ids are already pre-order)
    let mut expected_log = vec![0u8];
    for i in 0..n {
        expected_log.push((i + 1) as u8);
    }
    let mut image = vec![(base, code)];
    image.extend(vectors);
    let _ = log;
    Ok(Prog { image, entry: base, end_pc, expected_log })
}

/// Run program number `idx` of the n-node family (forest x call-kind labelling) with all oracles.
pub fn run_forest_program(ctx: &mut Ctx, fs: &[Vec<usize>], n: usize, idx: u64) {
    let nk = (KINDS as u64).pow(n as u32);
    let fi = (idx / nk) as usize;
    let mut kk = idx % nk;
    let mut kinds = vec![0usize; n];
    for k in 0..n {
        kinds[k] = (kk % KINDS as u64) as usize;
        kk /= KINDS as u64;
    }
    let in_dram = idx % 2 == 1;
    let base = if in_dram { dom::CODE_DRAM + 0x40 } else { dom::CODE_RAM + 0x40 };
    let log = if in_dram { dom::DATA_DRAM + 0x200 } else { dom::DATA_RAM + 0x200 };
    let sp0 = if idx % 4 < 2 { dom::STACK_RAM | 0x3c00_0000 } else { dom::STACK_DRAM | 0xe100_0000 };
    let prog = build_program(&ctx.isa, &fs[fi], &kinds, base, log);
    let mut init = Case::new(prog.entry, &[]);
    init.code_len = 0;
    init.image = prog.image.clone();
    init.er = dom::background_regs();
    init.er[6] = log;
    init.er[7] = sp0;
    init.ccr = (idx as u8).wrapping_mul(31);
    // harness-side call stack: (return pc, sp before the call)
    let mut stack: Vec<(u32, u32)> = Vec::new();
    let end_pc = prog.end_pc;
    let expected_log = prog.expected_log.clone();
    let mut finished = false;
    let max_actions = 16 * (n + 2);
    let before = ctx.st.violations_total;
    ctx.seq_tag = Some(json!({"oracle": "c05-nesting", "n": n, "idx": idx}));
    ctx.run_seq(&init, Act::Step, max_actions, &mut |o: &StepObs| {
        if let Decoded::Impl { row, len, .. } = o.dec {
            match ROWS[row].sem {
                Sem::Bsr { .. } | Sem::Jsr(_) => stack.push(((o.pre_pc + len as u32) & M24, o.pre_er[7])),
                Sem::Rts => match stack.pop() {
                    Some((ret, sp)) => {
                        if o.post_pc != ret {
                            return Next::Fail(format!("RTS resumed at {:06x}, the matching call's next instruction is {:06x}", o.post_pc, ret));
                        }
                        if o.post_er[7] != sp {
                            return Next::Fail(format!("after RTS SP={:08x}, before the matching call it was {:08x}", o.post_er[7], sp));
                        }
                    }
                    None => return Next::Fail("RTS without a matching call".into()),
                },
                _ => {}
            }
        }
        if o.post_pc == end_pc {
            finished = true;
            if !stack.is_empty() {
                return Next::Fail("program ended with calls still open".into());
            }
            // the marker log must be the pre-order of the forest
            for (k, &id) in expected_log.iter().enumerate() {
                let got = o.m.peek(log + k as u32).unwrap_or(0xee);
                if got != id {
                    return Next::Fail(format!("marker log[{}] = {:02x}, pre-order of the call forest says {:02x}", k, got, id));
                }
            }
            if o.post_er[6] != log + expected_log.len() as u32 {
                return Next::Fail("marker count differs from the number of functions".into());
            }
            return Next::Stop;
        }
        Next::Continue(Act::Step)
    });
    ctx.seq_tag = None;
    if !finished && !ctx.stop && ctx.st.violations_total == before && !ctx.panic_only {
        // lock step ended early without a reported violation: the program did not reach its end
        let mut c = init.clone();
        c.patches = crate::hv::sem::Small::new();
        ctx.st.violations_total += 1;
        if ctx.st.violations.len() < crate::hv::e1::MAX_VIOLATIONS_KEPT {
            let mut cj = c.to_json();
            cj["regen"] = json!({"oracle": "c05-nesting", "n": n, "idx": idx});
            ctx.st.violations.push(crate::hv::e1::Violation { engine: "e1".into(), unit: ctx.unit.clone(), what: "generated program did not reach its end within the action bound".into(), case: cj, expected: json!(null), actual: json!(null) });
        }
    }
}

fn forest_unit(n: usize) -> Unit {
    let fs = forests(n);
    let nf = fs.len() as u64;
    let nk = (KINDS as u64).pow(n as u32);
    let total = nf * nk;
    let chunks = (total / 2000).clamp(1, 512);
    let dom = format!("all {} ordered call forests with {} call nodes x all {}^{} assignments of call kinds (BSR d:8, BSR d:16, JSR @ERn, JSR @aa:24, JSR @@aa:8) = {} programs, code/stack alternating between on-chip RAM and DRAM, SP upper byte non-zero", nf, n, KINDS, n, total);
    Unit::new(&format!("nesting/n={}", n), chunks, &dom, move |ctx, chunk| {
        let (lo, hi) = chunk_range(total, chunks, chunk);
        for idx in lo..hi {
            run_forest_program(ctx, &fs, n, idx);
        }
    })
}

/// replay of a nesting counterexample with the unit's own oracles
pub fn replay_nesting(ctx: &mut Ctx, regen: &serde_json::Value) {
    let n = regen["n"].as_u64().unwrap_or(1) as usize;
    let idx = regen["idx"].as_u64().unwrap_or(0);
    let fs = forests(n);
    run_forest_program(ctx, &fs, n, idx);
}

pub fn c05(tier: Tier, _seed: u64) -> Prop {
    let mut units = e1_units(tier);
    let maxn = if tier == Tier::Thorough { 7 } else { 5 };
    for n in 1..=maxn {
        units.push(forest_unit(n));
    }
    Prop {
        id: "C05",
        level: "model_checking",
        rule: "E1 units: full products of the declared sets (complete condition x CCR truth table). Nesting units: every ordered call forest up to the node bound x every call-kind labelling is one generated program, executed to completion on the real CPU in lock step with the reference; the marker log, the return address and SP after each RTS are additionally checked against a harness-side call stack. Non-trivial = reference outcome changes state (branch taken, frame pushed/popped) or is an error".into(),
        assumptions: vec![
            "condition table and frame layout read from the property statement".into(),
            "odd displacements / odd targets and targets outside 24 bits are left open".into(),
            "the upper byte of a BSR/JSR frame is left open (reserved)".into(),
            "nesting bound: all forests with <= 5 (quick) / <= 7 (thorough) call nodes; 16-bit displacements beyond the boundary set only in the thorough tier".into(),
        ],
        units,
        extra: Box::new(|m| {
            let mut progs = 0u64;
            let mut steps = 0u64;
            for (k, st) in m.iter() {
                if k.starts_with("nesting/") {
                    steps += st.cases;
                    progs += st.notes.get("programs").copied().unwrap_or(0);
                }
            }
            json!({"states": steps.max(1), "transitions": steps.max(1), "traces_validated_against_impl": steps, "nesting_program_steps": steps})
        }),
        profiles: vec!["release"],
    }
}
