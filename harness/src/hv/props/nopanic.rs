//! C15 — guest-triggered faults surface as errors, never as a crash of the emulator (engine E5).
//! Every unit is run under both build profiles (release, and release + overflow checks + debug assertions).
use super::{alu, bits, charge, decode, ea, exc, flow, mov, runloop, sock};
use crate::cpu::Cpu;
use crate::hv::dom;
use crate::hv::e1::{Act, Case, Ctx, Next, StepObs};
use crate::hv::shard::{chunk_range, Prop, Tier, Unit};
use serde_json::{json, Value};
use std::panic::{catch_unwind, AssertUnwindSafe};

/// adversarial register files
fn regfiles() -> Vec<[u32; 8]> {
    let mut v: Vec<[u32; 8]> = Vec::new();
    for x in [0u32, 1, 3, 0x80, 0xffff_ffff, 0x0000_00ff, 0x0040_0000, 0x005f_ffff, 0x00ff_bf20, 0x00ff_ff1f, 0x00ff_ffe9, 0x12ff_c100, 0x8000_0000, 0x7fff_ffff] {
        v.push([x; 8]);
    }
    // mixed file: every register a different edge
    v.push([0, 1, 0xffff_ffff, 0x0040_0000, 0x005f_ffff, 0x00ff_bf20, 0x00ff_ff1f, 2]);
    v.push([0xffff_fffe, 0x0000_0100, 0x00ff_ffff, 0x00fe_e000, 0x00ff_ffd0, 3, 0x00ff_ff80, 0x0000_0003]);
    v
}

const CONTS: [[u16; 5]; 9] = [
    [0xf000, 0xf000, 0xf000, 0xf000, 0xf000],
    [0x0000, 0x0000, 0x0000, 0x0000, 0x0000],
    [0xffff, 0xffff, 0xffff, 0xffff, 0xffff],
    [0x6910, 0x7fff, 0xffff, 0x0000, 0x0000],
    [0x6b20, 0x00ff, 0xffff, 0x0000, 0x0000],
    [0x6ba0, 0x0000, 0x0001, 0xffff, 0xffff],
    [0x7370, 0x8000, 0x0000, 0x0000, 0x0000],
    [0x6790, 0x8001, 0x8000, 0x0000, 0x0000],
    [0x78f0, 0x6b20, 0x00ff, 0xffff, 0x0000],
];

/// code placements: inside and at the very end of every mapped region
fn placements() -> Vec<u32> {
    let mut v = vec![0xffc000u32, 0x410000, 0x400000, 0x000000, 0x000080, 0xfee040, 0xffff40];
    for hi in [0x0000ffu32, 0x5fffff, 0xfee0ff, 0xffff1f, 0xffffe9] {
        for back in [1u32, 3, 5, 7, 9] {
            v.push(hi - back); // last 2/4/6/8/10 bytes (even start)
        }
    }
    v
}

fn run_words(ctx: &mut Ctx, words: &[u16], pc: u32, regs: &[u32; 8], ccr: u8) {
    let mut code = [0u8; 12];
    for (k, w) in words.iter().take(6).enumerate() {
        code[2 * k] = (w >> 8) as u8;
        code[2 * k + 1] = *w as u8;
    }
    let mut c = Case::new(pc, &code);
    c.code = code;
    c.er = *regs;
    c.ccr = ccr;
    ctx.run(&c);
}

/// "state-damaging" instruction alphabet for two-step sequences (word lists)
fn damaging() -> Vec<Vec<u16>> {
    vec![
        vec![0x5900], vec![0x5910], vec![0x5970], vec![0x5d10], vec![0x5d70], vec![0x5470], vec![0x5670], vec![0x5710], vec![0x5730], vec![0x5700],
        vec![0x5a00, 0x0001], vec![0x5aff, 0xfffe], vec![0x5a20, 0x0000], vec![0x5e00, 0x0001], vec![0x5eff, 0xffff], vec![0x5b00], vec![0x5bff], vec![0x5f01], vec![0x5ffe],
        vec![0x4001], vec![0x40fe], vec![0x407f], vec![0x5800, 0x7fff], vec![0x5800, 0x8000], vec![0x55ff], vec![0x5500], vec![0x5c00, 0x8001],
        vec![0x0b87], vec![0x1b97], vec![0x0b97], vec![0x7a07, 0x0000, 0x0001], vec![0x7a07, 0xffff, 0xffff], vec![0x7a07, 0x0000, 0x0003],
        vec![0x0100, 0x6df0], vec![0x0100, 0x6d70], vec![0x6df0], vec![0x6d70], vec![0x6cf8], vec![0x6c78],
        vec![0x0140, 0x6df0], vec![0x0a07], vec![0x1a07], vec![0x0bf7], vec![0x1bf7], vec![0x0000],
    ]
}

fn wrap_panic_only(mut u: Unit, prefix: &str) -> Unit {
    let inner = u.run;
    u.name = format!("{}/{}", prefix, u.name);
    u.run = Box::new(move |ctx: &mut Ctx, chunk: u64| {
        ctx.panic_only = true;
        (inner)(ctx, chunk);
        ctx.panic_only = false;
        ctx.cycles_only = false;
    });
    u
}

fn own_units(tier: Tier) -> Vec<Unit> {
    let thorough = tier == Tier::Thorough;
    let mut units = Vec::new();
    // ---- (1) all first words x continuations x adversarial register files x placements
    let nconts = if thorough { CONTS.len() } else { 4 };
    let rfs = regfiles();
    let nrf = rfs.len();
    units.push(Unit::new(
        "first-words",
        256,
        &format!("all 65536 first instruction words x {} continuation patterns x {} adversarial register files (0, 1, 3, 0x80, 0xFFFFFFFF, region first/last bytes, odd values, 0x12FFC100, mixed) x CCR {{00,ff}} x code in on-chip RAM", nconts, nrf),
        move |ctx, chunk| {
            ctx.panic_only = true;
            let (lo, hi) = chunk_range(65536, 256, chunk);
            let rfs = regfiles();
            for w in lo as u32..hi as u32 {
                for cont in CONTS.iter().take(nconts) {
                    let mut words = vec![w as u16];
                    words.extend_from_slice(cont);
                    for rf in rfs.iter() {
                        run_words(ctx, &words, 0xffc000, rf, 0x00);
                        run_words(ctx, &words, 0xffc000, rf, 0xff);
                    }
                }
            }
            ctx.panic_only = false;
        },
    ));
    let pls = placements();
    let npl = pls.len();
    units.push(Unit::new(
        "placements",
        256,
        &format!("all 65536 first words x 2 continuation patterns x 3 register files x {} code placements: inside every mapped region and in the last 2/4/6/8/10 bytes of each (instruction words running off the end of the map)", npl),
        move |ctx, chunk| {
            ctx.panic_only = true;
            let (lo, hi) = chunk_range(65536, 256, chunk);
            let rfs = regfiles();
            let pls = placements();
            for w in lo as u32..hi as u32 {
                for cont in [&CONTS[0], &CONTS[4]] {
                    let mut words = vec![w as u16];
                    words.extend_from_slice(cont);
                    for &pc in pls.iter() {
                        for rf in [&rfs[0], &rfs[4], &rfs[14]] {
                            run_words(ctx, &words, pc, rf, 0x80);
                        }
                    }
                }
            }
            ctx.panic_only = false;
        },
    ));
    // ---- (5) two-instruction sequences over the state-damaging alphabet
    units.push(Unit::new(
        "two-step",
        45,
        "all ordered pairs over a 45-instruction alphabet of state-damaging instructions (jumps to odd / unmapped / wrapped targets, SP at 0/1/2/3, returns on garbage frames, +/- stack forms) x 6 register files x 3 placements, second step from wherever the first one left PC",
        move |ctx, chunk| {
            ctx.panic_only = true;
            let alpha = damaging();
            let a = &alpha[chunk as usize];
            let rfs = regfiles();
            for b in alpha.iter() {
                for rf in [&rfs[0], &rfs[1], &rfs[2], &rfs[4], &rfs[14], &rfs[15]] {
                    for &pc in &[0xffc000u32, 0x5ffff6, 0x0000f8] {
                        let mut code: Vec<u8> = Vec::new();
                        for w in a.iter() {
                            code.extend(w.to_be_bytes());
                        }
                        for w in b.iter() {
                            code.extend(w.to_be_bytes());
                        }
                        let mut init = Case::new(pc, &[]);
                        init.code_len = 0;
                        init.image = vec![(pc, code.clone())];
                        // the second instruction is also placed where typical wild jumps land
                        let mut second: Vec<u8> = Vec::new();
                        for w in b.iter() {
                            second.extend(w.to_be_bytes());
                        }
                        for land in [0x000000u32, 0xffbf20, 0x400000] {
                            if land != pc {
                                init.image.push((land, second.clone()));
                            }
                        }
                        init.er = *rf;
                        init.ccr = 0x80;
                        let mut n = 0;
                        ctx.run_seq(&init, Act::Step, 2, &mut |_o: &StepObs| {
                            n += 1;
                            if n < 2 {
                                Next::Continue(Act::Step)
                            } else {
                                Next::Stop
                            }
                        });
                    }
                }
            }
            ctx.panic_only = false;
        },
    ));
    // ---- (3)+(4) through run(): slow bus, failing programs, control lines
    units.push(Unit::new(
        "run-loop",
        1,
        "guests through the real run() under catch_unwind: every shape x failing-instruction placement of the C13 generator (unimplemented opcode below the load base's offset arithmetic, unmapped store), the slow-bus guest (charges >= 86 states), and an entry point outside mapped memory",
        move |ctx, _| {
            crate::hv::panics::eval_log_args(true);
            let mut pair = runloop::Pair::new();
            let mut progs: Vec<runloop::Prog> = Vec::new();
            for shape in 0..=7usize {
                for fail in 0..=3usize {
                    progs.push(runloop::build(&ctx.isa, shape, 3, fail));
                }
            }
            for p in progs {
                ctx.st.cases += 1;
                ctx.st.nontrivial += 1;
                let desc = p.desc.clone();
                let r = catch_unwind(AssertUnwindSafe(|| runloop::run_checked(&mut pair, &p, 200_000)));
                if let Err(e) = r {
                    let msg = e.downcast_ref::<String>().cloned().or_else(|| e.downcast_ref::<&str>().map(|s| s.to_string())).unwrap_or_default();
                    crate::cpu::verif_hooks::set_run_loop_hook(None);
                    ctx.custom_violation("c15", format!("run() panicked on guest {}: {} @ {}", desc, msg, crate::hv::panics::take_last_location()), json!({"guest": desc}), json!(null), json!(null));
                    pair = runloop::Pair::new();
                }
            }
            // code below the load base with a failing opcode: the error message computes pc - load base
            for entry in [0x400000u32, 0x000000, 0xffbf20, 0x416902] {
                let mut cpu = Cpu::new();
                super::irq::poke(&mut cpu, entry, &[0x00, 0x00, 0x00, 0x00]);
                cpu.er[2] = entry;
                cpu.er[7] = 0x4f0000;
                cpu.exit_addr = 0x5ffff0;
                ctx.st.cases += 1;
                ctx.st.nontrivial += 1;
                let mut it = 0;
                crate::cpu::verif_hooks::set_run_loop_hook(Some(Box::new(move |_c: &mut Cpu| {
                    it += 1;
                    it > 50
                })));
                let r = catch_unwind(AssertUnwindSafe(|| cpu.run()));
                crate::cpu::verif_hooks::set_run_loop_hook(None);
                if let Err(e) = r {
                    let msg = e.downcast_ref::<String>().cloned().or_else(|| e.downcast_ref::<&str>().map(|s| s.to_string())).unwrap_or_default();
                    ctx.custom_violation("c15", format!("run() panicked on an unimplemented opcode at {:06x}: {} @ {}", entry, msg, crate::hv::panics::take_last_location()), json!({"entry": format!("{:x}", entry)}), json!(null), json!(null));
                }
            }
            crate::hv::panics::eval_log_args(false);
        },
    ));
    // ---- peripheral registers: every ordered pair of TCR values with time elapsing after each write
    units.push(Unit::new(
        "timer-writes",
        256,
        "8-bit timer: every ordered pair (TCR1, TCR2) of all 256 x 256 control values written through Bus::write, elapse(1|9|255) after each, from reset and from a running /8 clock, TCORA/TCORB/TCNT at {00, ff}: no write and no elapsed time may unwind",
        move |ctx, chunk| {
            use super::timer::{TAct, TimerSys};
            let t1 = chunk as u8;
            for t2 in 0..=255u8 {
                for pre in [None, Some(0x01u8)] {
                    for corners in [0x00u8, 0xff] {
                        let mut sys = TimerSys::new();
                        let mut path: Vec<TAct> = vec![TAct::Tcora(corners), TAct::Tcorb(!corners), TAct::Tcnt(corners)];
                        if let Some(p) = pre {
                            path.push(TAct::Tcr(p));
                            path.push(TAct::Elapse(9));
                        }
                        path.extend([TAct::Tcr(t1), TAct::Elapse(1), TAct::Elapse(255), TAct::Tcr(t2), TAct::Elapse(9), TAct::Elapse(255)]);
                        for a in path.iter() {
                            ctx.st.cases += 1;
                            ctx.st.nontrivial += 1;
                            if let Err(m) = sys.apply(a) {
                                if m.contains("panicked") {
                                    let p: Vec<String> = path.iter().map(|x| x.text()).collect();
                                    ctx.custom_violation("c17", m, json!({"path": p}), json!(null), json!(null));
                                }
                                break; // semantic disagreements are C17's business, not this property's
                            }
                        }
                        if ctx.stop {
                            return;
                        }
                    }
                }
            }
        },
    ));
    // ---- MES system calls with adversarial arguments
    units.push(Unit::new(
        "syscalls",
        1,
        "TRAPA #0 with ER0 in {104, 113, 0, 0xffffffff} x ER1 over adversarial pointers x argument words over {0, 1, 63, 64, 0xffffffff, 0xa6000000, 0x7fffffff, region edges} (log arguments evaluated as under the real binary)",
        move |ctx, _| {
            ctx.panic_only = true;
            crate::hv::panics::eval_log_args(true);
            let words: [u32; 12] = [0, 1, 63, 64, 0xffff_ffff, 0xa600_0000, 0x7fff_ffff, 0x0040_0000, 0x005f_ffff, 0x00ff_ff1f, 0x00ff_bf20, 0x0000_1000];
            for id in [104u32, 113, 0, 0xffff_ffff] {
                for er1 in [0x00ffe900u32, 0x005ffff4, 0x005ffffc, 0x00ffff18, 0, 0xffff_ffff, 0x12ffe900, 0x000000f8, 0xffff_fff8] {
                    for &w0 in words.iter() {
                        for &w1 in words.iter() {
                            for &w2 in [0u32, 1, 4096, 0xffff_ffff, 0x0020_0000].iter() {
                                if id == 104 && w2 > 0x0020_0000 {
                                    // a length of 4 G bytes is a 4 G-iteration loop over unmapped memory only if the buffer is mapped throughout: skip the hopeless ones
                                    if w1 >= 0x0040_0000 && w1 <= 0x005f_ffff {
                                        continue;
                                    }
                                }
                                let mut c = Case::new(0xffc000, &[0x57, 0x00]);
                                c.er = dom::background_regs();
                                c.er[0] = id;
                                c.er[1] = er1;
                                c.er[5] = 0xffff_ffff;
                                c.er[7] = 0x00ffe700;
                                let a = er1 & 0xffffff;
                                c.patch_l(a, w0);
                                c.patch_l(a.wrapping_add(4), w1);
                                c.patch_l(a.wrapping_add(8), w2);
                                ctx.run(&c);
                            }
                        }
                    }
                }
            }
            crate::hv::panics::eval_log_args(false);
            ctx.panic_only = false;
        },
    ));
    // ---- every console-write scenario of C14 (all text shapes) with a socket attached and log arguments evaluated
    units.push(Unit::new(
        "syscall-texts",
        8,
        "every write scenario of C14 (lengths 0-4096, code-point classes, multi-byte characters in every split position, texts of multi-byte characters only, newlines with long tails, terminal control sequences) executed by TRAPA #0 with the message channel attached and log arguments evaluated: no unwind",
        move |ctx, chunk| {
            ctx.panic_only = true;
            crate::hv::panics::eval_log_args(true);
            super::mes::ensure_socket(ctx);
            let scn = super::mes::write_scenarios(tier);
            for (i, s) in scn.iter().enumerate() {
                if i % 8 != chunk as usize {
                    continue;
                }
                let mut c = super::mes::setup_write(&mut ctx.m, s);
                // the counterexample file must carry the text: argument block and buffer as an image of the case
                c.code_sticky = false;
                let mut block = 1u32.to_be_bytes().to_vec();
                block.extend_from_slice(&s.buf.to_be_bytes());
                block.extend_from_slice(&(s.text.len() as u32).to_be_bytes());
                c.image = vec![(s.arg, block), (s.buf, s.text.clone())];
                ctx.run(&c);
                ctx.m.end_sticky();
                let _ = super::mes::drain();
            }
            crate::hv::panics::eval_log_args(false);
            ctx.panic_only = false;
        },
    ));
    {
        let tokens: [&str; 20] = ["cmd", "u8", "ioport", "pause", "start", "stop", "", "0", "1", "b", "c", "ff", "100", "430300", "200000", "fee000", "ffffffff", "100000000", "zz", "-1"];
        let total: u64 = (1..=4u32).map(|l| 20u64.pow(l)).sum();
        units.push(Unit::new(
            "control-lines",
            64,
            &format!("every control line of 1-4 colon-separated fields over a 20-token alphabet ({} lines), each delivered to the real run() in a batch of its own and behind a well-formed line", total),
            move |ctx, chunk| {
                let mut rig = sock::Rig::new(&ctx.isa);
                let (lo, hi) = chunk_range(total, 64, chunk);
                for idx in lo..hi {
                    let mut rest = idx;
                    let mut len = 1u32;
                    loop {
                        let c = 20u64.pow(len);
                        if rest < c {
                            break;
                        }
                        rest -= c;
                        len += 1;
                    }
                    let mut fields = Vec::new();
                    for _ in 0..len {
                        fields.push(tokens[(rest % 20) as usize]);
                        rest /= 20;
                    }
                    let line = fields.join(":");
                    ctx.st.cases += 1;
                    ctx.st.nontrivial += 1;
                    let l2 = line.clone();
                    let r = catch_unwind(AssertUnwindSafe(|| {
                        let batches: Vec<Vec<&str>> = vec![vec![l2.as_str()], vec!["u8:430300:11", l2.as_str()]];
                        sock::run_batches(&mut rig, &batches, &[1, 2], 5)
                    }));
                    match r {
                        Ok(o) => {
                            if !o.returned_ok && !o.result.contains(crate::cpu::verif_hooks::HORIZON_MESSAGE) {
                                ctx.custom_violation("c15", format!("control line {:?} made run() fail: {}", line, o.result), json!({"line": line}), json!(null), json!(null));
                            }
                        }
                        Err(e) => {
                            let msg = e.downcast_ref::<String>().cloned().or_else(|| e.downcast_ref::<&str>().map(|s| s.to_string())).unwrap_or_default();
                            crate::cpu::verif_hooks::set_run_loop_hook(None);
                            ctx.custom_violation("c15", format!("control line {:?} made the emulator panic: {} @ {}", line, msg, crate::hv::panics::take_last_location()), json!({"line": line}), json!(null), json!(null));
                            rig = sock::Rig::new(&ctx.isa);
                        }
                    }
                }
            },
        ));
    }
    units
}

fn wrap_via_run(mut u: Unit) -> Unit {
    let inner = u.run;
    u.name = format!("{}/through-run", u.name);
    u.domain = format!("the same cases, each step executed by the real Cpu::run() (one loop iteration; the run-loop hook restores the case's registers after run()'s own set-up and ends the run afterwards), so that run()'s error path handles every failing instruction: {}", u.domain);
    u.run = Box::new(move |ctx: &mut Ctx, chunk: u64| {
        ctx.via_run = true;
        (inner)(ctx, chunk);
        ctx.via_run = false;
    });
    u
}

/// The same through run() with the instruction trace (-i / ENABLE_PRINT_OPCODE) switched on: the trace line is
/// computed for every instruction, wherever the code lies (the shards' standard output is discarded).
fn wrap_via_run_with_trace(mut u: Unit) -> Unit {
    let inner = u.run;
    u.name = format!("{}/through-run-with-trace", u.name);
    u.domain = format!("the same cases through the real Cpu::run() with the instruction trace (-i) switched on, so that the trace line is computed for every instruction in every placement (code below the load base included): {}", u.domain);
    u.run = Box::new(move |ctx: &mut Ctx, chunk: u64| {
        ctx.via_run = true;
        *crate::setting::ENABLE_PRINT_OPCODE.write().unwrap() = true;
        (inner)(ctx, chunk);
        *crate::setting::ENABLE_PRINT_OPCODE.write().unwrap() = false;
        ctx.via_run = false;
    });
    u
}

pub fn c15(tier: Tier, seed: u64) -> Prop {
    let mut units = own_units(tier);
    for u in own_units(tier) {
        if matches!(u.name.as_str(), "first-words" | "placements" | "two-step") {
            units.push(wrap_via_run(u));
        }
    }
    for u in own_units(tier) {
        if u.name == "placements" {
            units.push(wrap_via_run_with_trace(u));
        }
    }
    // ---- (2) the case streams of the semantic properties, under "no unwind" only
    let thorough = tier == Tier::Thorough;
    let borrowed: Vec<(&str, Vec<Unit>)> = vec![
        ("C01", mov::c01(Tier::Quick, seed).units),
        ("C02", alu::c02(Tier::Quick, seed).units),
        ("C03", alu::c03(Tier::Quick, seed).units),
        ("C04", bits::c04(Tier::Quick, seed).units),
        ("C05", flow::c05(Tier::Quick, seed).units),
        ("C06", exc::c06(Tier::Quick, seed).units),
        ("C07", decode::c07(Tier::Quick, seed).units),
        ("C08", ea::c08(Tier::Quick, seed).units),
        ("C20", charge::c20(Tier::Quick, seed).units),
        // cross-form sequences with forced collisions over the whole encoding table (victims: every implemented form,
        // and every unimplemented one), so that state carried from one instruction into another is also run under "no unwind"
        ("xC20", super::xseq::units("C20", Tier::Quick)),
        ("xC07", super::xseq::units("C07", Tier::Quick)),
    ];
    for (p, us) in borrowed {
        for u in us {
            // quick: register / address / decode sweeps; the big value sweeps (shape V) only in the thorough tier
            if !thorough && (u.name.ends_with("/V") || u.name.ends_with("/Vfull")) {
                continue;
            }
            units.push(wrap_panic_only(u, p));
        }
    }
    Prop {
        id: "C15",
        level: "fault_enumeration",
        rule: "every case of the declared products is executed under catch_unwind in two builds of the harness + emulator (release; release + overflow-checks + debug-assertions); the verdict per case is 'no unwind' (an error result or an ignored line is fine). Own units: all first words x continuations x adversarial register files x placements incl. the last bytes of every region, all ordered pairs over a state-damaging instruction alphabet, guests and all control lines of a token grammar through the real run(); plus the complete quick-tier case streams of C01-C08 and C20 (thorough: including their full value sweeps). Non-trivial = every case of the own units and every state-changing case of the borrowed streams".into(),
        assumptions: vec![
            "allocation failure is not reachable from guest input (largest guest-controlled allocation is bounded by the 2 MiB of readable DRAM)".into(),
            "'all instruction word sequences' is infinite: bounded to all single steps over the declared state alphabet plus all two-instruction sequences over a 45-instruction alphabet".into(),
            "known finding fetch-unwrap is recognised by its site class (Result::unwrap on the bus error in cpu.rs while an instruction word of the case lies outside the map), never by line number".into(),
        ],
        units,
        extra: crate::hv::shard::no_extra(),
        profiles: vec!["release", "ovf"],
    }
}

pub fn replay_c15(case: &Value) -> bool {
    crate::hv::panics::install_quiet_hook();
    crate::hv::panics::eval_log_args(true);
    let isa = crate::hv::isa::Isa::new();
    if let Some(line) = case["line"].as_str() {
        let mut rig = sock::Rig::new(&isa);
        let l2 = line.to_string();
        let r = catch_unwind(AssertUnwindSafe(|| {
            let batches: Vec<Vec<&str>> = vec![vec![l2.as_str()], vec!["u8:430300:11", l2.as_str()]];
            sock::run_batches(&mut rig, &batches, &[1, 2], 5)
        }));
        crate::cpu::verif_hooks::set_run_loop_hook(None);
        return match r {
            Ok(o) => {
                println!("control line {:?}: run() result {}", line, o.result);
                o.returned_ok || o.result.contains(crate::cpu::verif_hooks::HORIZON_MESSAGE)
            }
            Err(_) => {
                println!("control line {:?}: the emulator panicked @ {}", line, crate::hv::panics::take_last_location());
                false
            }
        };
    }
    if let Some(desc) = case["guest"].as_str() {
        // "shapeX n=Y fail=Z"
        let nums: Vec<usize> = desc.split(|c: char| !c.is_ascii_digit()).filter(|s| !s.is_empty()).filter_map(|s| s.parse().ok()).collect();
        if nums.len() == 3 {
            let p = runloop::build(&isa, nums[0], nums[1] as u32, nums[2]);
            let mut pair = runloop::Pair::new();
            let r = catch_unwind(AssertUnwindSafe(|| runloop::run_checked(&mut pair, &p, 200_000)));
            crate::cpu::verif_hooks::set_run_loop_hook(None);
            return match r {
                Ok((o, _)) => {
                    println!("guest {}: run() result {}", desc, o.result);
                    true
                }
                Err(_) => {
                    println!("guest {}: run() panicked @ {}", desc, crate::hv::panics::take_last_location());
                    false
                }
            };
        }
    }
    if let Some(e) = case["entry"].as_str() {
        let entry = u32::from_str_radix(e, 16).unwrap_or(0x400000);
        let mut cpu = Cpu::new();
        super::irq::poke(&mut cpu, entry, &[0x00, 0x00, 0x00, 0x00]);
        cpu.er[2] = entry;
        cpu.er[7] = 0x4f0000;
        cpu.exit_addr = 0x5ffff0;
        let mut it = 0;
        crate::cpu::verif_hooks::set_run_loop_hook(Some(Box::new(move |_c: &mut Cpu| {
            it += 1;
            it > 50
        })));
        let r = catch_unwind(AssertUnwindSafe(|| cpu.run()));
        crate::cpu::verif_hooks::set_run_loop_hook(None);
        return match r {
            Ok(x) => {
                println!("entry {:06x}: run() returned {:?}", entry, x.map_err(|e| format!("{:#}", e)));
                true
            }
            Err(_) => {
                println!("entry {:06x}: run() panicked @ {}", entry, crate::hv::panics::take_last_location());
                false
            }
        };
    }
    println!("unrecognised C15 replay case: {}", case);
    false
}
