//! Long programs in lock step with the ISA reference (C01-C08).
//!
//! The cross-form sequences (xseq.rs) stop at depth 3-4.  Some state needs a long history before it
//! matters: a loop detector that fires after 16 or 1000 identical rounds, a counter that wraps, something the
//! ELF loader left behind.  This module steps *whole programs* - thousands to millions of instructions - with
//! the reference checking every single step:
//!
//!  * the repository's own example ELF files (real compiler output: the delay loops, calls, PUSH/POP
//!    prologues and libgcc helpers a compiler emits), loaded by the real `elf::load`;
//!  * a family of generated count-down / count-up loops (every decrement / increment idiom x every
//!    suitable branch condition x two bodies x counts beyond 16 and beyond 1000);
//!  * the collision alphabet of xseq.rs on a machine that has been through the real loader (an image with a
//!    read-and-execute-only segment around code, operands and stack; libc / libgcc symbol names at the
//!    addresses calls go to): whatever the loader remembers must not change how instructions execute.
//!
//! A step that the reference leaves open (TRAPA #0 = system call, a store into a port or timer register, an
//! undefined encoding) is not judged; what it wrote is accepted and the walk continues from the state the
//! implementation is in.  The units are registered under each of C01-C08; a deviating step is reported by the
//! check of the property that owns the instruction.

use super::xseq;
use crate::hv::e1::{Act, Case, Ctx, Next, StepObs};
use crate::hv::isa::{Fields, Isa};
use crate::hv::mach::Mach;
use crate::hv::shard::{Tier, Unit};
use serde_json::{json, Value};

const EXAMPLES: [&str; 5] = ["printf.elf", "one.elf", "example1.elf", "example2.elf", "example3.elf"];

fn example_path(name: &str) -> String {
    // the checks run against /repo's working tree; links.sh puts the harness sources next to it
    let root = std::env::var("VERIF_REPO_DIR").unwrap_or_else(|_| "/repo".to_string());
    format!("{}/example/{}", root, name)
}

/// Load `path` with the real loader into a fresh machine; None when the loader panics or the file is missing.
fn load_into_fresh(ctx: &mut Ctx, path: &str, args: &str) -> bool {
    ctx.m = Mach::new();
    if !std::path::Path::new(path).exists() {
        return false;
    }
    let p = path.to_string();
    let a = args.to_string();
    let cpu = &mut ctx.m.cpu;
    let r = std::panic::catch_unwind(std::panic::AssertUnwindSafe(|| crate::elf::load(p, cpu, a)));
    if r.is_err() {
        return false;
    }
    ctx.m.shadow_from_real();
    true
}

/// Step the program that is in memory from (pc, registers) for at most `max` steps in lock step.
fn walk(ctx: &mut Ctx, tag: Value, pc: u32, er: [u32; 8], ccr: u8, exit: Option<u32>, max: usize) -> usize {
    let mut init = Case::new(pc, &[]);
    init.code_len = 0;
    init.er = er;
    init.ccr = ccr;
    ctx.continue_open = true;
    ctx.seq_tag = Some(tag);
    let c20 = ctx.seq_owner == Some("C20");
    if c20 {
        ctx.cycles_only = true;
        ctx.closed_form_cost = true;
    }
    let n = ctx.run_seq_body(&init, Act::Step, max, &mut |o: &StepObs| {
        if Some(o.post_pc) == exit {
            Next::Stop
        } else {
            Next::Continue(Act::Step)
        }
    });
    ctx.continue_open = false;
    ctx.seq_tag = None;
    if c20 {
        ctx.cycles_only = false;
        ctx.closed_form_cost = false;
    }
    n
}

fn run_example(ctx: &mut Ctx, prop: &'static str, name: &str, max: usize) -> Option<usize> {
    if !load_into_fresh(ctx, &example_path(name), "") {
        ctx.m = Mach::new();
        return None;
    }
    let (pc, er, exit) = (ctx.m.cpu.er[2], ctx.m.cpu.er, ctx.m.cpu.exit_addr);
    ctx.seq_owner = Some(prop);
    let n = walk(ctx, json!({"oracle": "long-program", "kind": "example", "name": name, "prop": prop, "max": max}), pc, er, 0, Some(exit), max);
    ctx.seq_owner = None;
    ctx.m = Mach::new();
    Some(n)
}

// ------------------------------------------------------------------------------------------------
// generated loops
// ------------------------------------------------------------------------------------------------

#[derive(Clone, Debug)]
pub struct LoopSpec {
    /// index into `counters()`
    pub counter: usize,
    /// branch condition nibble
    pub cc: u8,
    pub body: usize,
    pub count: u32,
    pub in_dram: bool,
}

/// (name, row, fields, start value as a function of the count, does it count down)
fn counters(isa: &Isa) -> Vec<(&'static str, Vec<u8>, bool, u8)> {
    // register 2 is the counter in all of them; (code, counts down, size in bytes)
    let e = |n: &str, f: Fields| isa.encode(isa.row(n), &f);
    let f = Fields::default;
    vec![
        ("DEC.B R2L", e("DEC.B Rd", Fields { rd: 10, ..f() }), true, 1),
        ("DEC.W #1,R2", e("DEC.W #1,Rd", Fields { rd: 2, ..f() }), true, 2),
        ("DEC.W #2,R2", e("DEC.W #2,Rd", Fields { rd: 2, ..f() }), true, 2),
        ("DEC.L #1,ER2", e("DEC.L #1,ERd", Fields { rd: 2, ..f() }), true, 4),
        ("DEC.L #2,ER2", e("DEC.L #2,ERd", Fields { rd: 2, ..f() }), true, 4),
        ("SUBS #1,ER2 ; MOV.L ER2,ER2", [e("SUBS #1,ERd", Fields { rd: 2, ..f() }), e("MOV.L ERs,ERd", Fields { rs: 2, rd: 2, ..f() })].concat(), true, 4),
        ("SUB.W #1,R2", e("SUB.W #xx:16,Rd", Fields { rd: 2, data: 1, ..f() }), true, 2),
        ("ADD.W #-1,R2", e("ADD.W #xx:16,Rd", Fields { rd: 2, data: 0xffff, ..f() }), true, 2),
        ("MOV.L ER2,ER2 ; ADD.L #-1,ER2", [e("MOV.L ERs,ERd", Fields { rs: 2, rd: 2, ..f() }), e("ADD.L #xx:32,ERd", Fields { rd: 2, data: 0xffff_ffff, ..f() })].concat(), true, 4),
        ("SUB.L #1,ER2", e("SUB.L #xx:32,ERd", Fields { rd: 2, data: 1, ..f() }), true, 4),
        ("ADD.L #-1,ER2 ; MOV.L ER2,ER2", [e("ADD.L #xx:32,ERd", Fields { rd: 2, data: 0xffff_ffff, ..f() }), e("MOV.L ERs,ERd", Fields { rs: 2, rd: 2, ..f() })].concat(), true, 4),
        ("ADD.L #-3,ER2 ; MOV.L ER2,ER2", [e("ADD.L #xx:32,ERd", Fields { rd: 2, data: 0xffff_fffd, ..f() }), e("MOV.L ERs,ERd", Fields { rs: 2, rd: 2, ..f() })].concat(), true, 4),
        ("ADD.B #-1,R2L", e("ADD.B #xx:8,Rd", Fields { rd: 10, data: 0xff, ..f() }), true, 1),
        ("INC.W #1,R2 ; CMP.W R3,R2", [e("INC.W #1,Rd", Fields { rd: 2, ..f() }), e("CMP.W Rs,Rd", Fields { rs: 3, rd: 2, ..f() })].concat(), false, 2),
        ("INC.L #1,ER2 ; CMP.L ER3,ER2", [e("INC.L #1,ERd", Fields { rd: 2, ..f() }), e("CMP.L ERs,ERd", Fields { rs: 3, rd: 2, ..f() })].concat(), false, 4),
        ("ADDS #1,ER2 ; CMP.L ER3,ER2", [e("ADDS #1,ERd", Fields { rd: 2, ..f() }), e("CMP.L ERs,ERd", Fields { rs: 3, rd: 2, ..f() })].concat(), false, 4),
        ("INC.B R2L ; CMP.B R3L,R2L", [e("INC.B Rd", Fields { rd: 10, ..f() }), e("CMP.B Rs,Rd", Fields { rs: 11, rd: 10, ..f() })].concat(), false, 1),
    ]
}

/// every one-operand register form (shifts, rotates, NOT, NEG, EXTU, INC, DEC, ADDS, SUBS) and every two-operand
/// register / immediate form on ER4 / ER5 / ER6, once each: the loop body that makes every ALU form "hot"
fn alu_body(isa: &Isa, which: usize) -> Vec<u8> {
    use crate::hv::isa::{Sem, ROWS};
    let mut c = Vec::new();
    for (row, r) in ROWS.iter().enumerate() {
        if !r.imp {
            continue;
        }
        let f = match r.sem {
            Sem::Alu1 { sz, .. } if which == 0 => Some(Fields { rd: if sz == crate::hv::isa::Sz::B { 12 } else { 4 }, ..Fields::default() }),
            Sem::Adds(_) | Sem::Subs(_) if which == 0 => Some(Fields { rd: 4, ..Fields::default() }),
            Sem::Alu2 { sz, imm, .. } if which == 1 => {
                let b = sz == crate::hv::isa::Sz::B;
                Some(Fields { rs: if b { 13 } else { 5 }, rd: if b { 14 } else { 6 }, data: if imm { 0x8001_7f03 & sz.mask() } else { 0 }, ..Fields::default() })
            }
            Sem::Mulxu(sz) if which == 1 => Some(Fields { rs: if sz == crate::hv::isa::Sz::B { 13 } else { 5 }, rd: 6, ..Fields::default() }),
            _ => None,
        };
        if let Some(f) = f {
            c.extend(isa.encode(row, &f));
        }
    }
    c
}

fn bodies(isa: &Isa, prop: &str) -> Vec<Vec<u8>> {
    let e = |n: &str, f: Fields| isa.encode(isa.row(n), &f);
    let f = Fields::default;
    vec![
        vec![],
        e("ADD.L ERs,ERd", Fields { rs: 4, rd: 5, ..f() }),
        [e("MOV.W Rs,@-ERd", Fields { rs: 4, ra: 7, ..f() }), e("MOV.W @ERs+,Rd", Fields { ra: 7, rd: 6, ..f() })].concat(),
        [e("BSR d:8", Fields { data: 2, ..f() }), e("Bcc d:8", Fields { cc: 0, data: 2, ..f() }), e("RTS", f())].concat(),
        {
            let own = own_straight_forms(isa, prop);
            if own.len() >= 8 {
                own
            } else {
                alu_body(isa, 0)
            }
        },
        [alu_body(isa, 0), alu_body(isa, 1)].concat(),
    ]
}

/// conditions under which a count-down (to zero / below zero) or count-up (compare with limit) loop repeats
fn branch_ccs(down: bool) -> Vec<u8> {
    if down {
        vec![6, 0xa, 0xe, 2, 0xc] // BNE, BPL, BGT, BHI, BGE
    } else {
        vec![6, 0xd, 5] // BNE, BLT, BCS (BLO)
    }
}

pub fn loop_specs(tier: Tier) -> Vec<LoopSpec> {
    let isa = Isa::new();
    let nc = counters(&isa).len();
    let nb = bodies(&isa, "C02").len();
    let counts: Vec<u32> = if tier == Tier::Thorough { vec![40, 1100, 5000] } else { vec![40, 1100] };
    let mut v = Vec::new();
    for c in 0..nc {
        let down = counters(&isa)[c].2;
        for cc in branch_ccs(down) {
            for b in 0..nb {
                // the two bodies that contain every ALU form: with three counter idioms and BNE only, long count only
                if b >= 4 && !(cc == 6 && matches!(c, 1 | 3 | 13)) {
                    continue;
                }
                for &count in counts.iter() {
                    if b >= 4 && count < 1000 {
                        continue;
                    }
                    v.push(LoopSpec { counter: c, cc, body: b, count, in_dram: (c + b) % 2 == 1 });
                }
            }
        }
    }
    v
}

/// Build the loop: the counter register starts so that the loop makes about `count` rounds (8-bit counters wrap
/// and simply make fewer rounds); returns (code, start registers, address behind the loop).
pub fn build_loop(isa: &Isa, s: &LoopSpec, prop: &str) -> (u32, Vec<u8>, [u32; 8], u32) {
    let cs = counters(isa);
    let (_, ccode, down, size) = &cs[s.counter];
    let body = &bodies(isa, prop)[s.body];
    let base = if s.in_dram { 0x42_0000u32 } else { 0xff_c100 };
    let mut code: Vec<u8> = Vec::new();
    code.extend_from_slice(body);
    code.extend_from_slice(ccode);
    // branch back to the top: displacement counted from the address behind the branch
    if code.len() + 2 <= 126 {
        let disp = -((code.len() + 2) as i32);
        code.extend(isa.encode(isa.row("Bcc d:8"), &Fields { cc: s.cc, data: (disp as u32) & 0xff, ..Fields::default() }));
    } else {
        let disp = -((code.len() + 4) as i32);
        code.extend(isa.encode(isa.row("Bcc d:16"), &Fields { cc: s.cc, data: (disp as u32) & 0xffff, ..Fields::default() }));
    }
    let end = base + code.len() as u32;
    // benign tail
    code.extend_from_slice(&[0xf0, 0x00, 0xf0, 0x00, 0xf0, 0x00]);
    let mask: u32 = match size {
        1 => 0xff,
        2 => 0xffff,
        _ => 0xffff_ffff,
    };
    let mut er = [0x1111_0000u32, 0x2222_0000, 0, 0, 0x8002_8003, 0x0000_1003, 0x8421_c3a5, if s.in_dram { 0x4c_0000 } else { 0xff_e000 }];
    if *down {
        let step = if cs[s.counter].0.contains("#2") { 2 } else if cs[s.counter].0.contains("#-3") { 3 } else { 1 };
        er[2] = 0xabcd_0000 & !mask | ((s.count * step) & mask);
    } else {
        er[2] = 0x5a5a_0000 & !mask;
        er[3] = (0xc3c3_0000 & !mask) | (s.count & mask);
    }
    (base, code, er, end)
}

fn run_loop(ctx: &mut Ctx, prop: &'static str, idx: usize, s: &LoopSpec) -> usize {
    let (base, code, er, end) = build_loop(&ctx.isa, s, prop);
    ctx.m.poke_bytes(base, &code);
    ctx.seq_owner = Some(prop);
    let max = (code.len() / 2 + 2) * (s.count as usize + 2) + 64;
    let n = walk(ctx, json!({"oracle": "long-program", "kind": "loop", "index": idx, "prop": prop}), base, er, 0x00, Some(end), max);
    ctx.seq_owner = None;
    n
}

// ------------------------------------------------------------------------------------------------
// the collision alphabet on a machine that has been through the real loader
// ------------------------------------------------------------------------------------------------

/// A layout whose code arena, operands and stack all lie inside the image the loader has set up.
fn loaded_layout() -> xseq::Layout {
    let a = 0x42_0000u32; // code arena (image offset 0x9700)
    let sp = 0x4c_0000u32;
    let vec_l = |v: u32, target: u32| (4 * v, target.to_be_bytes().to_vec());
    xseq::Layout {
        name: "L4-loaded",
        er: [0x0000_0080, 0x0000_0080, 0x0048_0010, 0x0000_0007, a + 0x400, 0x5a00_0000 | (a + 0x700), 0x9abc_de33, sp],
        ccr: 0x00,
        aa8: 0x10,
        aa16: 0xd010,
        aa24: 0x48_0010,
        d16: 0x8010,
        d24: 0x00_8010,
        imm: 0x80,
        jmp24: a + 0x500,
        mind: 0x10,
        patches: vec![
            (0x48_0010, vec![0xa5, 0x96, 0x87, 0x78]),
            (0xff_ff10, vec![0x5a, 0x69, 0x78, 0x87]),
            (0x47_8020, vec![0xc3, 0x3d, 0x4e, 0x5f]),
            (0x48_8020, vec![0x3c, 0xc2, 0xb1, 0xa0]),
            (0xff_d010, vec![0x69, 0x17, 0x28, 0x39]),
            (sp, (0x2a00_0000u32 | (a + 0x800)).to_be_bytes().to_vec()),
            (sp + 4, (0x8100_0000u32 | (a + 0x880)).to_be_bytes().to_vec()),
            (0x10, (a + 0x600).to_be_bytes().to_vec()),
            vec_l(9, a + 0x900),
            vec_l(10, a + 0x980),
            vec_l(36, a + 0xa00),
            vec_l(37, a + 0xa80),
        ],
        p0: a + 0x100,
        arena: (a, a + 0x1000),
        host: vec![(0x48_0010, 0x33), (0xff_ff10, 0xcc), (sp + 3, 0x40)],
    }
}

/// The ELF for the loaded machine: one read+execute PT_LOAD (flags 5) from the load base to beyond the stack
/// (file contents: 16 bytes; the rest is .bss), one small read+write PT_LOAD behind it, a symbol table with the
/// names a C run time has at the addresses the alphabet's calls and jumps go to.
fn loaded_spec() -> super::elf::Spec {
    use super::elf::{default_spec, Seg};
    let base = 0x41_6900u32;
    let a = 0x42_0000u32 - base;
    let mut s = default_spec();
    s.segs = vec![Seg { vaddr: 0, filesz: 0x10, memsz: 0x4c_1000 - base }, Seg { vaddr: 0x4c_2000 - base, filesz: 4, memsz: 8 }];
    s.file_order = vec![0, 1];
    s.got = None;
    s.stack_size = 0x400;
    s.load_flags = vec![5, 6];
    let names = ["___udivsi3", "___umodsi3", "___divsi3", "___modsi3", "___mulsi3", "_memcpy", "_memset", "_strlen", "_printf", "_main", "_exit", "_start", "___main", "_abort", "_puts", "_putchar", "___ashlsi3", "___lshrsi3", "___ashrsi3", "___cmpsi2", "___ucmpsi2", "_malloc", "_free", "___write", "_int_handler"];
    let targets = [a + 0x400, a + 0x500, a + 0x600, a + 0x800, a + 0x880, a + 0x900, a + 0x980, a + 0xa00, a + 0xa80, a + 0x100 + 2 + 0x10, a + 0x100 + 4 + 0x10, a + 0x100];
    let mut syms: Vec<(String, u32)> = vec![("___exit".into(), a + 0xff0)];
    for (i, n) in names.iter().enumerate() {
        syms.push((n.to_string(), targets[i % targets.len()]));
    }
    s.symbols = syms;
    s
}

/// Put ctx.m through the real loader with the loaded-machine image; false (and a machinery note) when that fails.
pub fn load_loaded_machine(ctx: &mut Ctx, chunk: u64) -> bool {
    let spec = loaded_spec();
    let path = crate::hv::shard::verif_dir().join(".work").join(format!("loaded-{}-{}.elf", std::process::id(), chunk));
    let _ = std::fs::create_dir_all(path.parent().unwrap());
    if std::fs::write(&path, spec.build()).is_err() {
        ctx.machinery("cannot write the scratch ELF file".into());
        return false;
    }
    let ok = load_into_fresh(ctx, path.to_str().unwrap(), "");
    let _ = std::fs::remove_file(&path);
    if !ok {
        ctx.machinery("the real loader rejected the generated ELF of the loaded-machine unit".into());
        ctx.m = Mach::new();
        return false;
    }
    true
}

fn run_loaded(ctx: &mut Ctx, prop: &'static str, chunk: u64, nchunks: u64) {
    if !load_loaded_machine(ctx, chunk) {
        return;
    }
    let l = loaded_layout();
    let sigma = xseq::alphabet(&ctx.isa, &l);
    let victims: Vec<usize> = sigma.iter().enumerate().filter(|(_, s)| s.owners.contains(&prop)).map(|(i, _)| i).collect();
    let init = xseq::init_case_pub(&l);
    ctx.track_queue = true;
    ctx.cycles_only = prop == "C20";
    ctx.closed_form_cost = prop == "C20";
    for (ai, a) in sigma.iter().enumerate() {
        if ai as u64 % nchunks != chunk {
            continue;
        }
        if ai < victims.len() {
            xseq::run_symbols(ctx, &l, &init, &[&sigma[victims[ai]]]);
        }
        for &b in victims.iter() {
            xseq::run_symbols(ctx, &l, &init, &[a, &sigma[b]]);
        }
    }
    ctx.track_queue = false;
    ctx.cycles_only = false;
    ctx.closed_form_cost = false;
    ctx.m = Mach::new();
}

/// every register / immediate form that belongs to `prop` (no memory operand, no control flow), once each
fn own_straight_forms(isa: &Isa, prop: &str) -> Vec<u8> {
    use crate::hv::isa::{Mode, Sem, Sz, ROWS};
    let mut c = Vec::new();
    for (row, r) in ROWS.iter().enumerate() {
        if !r.imp || !xseq::owners_of(r.sem).contains(&prop) {
            continue;
        }
        let b = |sz: Sz| sz == Sz::B;
        let f = match r.sem {
            Sem::Mov { sz, mode: Mode::Reg, .. } => Some(Fields { rs: if b(sz) { 13 } else { 5 }, rd: if b(sz) { 14 } else { 6 }, ..Fields::default() }),
            Sem::Mov { sz, mode: Mode::Imm, .. } => Some(Fields { rd: if b(sz) { 14 } else { 6 }, data: 0x8001_7f03 & sz.mask(), ..Fields::default() }),
            Sem::Alu1 { sz, .. } => Some(Fields { rd: if b(sz) { 12 } else { 4 }, ..Fields::default() }),
            Sem::Adds(_) | Sem::Subs(_) => Some(Fields { rd: 4, ..Fields::default() }),
            Sem::Alu2 { sz, imm, .. } => Some(Fields { rs: if b(sz) { 13 } else { 5 }, rd: if b(sz) { 14 } else { 6 }, data: if imm { 0x8001_7f03 & sz.mask() } else { 0 }, ..Fields::default() }),
            Sem::Mulxu(sz) => Some(Fields { rs: if b(sz) { 13 } else { 5 }, rd: 6, ..Fields::default() }),
            Sem::Bit { loc: Mode::Reg, .. } => Some(Fields { rd: 12, rn: 13, bitn: 5, ..Fields::default() }),
            Sem::StcB => Some(Fields { rd: 12, ..Fields::default() }),
            _ => None,
        };
        if let Some(f) = f {
            c.extend(isa.encode(row, &f));
        }
    }
    c
}

/// every register / immediate ALU form once (the straight-line building block other modules use)
pub fn straight_code(isa: &Isa) -> Vec<u8> {
    [alu_body(isa, 0), alu_body(isa, 1)].concat()
}

fn run_straight_or_idle(ctx: &mut Ctx, prop: &'static str, chunk: u64) {
    let isa = Isa::new();
    ctx.seq_owner = Some(prop);
    if chunk < 2 {
        let base = if chunk == 0 { 0xff_c100u32 } else { 0x42_0000 };
        let mut code: Vec<u8> = Vec::new();
        let mut unit = own_straight_forms(&isa, prop);
        if unit.len() < 8 {
            unit = [alu_body(&isa, 0), alu_body(&isa, 1)].concat();
        }
        while code.len() + unit.len() < 0x2f00 {
            code.extend_from_slice(&unit);
        }
        let end = base + code.len() as u32;
        code.extend_from_slice(&[0xf0, 0x00, 0xf0, 0x00]);
        ctx.m.poke_bytes(base, &code);
        let er = [0x1111_0000u32, 0x2222_0000, 0x3333_0000, 0x4444_0000, 0x8002_8003, 0x0000_1003, 0x8421_c3a5, 0x00ff_e000];
        let n = walk(ctx, json!({"oracle": "long-program", "kind": "straight", "chunk": chunk, "prop": prop}), base, er, 0, Some(end), 8000);
        *ctx.st.notes.entry("straight-line steps".into()).or_insert(0) += n as u64;
    } else {
        let base = if chunk == 2 { 0xff_c100u32 } else { 0x42_0000 };
        // BRA . (40 FE)
        ctx.m.poke_bytes(base, &[0x40, 0xfe]);
        let er = crate::hv::dom::background_regs();
        let n = walk(ctx, json!({"oracle": "long-program", "kind": "idle", "chunk": chunk, "prop": prop}), base, er, 0, None, 12_000);
        // BTST #0,@H'10:8 ; BEQ .-4   (polls a byte that stays 0)
        let mut poll = isa.encode(isa.row("BTST #xx:3,@aa:8"), &Fields { bitn: 0, data: 0x10, ..Fields::default() });
        poll.extend(isa.encode(isa.row("Bcc d:8"), &Fields { cc: 7, data: 0xfa, ..Fields::default() }));
        ctx.m.poke_bytes(base + 0x40, &poll);
        ctx.m.poke(0xff_ff10, 0x00);
        let n2 = walk(ctx, json!({"oracle": "long-program", "kind": "idle", "chunk": chunk, "prop": prop}), base + 0x40, er, 0, None, 12_000);
        *ctx.st.notes.entry("idle-loop steps".into()).or_insert(0) += (n + n2) as u64;
    }
    ctx.seq_owner = None;
}

pub fn units(prop: &'static str, tier: Tier) -> Vec<Unit> {
    let mut units = Vec::new();
    let thorough = tier == Tier::Thorough;
    // ---- the repository's example programs
    let max = if thorough { 40_000_000usize } else { 400_000 };
    units.push(Unit::new(
        "programs/examples",
        EXAMPLES.len() as u64,
        &format!("the repository's example ELF files {:?} (real compiler output), loaded by the real elf::load and stepped for up to {} instructions (or to the exit address) in lock step with the reference; system calls and stores into port / timer registers are not judged; a deviating step is reported by the property that owns the instruction", EXAMPLES, max),
        move |ctx, chunk| {
            let name = EXAMPLES[chunk as usize];
            match run_example(ctx, prop, name, max) {
                Some(n) => *ctx.st.notes.entry(format!("steps of {}", name)).or_insert(0) += n as u64,
                None => *ctx.st.notes.entry(format!("{} missing or rejected by the loader (not run)", name)).or_insert(0) += 1,
            }
        },
    ));
    // ---- generated loops
    let specs = loop_specs(tier);
    let ns = specs.len() as u64;
    units.push(Unit::new(
        "programs/loops",
        16,
        &format!("{} generated loops: 15 decrement / increment idioms (DEC/INC B/W/L #1/#2, SUBS/ADDS, SUB/ADD #imm B/W/L, MOV.L ERn,ERn + ADD.L #-1, INC + CMP) x every suitable branch condition (BNE, BPL, BGT, BHI / BNE, BLT, BCS) x 4 bodies (empty, ALU, PUSH/POP, BSR/RTS) x round counts {:?}, code in on-chip RAM and DRAM, every step in lock step with the reference", ns, if thorough { vec![40, 1100, 5000] } else { vec![40, 1100] }),
        move |ctx, chunk| {
            let specs = loop_specs(tier);
            for (i, s) in specs.iter().enumerate() {
                if i as u64 % 16 != chunk {
                    continue;
                }
                let n = run_loop(ctx, prop, i, s);
                *ctx.st.notes.entry("loop steps".into()).or_insert(0) += n as u64;
                if ctx.stop {
                    return;
                }
            }
        },
    ));
    // ---- long straight-line code (no taken branch for more than 1024 instruction words) and idle loops
    units.push(Unit::new(
        "programs/straight-and-idle",
        4,
        "chunks 0-1: 2600 instructions without any branch (every implemented register / immediate ALU and MOV form in turn, cycled), in on-chip RAM and in DRAM; chunks 2-3: the idle loops `BRA .` and `BTST #0,@aa:8 ; BEQ .-4` executed 12,000 times at one address; every step in lock step with the reference",
        move |ctx, chunk| run_straight_or_idle(ctx, prop, chunk),
    ));
    // ---- the collision alphabet on a loaded machine
    units.push(Unit::new(
        "programs/loaded-machine",
        16,
        "a machine that has been through the real elf::load (one read+execute PT_LOAD around code arena, operands and stack, one read+write PT_LOAD, 25 C run-time symbol names at the addresses calls and jumps go to): every sequence of <= 2 symbols of the collision alphabet ending in one of this property's forms, code, operands and stack inside the loaded image",
        move |ctx, chunk| run_loaded(ctx, prop, chunk, 16),
    ));
    units
}

/// Replay of a long-program counterexample (`regen` tag): re-create the program and walk it again.
pub fn replay(ctx: &mut Ctx, tag: &Value) {
    let prop: &'static str = match tag["prop"].as_str().unwrap_or("") {
        "C01" => "C01",
        "C02" => "C02",
        "C03" => "C03",
        "C04" => "C04",
        "C05" => "C05",
        "C06" => "C06",
        "C07" => "C07",
        "C20" => "C20",
        _ => "C08",
    };
    match tag["kind"].as_str() {
        Some("example") => {
            let name = tag["name"].as_str().unwrap_or("printf.elf").to_string();
            let max = tag["max"].as_u64().unwrap_or(400_000) as usize;
            let _ = run_example(ctx, prop, &name, max);
        }
        Some("straight") | Some("idle") => run_straight_or_idle(ctx, prop, tag["chunk"].as_u64().unwrap_or(0)),
        Some("loop") => {
            let i = tag["index"].as_u64().unwrap_or(0) as usize;
            for tier in [Tier::Quick, Tier::Thorough] {
                let specs = loop_specs(tier);
                if i < specs.len() {
                    run_loop(ctx, prop, i, &specs[i]);
                    break;
                }
            }
        }
        _ => {}
    }
}
