//! C01 — MOV / PUSH / POP.
use super::memform::*;
use super::regform;
use crate::hv::dom::{self, K16, K4};
use crate::hv::e1::{Case, Ctx};
use crate::hv::isa::{Fields, Isa, Mode, Sem, Sz, ROWS};
use crate::hv::sem::{self, M24};
use crate::hv::shard::{chunk_range, no_extra, Prop, Tier, Unit};

fn all_vals(sz: Sz, seed: u64) -> Vec<u32> {
    match sz {
        Sz::B => (0..256).collect(),
        Sz::W => (0..65536).collect(),
        Sz::L => dom::v32(seed),
    }
}

fn small_vals(sz: Sz) -> Vec<u32> {
    match sz {
        Sz::B => vec![0x00, 0x80, 0x7f, 0xff, 0x5a, 0x01],
        Sz::W => vec![0x0000, 0x8000, 0x7fff, 0xffff, 0x1234, 0x00ff],
        Sz::L => vec![0x00000000, 0x80000000, 0x7fffffff, 0xffffffff, 0x12345678, 0x0000ffff],
    }
}

/// addresses a mode can express, drawn from the three storage regions
fn addresses_for(shape: &MemShape, seed: u64) -> Vec<u32> {
    let even = shape.sz != Sz::B;
    let n = shape.sz.bytes();
    let mut v = dom::addr_cov(even, n);
    match shape.mode {
        Mode::A8 => {
            v = (0xffff00u32..=0xffff1f).chain(0xffff20..=0xffffe9).filter(|a| (!even || a % 2 == 0) && a + n - 1 <= 0xffffe9 && !(*a <= 0xffff1f && a + n - 1 > 0xffff1f)).collect();
            v.retain(|a| (0..n).all(|k| !sem::is_port_reg(a + k) && !sem::is_timer_reg(a + k)));
        }
        Mode::A16 => v.retain(|a| abs_field(Mode::A16, *a).is_some()),
        _ => {}
    }
    v
}

pub fn mov_units(name: &'static str, tier: Tier, seed: u64) -> Vec<Unit> {
    let isa = Isa::new();
    let row = isa.row(name);
    let sem = ROWS[row].sem;
    let shape = match mem_shape(sem) {
        Some(s) => s,
        None => return regform::units_for_row(name, tier, seed),
    };
    let thorough = tier == Tier::Thorough;
    let mut units = Vec::new();
    let sz = shape.sz;
    let n = sz.bytes();

    // ---- shape V: all data values x CCR at one address (per region: on-chip RAM and DRAM)
    {
        let vals = all_vals(sz, seed);
        let nv = vals.len() as u64;
        let ccrs: Vec<u8> = if sz == Sz::W && !thorough { K16.to_vec() } else { (0..=255u8).collect() };
        let chunks = (nv / 512).clamp(1, 64);
        let dom = format!("{} data values ({}) x {} CCR values x operand in on-chip RAM and DRAM, fixed registers", nv, if sz == Sz::L { "covering set V32" } else { "all" }, ccrs.len());
        units.push(Unit::new(&format!("{}/V", name), chunks, &dom, move |ctx, chunk| {
            let regs = dom::background_regs();
            let (lo, hi) = chunk_range(nv, chunks, chunk);
            for &target in &[dom::DATA_RAM + 0x40, dom::DATA_DRAM + 0x40] {
                let mut f = default_fields(sz);
                let mut ea = target;
                match shape.mode {
                    Mode::A8 => {
                        ea = 0xffff08;
                        f.data = 0x08;
                    }
                    Mode::A16 => {
                        ea = if target == dom::DATA_RAM + 0x40 { 0xffd040 } else { 0x000040 };
                        f.data = ea & 0xffff;
                    }
                    Mode::A24 => f.data = ea,
                    Mode::D16 => f.data = 0xfff0, // -16
                    Mode::D24 => f.data = 0x000124,
                    _ => {}
                }
                let base = base_for(&shape, ea, f.data, 0x00);
                for i in lo..hi {
                    let v = vals[i as usize];
                    for &ccr in ccrs.iter() {
                        let c = build_case(&ctx.isa, row, &f, &shape, base, v, if shape.load { Some(ea) } else { None }, dom::CODE_RAM, ccr, &regs);
                        ctx.run(&c);
                    }
                }
            }
        }));
    }

    // ---- shape R: all register numbers in both fields
    {
        let nd: u8 = if sz == Sz::L { 8 } else { 16 };
        let uses_areg = matches!(shape.mode, Mode::Ind | Mode::Inc | Mode::D16 | Mode::D24);
        let na: u8 = if uses_areg { 8 } else { 1 };
        let vals = small_vals(sz);
        let dom = format!("all {} data registers x {} address registers x upper address byte {{5a, a5, ff}} x {} values x K4 CCR (overlapping +/- pairs left open as the quantifier says)", nd, na, vals.len());
        units.push(Unit::new(&format!("{}/R", name), nd as u64, &dom, move |ctx, chunk| {
            let regs = dom::background_regs();
            let dreg = chunk as u8;
            for ra in 0..na {
                let mut f = default_fields(sz);
                f.rs = dreg;
                f.rd = dreg;
                f.ra = ra;
                let mut ea = dom::DATA_RAM + 0x80 + 0x10 * ra as u32;
                match shape.mode {
                    Mode::A8 => {
                        ea = 0xffff10;
                        f.data = 0x10;
                    }
                    Mode::A16 => {
                        ea = 0xffd080;
                        f.data = 0xd080;
                    }
                    Mode::A24 => f.data = ea,
                    Mode::D16 => f.data = 0x0102,
                    Mode::D24 => f.data = 0xfffefe,
                    _ => {}
                }
                // upper byte of the address register: every bit both ways (it takes no part in addressing)
                for top in [0x5au8, 0xa5, 0xff] {
                    if !uses_areg && top != 0x5a {
                        continue;
                    }
                    let base = base_for(&shape, ea, f.data, top);
                    for &v in vals.iter() {
                        for &ccr in &K4 {
                            let c = build_case(&ctx.isa, row, &f, &shape, base, v, if shape.load { Some(ea) } else { None }, dom::CODE_RAM, ccr, &regs);
                            ctx.run(&c);
                        }
                    }
                }
            }
        }));
    }

    // ---- shape A: operand addresses across the three storage regions
    {
        let addrs = addresses_for(&shape, seed);
        let na = addrs.len() as u64;
        let vals = small_vals(sz);
        let dom = format!("{} operand addresses (first/last bytes, bit-walk and interior grid of vector area, DRAM, on-chip RAM{}) x {} values x K4 CCR, code in RAM and DRAM", na, if sz == Sz::B { "" } else { "; even" }, vals.len());
        units.push(Unit::new(&format!("{}/A", name), 4, &dom, move |ctx, chunk| {
            let regs = dom::background_regs();
            let (lo, hi) = chunk_range(na, 4, chunk);
            for i in lo..hi {
                let ea = addrs[i as usize];
                let mut f = default_fields(sz);
                match shape.mode {
                    Mode::A8 | Mode::A16 | Mode::A24 => match abs_field(shape.mode, ea) {
                        Some(x) => f.data = x,
                        None => continue,
                    },
                    Mode::D16 => f.data = if i % 2 == 0 { 0x7ffe } else { 0x8000 },
                    Mode::D24 => f.data = if i % 2 == 0 { 0x7ffffe } else { 0x800000 },
                    _ => {}
                }
                let base = base_for(&shape, ea, f.data, (i as u8).wrapping_mul(37));
                for &pc in &[dom::CODE_RAM, dom::CODE_DRAM] {
                    // keep code and data apart
                    if ea.wrapping_sub(pc) < 32 || pc.wrapping_sub(ea) < 8 {
                        continue;
                    }
                    for &v in vals.iter().take(3) {
                        for &ccr in &K4 {
                            let c = build_case(&ctx.isa, row, &f, &shape, base, v, if shape.load { Some(ea) } else { None }, pc, ccr, &regs);
                            ctx.run(&c);
                        }
                    }
                }
            }
        }));
    }
    units
}

pub const C01_ROWS: &[&str] = &[
    "MOV.B Rs,Rd", "MOV.B #xx:8,Rd", "MOV.B @ERs,Rd", "MOV.B Rs,@ERd", "MOV.B @(d:16,ERs),Rd", "MOV.B Rs,@(d:16,ERd)",
    "MOV.B @(d:24,ERs),Rd", "MOV.B Rs,@(d:24,ERd)", "MOV.B @ERs+,Rd", "MOV.B Rs,@-ERd", "MOV.B @aa:8,Rd", "MOV.B Rs,@aa:8",
    "MOV.B @aa:16,Rd", "MOV.B Rs,@aa:16", "MOV.B @aa:24,Rd", "MOV.B Rs,@aa:24",
    "MOV.W Rs,Rd", "MOV.W #xx:16,Rd", "MOV.W @ERs,Rd", "MOV.W Rs,@ERd", "MOV.W @(d:16,ERs),Rd", "MOV.W Rs,@(d:16,ERd)",
    "MOV.W @(d:24,ERs),Rd", "MOV.W Rs,@(d:24,ERd)", "MOV.W @ERs+,Rd", "MOV.W Rs,@-ERd",
    "MOV.W @aa:16,Rd", "MOV.W Rs,@aa:16", "MOV.W @aa:24,Rd", "MOV.W Rs,@aa:24",
    "MOV.L ERs,ERd", "MOV.L #xx:32,ERd", "MOV.L @ERs,ERd", "MOV.L ERs,@ERd", "MOV.L @(d:16,ERs),ERd", "MOV.L ERs,@(d:16,ERd)",
    "MOV.L @(d:24,ERs),ERd", "MOV.L ERs,@(d:24,ERd)", "MOV.L @ERs+,ERd", "MOV.L ERs,@-ERd",
    "MOV.L @aa:16,ERd", "MOV.L ERs,@aa:16", "MOV.L @aa:24,ERd", "MOV.L ERs,@aa:24",
];

pub fn c01(tier: Tier, seed: u64) -> Prop {
    let mut units = Vec::new();
    for r in C01_ROWS {
        units.extend(mov_units(r, tier, seed));
    }
    // ---- a machine on which the MES system calls have been made (handlers installed for every vector, text written):
    //      whatever a system call remembers must not change where MOV stores go afterwards
    units.push(Unit::new(
        "after-system-calls",
        16,
        "after set_handler for every vector 1-63 and one console write through the real TRAPA #0: MOV.B R0L,@ER1 to every byte, MOV.W R0,@ER1 to every even address and MOV.L ER0,@ER1 to every long-aligned address of on-chip RAM and of the vector area, each compared with the reference (the stored bytes and nothing else change)",
        move |ctx, chunk| {
            ctx.m = crate::hv::mach::Mach::new();
            super::mes::ensure_socket(ctx);
            // the calls themselves (their own effects are C14's subject: the shadow simply takes them over)
            let code_at = dom::CODE_DRAM + 0x40;
            let arg = dom::DATA_DRAM + 0x200;
            for v in 1..=63u32 {
                ctx.m.poke_bytes(code_at, &[0x57, 0x00]);
                ctx.m.poke_bytes(arg, &v.to_be_bytes());
                ctx.m.poke_bytes(arg + 4, &(0x0041_7000u32 + 0x10 * v).to_be_bytes());
                let cpu = &mut ctx.m.cpu;
                cpu.er = dom::background_regs();
                cpu.er[0] = 113;
                cpu.er[1] = arg;
                cpu.er[7] = dom::STACK_DRAM;
                cpu.vh_set_pc(code_at);
                cpu.vh_set_ccr(0x80);
                let _ = cpu.vh_step();
            }
            {
                ctx.m.poke_bytes(arg, &1u32.to_be_bytes());
                ctx.m.poke_bytes(arg + 4, &(arg + 0x20).to_be_bytes());
                ctx.m.poke_bytes(arg + 8, &3u32.to_be_bytes());
                ctx.m.poke_bytes(arg + 0x20, b"ok\n");
                let cpu = &mut ctx.m.cpu;
                cpu.er[0] = 104;
                cpu.er[1] = arg;
                cpu.vh_set_pc(code_at);
                let _ = cpu.vh_step();
            }
            let _ = super::mes::drain();
            ctx.m.restore();
            ctx.m.shadow_from_real();
            let regs = dom::background_regs();
            let rows = [(ctx.isa.row("MOV.B Rs,@ERd"), 1u32), (ctx.isa.row("MOV.W Rs,@ERd"), 2), (ctx.isa.row("MOV.L ERs,@ERd"), 4)];
            let areas: [(u32, u32); 2] = [(0xffbf20, 0xffff1f), (0x000000, 0x0000ff)];
            for (row, n) in rows {
                let f = Fields { rs: if n == 1 { 8 } else { 0 }, ra: 1, ..Fields::default() };
                let code = ctx.isa.encode(row, &f);
                for (lo, hi) in areas {
                    let mut a = lo;
                    let mut k = 0u64;
                    while a + n - 1 <= hi {
                        if k % 16 == chunk {
                            let mut c = Case::new(dom::CODE_DRAM, &code);
                            c.er = regs;
                            c.er[0] = 0x6b3c_19e5 ^ a;
                            c.er[1] = a | 0x7700_0000;
                            c.ccr = a as u8;
                            ctx.run(&c);
                        }
                        a += n;
                        k += 1;
                    }
                }
            }
            ctx.m = crate::hv::mach::Mach::new();
        },
    ));
    Prop {
        id: "C01",
        level: "exploration",
        rule: "cases are the full product of the declared finite sets per unit (distinct by construction); non-trivial = the reference outcome changes a register, a flag or memory, or is an error outcome".into(),
        assumptions: vec![
            "reference semantics written from the property statement".into(),
            "all guest memory is compared with a shadow copy (periodic full comparison + pre-overwrite checks), so 'no other memory byte changes' is checked on every byte".into(),
            "32-bit data and interior addresses come from declared covering sets".into(),
            "data register overlapping the +/- address register, and W/L operands at odd addresses, are left open".into(),
        ],
        units,
        extra: no_extra(),
        profiles: vec!["release"],
    }
}
