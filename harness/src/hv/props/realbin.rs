//! E6 (supplementary, never the only evidence): the repository's own release binary as a process.
//! Covers what cannot be compiled into the harness: `main.rs` (argument handling, `connect_socket`,
//! `elf::load`, `run()` wired together) and the two socket worker threads over real TCP.
//! OS scheduling is sampled here, not enumerated; inputs are enumerated.
use super::elf::{elf_with_code, repo_binary, BASE};
use super::runloop;
use crate::hv::e1::Ctx;
use crate::hv::isa::{Fields, Isa};
use crate::hv::shard::Unit;
use serde_json::json;
use std::io::Write;

fn scratch(tag: &str) -> std::path::PathBuf {
    crate::hv::shard::verif_dir().join(".work").join(format!("e6-{}-{}.elf", std::process::id(), tag))
}

/// C13: counted-loop / call / port-write guests around a sync threshold through the real binary;
/// the `msg:` stream must equal the message sequence of the in-process (twin-checked) run.
pub fn c13_unit() -> Unit {
    Unit::new(
        "real-binary/run",
        9,
        "the repository's own release binary runs guest shapes {counted loop, call in loop, port write in loop} with loop counts {N*-1, N*, N*+1} around the first sync threshold (N* computed on the implementation): its `msg:` stream must equal the message sequence of the in-process run of the same program and the process must exit normally; a guest with a failing instruction must end the process with a failure status; every terminating guest a second time with -w but without -s (the flag alone must change nothing)",
        move |ctx, chunk| {
            let bin = match repo_binary() {
                Some(b) => b,
                None => {
                    ctx.machinery("VERIF_REPO_BIN not set / repository binary not built".into());
                    return;
                }
            };
            let shape = [1usize, 3, 4][(chunk / 3) as usize];
            let dn = (chunk % 3) as i64 - 1;
            let mut pair = runloop::Pair::new();
            let (o1, _) = runloop::run_checked(&mut pair, &runloop::build(&ctx.isa, shape, 10, 0), 1_000_000);
            let (o2, _) = runloop::run_checked(&mut pair, &runloop::build(&ctx.isa, shape, 20, 0), 1_000_000);
            let b = ((o2.state_sum - o1.state_sum) / 10).max(1);
            let a = o1.state_sum - 10 * b;
            let nstar = (2_000_000usize.saturating_sub(a) + b - 1) / b;
            let n = (nstar as i64 + dn).max(1) as u32;
            for fail in [0usize, 2] {
                let p = runloop::build(&ctx.isa, shape, n, fail);
                let (o, v) = runloop::run_checked(&mut pair, &p, 50_000_000);
                if let Some(m) = v {
                    ctx.custom_violation("c13", format!("in-process reference run failed: {}", m), json!({"shape": shape, "n": n, "fail": fail}), json!(null), json!(null));
                    continue;
                }
                let file = elf_with_code(&p.code, p.exit_addr - BASE, 0x400, 0);
                let path = scratch(&format!("run{}", chunk));
                let _ = std::fs::write(&path, &file);
                let out = std::process::Command::new("timeout").args(["30", &bin, "-e", path.to_str().unwrap_or(""), "-m", "--log", "off"]).env("RUST_BACKTRACE", "0").output();
                // the wait-for-start flag means something only together with the socket: alone it must change nothing
                if fail == 0 {
                    let outw = std::process::Command::new("timeout").args(["20", &bin, "-e", path.to_str().unwrap_or(""), "-m", "-w", "--log", "off"]).env("RUST_BACKTRACE", "0").output();
                    ctx.st.cases += 1;
                    ctx.st.nontrivial += 1;
                    if let (Ok(a), Ok(b)) = (&out, &outw) {
                        if a.stdout != b.stdout || a.status.code() != b.status.code() {
                            ctx.custom_violation("c13", format!("with -w but without -s the binary behaves differently: exit {:?} vs {:?}, {} vs {} bytes of messages (124 = killed after 20 s)", b.status.code(), a.status.code(), b.stdout.len(), a.stdout.len()), json!({"shape": shape, "n": n, "fail": fail, "real_binary": true, "flags": "-w"}), json!(null), json!(null));
                        }
                    }
                }
                let _ = std::fs::remove_file(&path);
                ctx.st.cases += 1;
                ctx.st.nontrivial += 1;
                let case = json!({"shape": shape, "n": n, "fail": fail, "real_binary": true});
                match out {
                    Ok(pr) => {
                        let mut want = String::new();
                        for m in o.messages.iter() {
                            if let Some(t) = m.strip_prefix("stdout:") {
                                want.push_str(t);
                            }
                            want.push_str(&format!("msg: {}\n", m));
                        }
                        let got = String::from_utf8_lossy(&pr.stdout).to_string();
                        if (fail == 0) != pr.status.success() {
                            ctx.custom_violation("c13", format!("guest with fail={} made the binary exit with {:?}", fail, pr.status.code()), case, json!(null), json!(null));
                        } else if got != want {
                            let k = got.bytes().zip(want.bytes()).position(|(x, y)| x != y).unwrap_or(got.len().min(want.len()));
                            ctx.custom_violation(
                                "c13",
                                format!("the binary's message stream differs from the in-process run at byte {}: got ...{:?}, expected ...{:?} ({} vs {} bytes)", k, got.chars().skip(k.saturating_sub(20)).take(60).collect::<String>(), want.chars().skip(k.saturating_sub(20)).take(60).collect::<String>(), got.len(), want.len()),
                                case,
                                json!(null),
                                json!(null),
                            );
                        }
                    }
                    Err(e) => ctx.machinery(format!("cannot run the binary: {}", e)),
                }
            }
            ctx.sample(json!({"real_binary": true, "shape": shape, "n": n}));
        },
    )
}

/// Start the binary with `-s` on a free loopback port and connect to it (a busy port makes the binary give up at
/// once, so a few ports are tried).
fn spawn_with_socket(bin: &str, elf: &std::path::Path, extra: &[&str], salt: u64) -> Result<(std::process::Child, std::net::TcpStream), String> {
    for attempt in 0..12u64 {
        let port = 31000 + ((std::process::id() as u64 * 13 + salt * 977 + attempt * 3331) % 20000);
        // a port some other process listens on would make the client talk to a stranger: probe it first
        if std::net::TcpListener::bind(("127.0.0.1", port as u16)).is_err() {
            continue;
        }
        let mut args: Vec<String> = vec!["-e".into(), elf.to_str().unwrap_or("").into(), "-s".into(), "-p".into(), port.to_string(), "--log".into(), "off".into()];
        args.extend(extra.iter().map(|x| x.to_string()));
        let child = std::process::Command::new(bin).args(&args).env("RUST_BACKTRACE", "0").stdout(std::process::Stdio::null()).stderr(std::process::Stdio::null()).spawn();
        let mut child = match child {
            Ok(c) => c,
            Err(e) => return Err(format!("cannot start the binary: {}", e)),
        };
        for _ in 0..600 {
            if let Ok(s) = std::net::TcpStream::connect(("127.0.0.1", port as u16)) {
                return Ok((child, s));
            }
            if let Ok(Some(_)) = child.try_wait() {
                break; // the binary ended already (port in use)
            }
            std::thread::sleep(std::time::Duration::from_millis(5));
        }
        let _ = child.kill();
        let _ = child.wait();
    }
    Err("could not connect to the emulator's control socket on twelve ports".into())
}

/// C13 over the control socket: what a client receives up to the end of the connection is exactly the message
/// sequence of the in-process run, also when the run ends (normally or with a failing instruction) right after a message.
pub fn c13_socket_unit(thorough: bool) -> Unit {
    let configs: Vec<(u32, usize)> = vec![(1, 0), (3, 2), (3, 4), (3, 6), (50, 0), (50, 2), (2000, 0), (2000, 2)];
    let reps = if thorough { 40 } else { 8 };
    let dom = format!(
        "the repository's own release binary with -s, guest = port write in a loop of {{1, 3, 50, 2000}} iterations ending normally or in a failing instruction a few instructions after the last message ({} guests x {} repetitions): every second repetition with -m as well: the lines a loopback client receives until the connection ends must be exactly the message sequence of the in-process run, and the exit status must tell failure from success (OS scheduling sampled, guests enumerated)",
        configs.len(),
        reps
    );
    Unit::new("real-binary/socket-stream", configs.len() as u64, &dom, move |ctx, chunk| {
        use std::io::Read;
        let bin = match repo_binary() {
            Some(b) => b,
            None => {
                ctx.machinery("VERIF_REPO_BIN not set / repository binary not built".into());
                return;
            }
        };
        let (n, fail) = configs[chunk as usize];
        let mut pair = runloop::Pair::new();
        let p = runloop::build(&ctx.isa, 4, n, fail);
        let (o, v) = runloop::run_checked(&mut pair, &p, 50_000_000);
        if let Some(m) = v {
            ctx.custom_violation("c13", format!("in-process reference run failed: {}", m), json!({"shape": 4, "n": n, "fail": fail}), json!(null), json!(null));
            return;
        }
        let file = elf_with_code(&p.code, p.exit_addr - BASE, 0x400, 0);
        let path = scratch(&format!("sockstream{}", chunk));
        let _ = std::fs::write(&path, &file);
        for rep in 0..reps as u64 {
            // every second repetition also prints the messages (-m): what is printed must still be sent
            let extra: &[&str] = if rep % 2 == 1 { &["-m"] } else { &[] };
            let (mut child, mut stream) = match spawn_with_socket(&bin, &path, extra, chunk * 64 + rep) {
                Ok(x) => x,
                Err(m) => {
                    ctx.machinery(m);
                    break;
                }
            };
            let _ = stream.set_read_timeout(Some(std::time::Duration::from_secs(30)));
            let mut buf: Vec<u8> = Vec::new();
            let mut tmp = [0u8; 65536];
            loop {
                match stream.read(&mut tmp) {
                    Ok(0) => break,
                    Ok(k) => buf.extend_from_slice(&tmp[..k]),
                    Err(_) => break,
                }
            }
            let t0 = std::time::Instant::now();
            let mut status = None;
            while t0.elapsed().as_secs() < 20 {
                if let Ok(Some(st)) = child.try_wait() {
                    status = Some(st);
                    break;
                }
                std::thread::sleep(std::time::Duration::from_millis(2));
            }
            if status.is_none() {
                let _ = child.kill();
                let _ = child.wait();
            }
            ctx.st.cases += 1;
            ctx.st.nontrivial += 1;
            let wire = String::from_utf8_lossy(&buf).to_string();
            let mut lines: Vec<&str> = wire.split('\n').collect();
            let complete_last = lines.last() == Some(&"");
            if complete_last {
                lines.pop();
            }
            let got: Vec<String> = lines.iter().map(|l| super::sock::unescape(l)).collect();
            let case = json!({"shape": 4, "n": n, "fail": fail, "real_binary": true, "socket": true, "repetition": rep});
            let verdict = if status.map(|s| s.success()) != Some(fail == 0) {
                Some(format!("guest with fail={} made the binary exit with {:?}", fail, status.map(|s| s.code())))
            } else if got != o.messages || !complete_last {
                let k = got.iter().zip(o.messages.iter()).position(|(a, b)| a != b).unwrap_or(got.len().min(o.messages.len()));
                Some(format!("the socket client received {} lines, the run produced {} messages; first difference at {}: got {:?}, expected {:?} (last line complete: {})", got.len(), o.messages.len(), k, got.get(k), o.messages.get(k), complete_last))
            } else {
                None
            };
            if let Some(m) = verdict {
                ctx.custom_violation("c13", m, case, json!(null), json!(null));
                break;
            }
        }
        let _ = std::fs::remove_file(&path);
        ctx.sample(json!({"real_binary": true, "socket": true, "n": n, "fail": fail, "messages": o.messages.len()}));
    })
}

/// Guest for the socket scenario: poll a cell; when non-zero, write that byte to stdout (MES write),
/// clear the cell; exit after writing 'Z'.
fn socket_guest(isa: &Isa) -> (Vec<u8>, u32, u32) {
    let enc = |name: &str, f: Fields| isa.encode(isa.row(name), &f);
    let f = Fields::default;
    let cell = BASE + 0x100;
    let scr = BASE + 0x110;
    let keep = BASE + 0x120;
    let mut c: Vec<u8> = Vec::new();
    let wait = c.len();
    c.extend(enc("MOV.B @aa:24,Rd", Fields { rd: 10, data: cell, ..f() })); // R2L = cell
    let here = c.len() + 2;
    c.extend(enc("Bcc d:8", Fields { cc: 7, data: (wait as i32 - here as i32) as u32 & 0xff, ..f() })); // BEQ wait
    c.extend(enc("MOV.B Rs,@aa:24", Fields { rs: 10, data: keep, ..f() })); // keep = byte
    c.extend(enc("MOV.B #xx:8,Rd", Fields { rd: 11, data: 0, ..f() }));
    c.extend(enc("MOV.B Rs,@aa:24", Fields { rs: 11, data: cell, ..f() })); // cell = 0
    c.extend(enc("MOV.L #xx:32,ERd", Fields { rd: 1, data: scr, ..f() }));
    c.extend(enc("MOV.L #xx:32,ERd", Fields { rd: 0, data: 1, ..f() }));
    c.extend(enc("MOV.L ERs,@ERd", Fields { rs: 0, ra: 1, ..f() }));
    c.extend(enc("MOV.L #xx:32,ERd", Fields { rd: 0, data: keep, ..f() }));
    c.extend(enc("MOV.L ERs,@(d:16,ERd)", Fields { rs: 0, ra: 1, data: 4, ..f() }));
    c.extend(enc("MOV.L #xx:32,ERd", Fields { rd: 0, data: 1, ..f() }));
    c.extend(enc("MOV.L ERs,@(d:16,ERd)", Fields { rs: 0, ra: 1, data: 8, ..f() }));
    c.extend(enc("MOV.L #xx:32,ERd", Fields { rd: 0, data: 104, ..f() }));
    c.extend(enc("TRAPA #x:2", Fields { trap: 0, ..f() }));
    c.extend(enc("CMP.B #xx:8,Rd", Fields { rd: 10, data: b'Z' as u32, ..f() }));
    let here = c.len() + 4;
    c.extend(enc("Bcc d:16", Fields { cc: 6, data: (wait as i32 - here as i32) as u32 & 0xffff, ..f() })); // BNE wait
    let exit_off = c.len() as u32 + 4;
    c.extend(enc("JMP @aa:24", Fields { data: BASE + exit_off, ..f() }));
    c.extend([0x40, 0xfe]);
    assert!(c.len() < 0x100);
    c.resize(0x130, 0);
    (c, exit_off, cell)
}

/// C18: the real binary with `-s -w`, a loopback client, lines in several TCP chunkings.
pub fn c18_unit(thorough: bool) -> Unit {
    Unit::new(
        "real-binary/socket",
        3,
        "the repository's own release binary started with -s -w: `ready` is announced, nothing runs before cmd:start, u8 lines (one per guest output byte incl. backslash and newline) sent as {one write per batch, one write per line, one write per byte} interleaved with malformed lines in the same write reach the guest exactly once in order, every outgoing message arrives as one escaped line, cmd:pause/cmd:start hold and resume, and the process exits after the guest's last byte; thorough tier: before the last byte nothing is sent for 33 seconds (the line after the quiet period must still be acted on)",
        move |ctx, chunk| {
            let bin = match repo_binary() {
                Some(b) => b,
                None => {
                    ctx.machinery("VERIF_REPO_BIN not set / repository binary not built".into());
                    return;
                }
            };
            let (code, exit_off, cell) = socket_guest(&ctx.isa);
            let file = elf_with_code(&code, exit_off, 0x400, 0);
            let path = scratch(&format!("sock{}", chunk));
            let _ = std::fs::write(&path, &file);
            // start the binary and connect; a busy port makes the binary give up at once, so try a few ports
            let mut started: Option<(std::process::Child, std::net::TcpStream)> = None;
            for attempt in 0..12u64 {
                let port = 31000 + ((std::process::id() as u64 * 13 + chunk * 977 + attempt * 3331) % 20000);
                // a port some other process listens on would make the client talk to a stranger: probe it first
                if std::net::TcpListener::bind(("127.0.0.1", port as u16)).is_err() {
                    continue;
                }
                let child = std::process::Command::new(&bin)
                    .args(["-e", path.to_str().unwrap_or(""), "-s", "-w", "-p", &port.to_string(), "--log", "off"])
                    .env("RUST_BACKTRACE", "0")
                    .stdout(std::process::Stdio::piped())
                    .stderr(std::process::Stdio::piped())
                    .spawn();
                let mut child = match child {
                    Ok(c) => c,
                    Err(e) => {
                        ctx.machinery(format!("cannot start the binary: {}", e));
                        return;
                    }
                };
                let mut conn = None;
                for _ in 0..600 {
                    if let Ok(s) = std::net::TcpStream::connect(("127.0.0.1", port as u16)) {
                        conn = Some(s);
                        break;
                    }
                    if let Ok(Some(_)) = child.try_wait() {
                        break; // the binary ended already (port in use)
                    }
                    std::thread::sleep(std::time::Duration::from_millis(10));
                }
                match conn {
                    Some(s) => {
                        started = Some((child, s));
                        break;
                    }
                    None => {
                        let _ = child.kill();
                        let _ = child.wait();
                    }
                }
            }
            let (mut child, stream) = match started {
                Some((c, s)) => (c, Some(s)),
                None => {
                    let _ = std::fs::remove_file(&path);
                    ctx.machinery("could not connect to the emulator's control socket on twelve ports".into());
                    return;
                }
            };
            let mut verdict: Option<String> = None;
            let mode = chunk; // 0: one write per batch, 1: one write per line, 2: one write per byte
            if let Some(mut s) = stream {
                // loss-free line reader: bytes are accumulated across read time-outs (a BufReader drops the
                // partial line when a timed read fails in the middle of it)
                let _ = s.set_read_timeout(Some(std::time::Duration::from_millis(50)));
                let mut rs = s.try_clone().unwrap();
                let mut acc: Vec<u8> = Vec::new();
                // next non-heartbeat line within `ms` milliseconds
                let mut next_line = |ms: u64| -> Option<String> {
                    use std::io::Read;
                    let t0 = std::time::Instant::now();
                    loop {
                        while let Some(p) = acc.iter().position(|&b| b == b'\n') {
                            let line: Vec<u8> = acc.drain(..=p).collect();
                            let l = String::from_utf8_lossy(&line[..line.len() - 1]).to_string();
                            if !l.starts_with("sync:") {
                                return Some(l);
                            }
                        }
                        if t0.elapsed().as_millis() as u64 >= ms {
                            return None;
                        }
                        let mut tmp = [0u8; 4096];
                        match rs.read(&mut tmp) {
                            Ok(0) => return None,
                            Ok(n) => acc.extend_from_slice(&tmp[..n]),
                            Err(_) => {}
                        }
                    }
                };
                let send = |s: &mut std::net::TcpStream, lines: &[String]| {
                    let payload: String = lines.iter().map(|l| format!("{}\n", l)).collect();
                    match mode {
                        0 => {
                            let _ = s.write_all(payload.as_bytes());
                        }
                        1 => {
                            for l in lines {
                                let _ = s.write_all(format!("{}\n", l).as_bytes());
                                let _ = s.flush();
                            }
                        }
                        _ => {
                            for b in payload.as_bytes() {
                                let _ = s.write_all(&[*b]);
                                let _ = s.flush();
                            }
                        }
                    }
                    let _ = s.flush();
                };
                let u8line = |v: u8| format!("u8:{:x}:{:x}", cell, v);
                // 1. ready, and nothing happens before cmd:start
                match next_line(20_000) {
                    Some(l) if l == "ready" => {}
                    other => verdict = Some(format!("expected the `ready` announcement first, got {:?}", other)),
                }
                if verdict.is_none() {
                    // 2. poke 'A' and start in one batch, with malformed lines around them
                    send(&mut s, &["foo:bar".into(), "cmd".into(), u8line(b'A'), "cmd:a:b".into(), "u8:zz:1".into(), "cmd:start".into()]);
                    let script: Vec<(u8, &str)> = vec![(b'A', "stdout:A"), (b'\\', "stdout:\\\\"), (b'\n', "stdout:\\n"), (b' ', "stdout: "), (b':', "stdout::")];
                    for (i, (byte, wire)) in script.iter().enumerate() {
                        if i > 0 {
                            send(&mut s, &["".into(), u8line(*byte), "ioport:1".into()]);
                        }
                        match next_line(20_000) {
                            Some(l) if l == *wire => {}
                            other => {
                                verdict = Some(format!("after poking byte {:02x} the socket delivered {:?}, expected the single line {:?}", byte, other, wire));
                                break;
                            }
                        }
                        ctx.st.cases += 1;
                        ctx.st.nontrivial += 1;
                    }
                }
                if verdict.is_none() {
                    // 3. pause: a poke while paused must not be consumed until start
                    send(&mut s, &["cmd:pause".into(), u8line(b'P')]);
                    if let Some(l) = next_line(500) {
                        verdict = Some(format!("execution was paused, yet the guest answered {:?}", l));
                    }
                    if verdict.is_none() {
                        send(&mut s, &["cmd:start".into()]);
                        match next_line(20_000) {
                            Some(l) if l == "stdout:P" => {}
                            other => verdict = Some(format!("after cmd:start the paused poke should be answered with stdout:P, got {:?}", other)),
                        }
                    }
                }
                if verdict.is_none() && thorough && mode == 0 {
                    // 3b. a quiet period on the incoming direction (outgoing heartbeats continue)
                    std::thread::sleep(std::time::Duration::from_secs(33));
                    send(&mut s, &[u8line(b'Q')]);
                    match next_line(20_000) {
                        Some(l) if l == "stdout:Q" => {}
                        other => verdict = Some(format!("after 33 s without incoming lines the poke should be answered with stdout:Q, got {:?}", other)),
                    }
                }
                if verdict.is_none() {
                    // 4. last byte: the guest exits, the process ends normally and closes the socket
                    send(&mut s, &[u8line(b'Z')]);
                    match next_line(20_000) {
                        Some(l) if l == "stdout:Z" => {}
                        other => verdict = Some(format!("expected stdout:Z, got {:?}", other)),
                    }
                }
            } else {
                verdict = Some("MACHINERY: could not connect to the emulator's control socket".into());
            }
            // wait (bounded) for the process to end on its own; kill it otherwise
            let t0 = std::time::Instant::now();
            let mut status = None;
            while t0.elapsed().as_secs() < if verdict.is_none() { 20 } else { 0 } {
                if let Ok(Some(st)) = child.try_wait() {
                    status = Some(st);
                    break;
                }
                std::thread::sleep(std::time::Duration::from_millis(10));
            }
            if status.is_none() {
                let _ = child.kill();
                let _ = child.wait();
            }
            if verdict.is_none() {
                match status {
                    Some(st) if st.success() => {}
                    other => verdict = Some(format!("the emulator process did not exit normally after the guest finished: {:?}", other.map(|s| s.code()))),
                }
            }
            let _ = std::fs::remove_file(&path);
            ctx.st.cases += 1;
            ctx.st.nontrivial += 1;
            if let Some(m) = verdict {
                if let Some(mm) = m.strip_prefix("MACHINERY: ") {
                    ctx.machinery(mm.to_string());
                } else {
                    ctx.custom_violation("c18", m, json!({"framing": "real-binary", "mode": mode}), json!(null), json!(null));
                }
            }
            ctx.sample(json!({"real_binary": true, "chunking_mode": mode}));
        },
    )
}
