//! C18 — control-socket lines apply exactly once in arrival order whatever the batching; outgoing
//! messages are framed reversibly.
use super::irq::{peek, poke, CODE};
use crate::cpu::verif_hooks;
use crate::cpu::Cpu;
use crate::hv::e1::Ctx;
use crate::hv::isa::{Fields, Isa};
use crate::hv::shard::{chunk_range, Prop, Tier, Unit};
use crate::socket::Socket;
use serde_json::{json, Value};
use std::cell::RefCell;
use std::io::{Read, Write};
use std::rc::Rc;
use std::sync::mpsc::{channel, Receiver, Sender};

const DATA: u32 = 0x430200;
const CELL: u32 = 0x430300;
const STACK: u32 = 0x4f0000;

pub const ALPHABET: [&str; 35] = [
    "cmd:pause",
    "cmd:start",
    "cmd:stop",
    "u8:430300:11",
    "u8:430300:22",
    "u8:430301:33",
    "u8:200000:1",
    "u8:fee000:ff",
    "u8:ffffd0:f0",
    "ioport:1:f0",
    "ioport:b:a5",
    "ioport:5:3c",
    "u8:ffd000:44",
    "u8:ff:55",
    "ioport:0:1",
    "ioport:c:1",
    "",
    "cmd",
    "cmd:pause:x",
    "cmd:bogus",
    "u8:zz:1",
    "u8:430302",
    "u8:430302:1:2",
    "u8:430302:100",
    "ioport:1",
    "ioport:1:zz",
    "foo:bar",
    // fields that are too wide for their type but whose low bits are a valid port / byte / address: malformed, ignored
    "ioport:101:5a",
    "ioport:1:15a",
    "u8:100430300:77",
    "u8:430300:100000066",
    "ioport:100000001:ff",
    "u8:1430300:11",
    // leading zeros are still numbers
    "u8:0430300:88",
    "u8:430301:099",
];

pub const SMALL: [&str; 6] = ["cmd:pause", "cmd:start", "u8:430300:11", "u8:430300:22", "cmd:a:b", "ioport:1:f0"];

/// Reference line protocol (`ref_proto`).
#[derive(Clone, Debug, PartialEq, Eq, Default)]
pub struct Proto {
    pub paused: bool,
    pub stopped: bool,
    pub cells: [u8; 4],
    pub pins: [u8; 11],
    pub p1ddr: u8,
    pub ram_cell: u8,
    pub vec_cell: u8,
    /// port 1 data latch (value last stored into P1DR by a u8 line)
    pub p1latch: u8,
}

impl Proto {
    /// what a CPU read of P1DR returns: latch where output, pins where input
    pub fn p1dr_read(&self) -> u8 {
        (self.p1latch & self.p1ddr) | (self.pins[0] & !self.p1ddr)
    }

    pub fn line(&mut self, l: &str) {
        if self.stopped {
            return; // lines after a stop are moot
        }
        let f: Vec<&str> = l.split(':').collect();
        match f[0] {
            "cmd" if f.len() == 2 => match f[1] {
                "pause" => self.paused = true,
                "start" => self.paused = false,
                "stop" => self.stopped = true,
                _ => {}
            },
            "u8" if f.len() == 3 => {
                if let (Ok(a), Ok(v)) = (u32::from_str_radix(f[1], 16), u8::from_str_radix(f[2], 16)) {
                    if (CELL..CELL + 4).contains(&a) {
                        self.cells[(a - CELL) as usize] = v;
                    } else if a == 0xfee000 {
                        self.p1ddr = v;
                    } else if a == 0xffffd0 {
                        self.p1latch = v;
                    } else if a == 0xffd000 {
                        self.ram_cell = v;
                    } else if a == 0xff {
                        self.vec_cell = v;
                    }
                    // other addresses used by the alphabet are unmapped: ignored
                }
            }
            "ioport" if f.len() == 3 => {
                if let (Ok(p), Ok(v)) = (u8::from_str_radix(f[1], 16), u8::from_str_radix(f[2], 16)) {
                    if (1..=11).contains(&p) {
                        self.pins[p as usize - 1] = v;
                    }
                }
            }
            _ => {}
        }
    }
}

pub struct Rig {
    pub cpu: Cpu,
    pub rx: Receiver<String>,
    pub tx_in: Sender<String>,
}

impl Rig {
    pub fn new(isa: &Isa) -> Rig {
        let mut cpu = Cpu::new();
        let (out_tx, rx) = channel();
        let (tx_in, in_rx) = channel();
        cpu.vh_attach_channels(out_tx, in_rx);
        // guest: L: INC.L #1,ER1 ; MOV.L ER1,@DATA ; BRA L   (never exits)
        let mut c: Vec<u8> = Vec::new();
        c.extend(isa.encode(isa.row("INC.L #1,ERd"), &Fields { rd: 1, ..Default::default() }));
        c.extend(isa.encode(isa.row("MOV.L ERs,@aa:24"), &Fields { rs: 1, data: DATA, ..Default::default() }));
        c.extend(isa.encode(isa.row("Bcc d:8"), &Fields { cc: 0, data: 0xf4, ..Default::default() }));
        poke(&mut cpu, CODE, &c);
        Rig { cpu, rx, tx_in }
    }

    fn reset(&mut self) {
        let cpu = &mut self.cpu;
        for a in (DATA..DATA + 8).chain(CELL..CELL + 8) {
            let _ = cpu.bus.write(a, 0);
        }
        cpu.bus.io_registrs1[0] = 0;
        let _ = cpu.bus.write(0xffd000, 0);
        let _ = cpu.bus.write(0xff, 0);
        cpu.bus.io_registrs2[0xb0] = 0;
        cpu.bus.io_port_in = [0; crate::bus::IO_PORT_SIZE];
        cpu.bus.io_port_latch = [0; crate::bus::IO_PORT_SIZE];
        cpu.er = [0; 8];
        cpu.er[2] = CODE;
        cpu.er[7] = STACK;
        cpu.exit_addr = 0x5ffff0;
        cpu.vh_set_ccr(0);
        cpu.vh_set_state_sum(0);
        cpu.vh_clear_pending_interrupts();
        while self.rx.try_recv().is_ok() {}
    }
}

#[derive(Clone, Debug)]
pub struct Obs {
    pub returned_ok: bool,
    pub returned_at: usize,
    pub cells: [u8; 4],
    pub pins: [u8; 11],
    pub p1ddr: u8,
    pub ram_cell: u8,
    pub vec_cell: u8,
    pub p1dr: u8,
    /// cumulative state count seen at the top of each loop iteration
    pub progress: Vec<usize>,
    pub result: String,
}

/// Deliver `batches[k]` at loop iteration `at[k]` through the real run().
pub fn run_batches(rig: &mut Rig, batches: &[Vec<&str>], at: &[usize], horizon: usize) -> Obs {
    rig.reset();
    let progress = Rc::new(RefCell::new(Vec::<usize>::new()));
    let p2 = progress.clone();
    let tx = rig.tx_in.clone();
    let plan: Vec<(usize, Vec<String>)> = at.iter().zip(batches.iter()).map(|(a, b)| (*a, b.iter().map(|s| s.to_string()).collect())).collect();
    let mut it = 0usize;
    verif_hooks::set_run_loop_hook(Some(Box::new(move |cpu: &mut Cpu| {
        p2.borrow_mut().push(cpu.vh_state_sum());
        for (a, b) in plan.iter() {
            if *a == it {
                for l in b {
                    let _ = tx.send(l.clone());
                }
            }
        }
        it += 1;
        it > horizon
    })));
    let r = rig.cpu.run();
    verif_hooks::set_run_loop_hook(None);
    let progress = progress.borrow().clone();
    let mut cells = [0u8; 4];
    for k in 0..4 {
        cells[k] = peek(&rig.cpu, CELL + k as u32);
    }
    Obs {
        returned_ok: r.is_ok(),
        returned_at: progress.len(),
        cells,
        pins: rig.cpu.bus.io_port_in,
        p1ddr: rig.cpu.bus.io_registrs1[0],
        ram_cell: rig.cpu.bus.memory[(0xffd000 - 0xffbf20) as usize],
        vec_cell: rig.cpu.bus.exception_handling_vector[0xff],
        p1dr: rig.cpu.bus.read(0xffffd0).unwrap_or(0xee),
        progress,
        result: match r {
            Ok(()) => "ok".into(),
            Err(e) => format!("{:#}", e).chars().take(120).collect(),
        },
    }
}

/// Judge one (sequence, partition) run against the reference applied line by line.
pub fn judge(seq: &[&str], batches: &[Vec<&str>], at: &[usize], o: &Obs, horizon: usize) -> Option<String> {
    let mut p = Proto::default();
    for l in seq {
        p.line(l);
    }
    if p.stopped != o.returned_ok {
        return Some(format!("reference says stopped={}, run() {} (result: {})", p.stopped, if o.returned_ok { "returned" } else { "kept running until the horizon" }, o.result));
    }
    if !p.stopped && !o.result.contains(verif_hooks::HORIZON_MESSAGE) {
        return Some(format!("run() ended with an error: {}", o.result));
    }
    if o.cells != p.cells {
        return Some(format!("bytes stored by u8 lines: {:02x?}, reference (lines applied once, in arrival order): {:02x?}", o.cells, p.cells));
    }
    if o.pins != p.pins {
        return Some(format!("external pin levels {:02x?}, reference {:02x?}", o.pins, p.pins));
    }
    if o.p1ddr != p.p1ddr {
        return Some(format!("P1DDR {:02x}, reference {:02x}", o.p1ddr, p.p1ddr));
    }
    if o.p1dr != p.p1dr_read() {
        return Some(format!("P1DR reads {:02x}; after these lines (pins {:02x}, DDR {:02x}, byte stored into DR {:02x}) it must read {:02x}", o.p1dr, p.pins[0], p.p1ddr, p.p1latch, p.p1dr_read()));
    }
    if o.ram_cell != p.ram_cell || o.vec_cell != p.vec_cell {
        return Some(format!("bytes stored by u8 lines in on-chip RAM / vector area: {:02x}/{:02x}, reference {:02x}/{:02x}", o.ram_cell, o.vec_cell, p.ram_cell, p.vec_cell));
    }
    if !p.stopped {
        // paused / running status at the horizon: progress over the last three iterations
        let n = o.progress.len();
        let moving = n >= 4 && o.progress[n - 1] > o.progress[n - 4];
        if moving == p.paused {
            return Some(format!("reference says paused={} at the end, but the state count {} over the last iterations ({:?})", p.paused, if moving { "advances" } else { "stands still" }, &o.progress[n.saturating_sub(5)..]));
        }
    }
    // pause edges: replay the reference batch by batch
    let mut q = Proto::default();
    let mut k = 0usize;
    for (bi, b) in batches.iter().enumerate() {
        let was_paused = q.paused;
        for l in b {
            q.line(l);
            k += 1;
        }
        if q.stopped {
            break;
        }
        let t = at[bi];
        let next_t = if bi + 1 < at.len() { at[bi + 1] } else { horizon };
        if q.paused && was_paused && next_t < o.progress.len() && t + 1 < o.progress.len() {
            // paused before and after this batch: at most one instruction of slack around the edge
            let adv = o.progress[next_t.min(o.progress.len() - 1)] - o.progress[t + 1];
            if adv > 0 {
                return Some(format!("guest advanced by {} states between iterations {} and {} although execution was paused throughout", adv, t + 1, next_t));
            }
        }
    }
    let _ = k;
    None
}

fn compositions(n: usize) -> Vec<Vec<usize>> {
    // all ways to cut a sequence of n lines into consecutive non-empty batches (2^(n-1))
    let mut out = Vec::new();
    for mask in 0..(1u32 << (n.max(1) - 1)) {
        let mut sizes = Vec::new();
        let mut cur = 1;
        for i in 0..n.saturating_sub(1) {
            if mask & (1 << i) != 0 {
                sizes.push(cur);
                cur = 1;
            } else {
                cur += 1;
            }
        }
        sizes.push(cur);
        out.push(sizes);
    }
    out
}

fn seq_unit(name: &str, alphabet: &'static [&'static str], len: usize) -> Unit {
    let na = alphabet.len() as u64;
    let total = na.pow(len as u32);
    let comps = compositions(len);
    let chunks = (total * comps.len() as u64 / 4000).clamp(1, 512);
    let dom = format!(
        "every sequence of {} lines over a {}-line alphabet (well-formed and malformed) = {} sequences x all {} partitions into polling batches x gap patterns {{adjacent iterations, one idle iteration between}}, each delivered to the real run() through the socket channel",
        len, na, total, comps.len()
    );
    Unit::new(name, chunks, &dom, move |ctx, chunk| {
        let mut rig = Rig::new(&ctx.isa);
        let (lo, hi) = chunk_range(total, chunks, chunk);
        for idx in lo..hi {
            let mut seq: Vec<&str> = Vec::with_capacity(len);
            let mut r = idx;
            for _ in 0..len {
                seq.push(alphabet[(r % na) as usize]);
                r /= na;
            }
            for sizes in comps.iter() {
                for gap in [1usize, 2] {
                    let mut batches: Vec<Vec<&str>> = Vec::new();
                    let mut at = Vec::new();
                    let mut pos = 0;
                    for (bi, &sz) in sizes.iter().enumerate() {
                        batches.push(seq[pos..pos + sz].to_vec());
                        at.push(2 + bi * gap);
                        pos += sz;
                    }
                    if sizes.len() == 1 && gap == 2 {
                        continue;
                    }
                    let horizon = 2 + sizes.len() * gap + 6;
                    let o = run_batches(&mut rig, &batches, &at, horizon);
                    ctx.st.cases += 1;
                    ctx.st.nontrivial += 1;
                    *ctx.st.notes.entry("loop iterations executed".into()).or_insert(0) += o.progress.len() as u64;
                    let bit = ((o.cells[0] as usize) << 8 | (o.pins[0] as usize) ^ (o.returned_at << 3) ^ (o.cells[1] as usize * 7)) & 0xffff;
                    ctx.st.outcome_bits[bit / 64] |= 1 << (bit % 64);
                    if let Some(msg) = judge(&seq, &batches, &at, &o, horizon) {
                        let case = json!({"batches": batches, "at": at, "horizon": horizon});
                        ctx.custom_violation("c18", msg, case, json!(null), json!({"cells": o.cells, "result": o.result}));
                        if ctx.stop {
                            return;
                        }
                    }
                    if idx == lo && sizes.len() == len && gap == 1 {
                        ctx.sample(json!({"batches": batches, "at": at, "cells": o.cells, "returned_ok": o.returned_ok}));
                    }
                }
            }
        }
    })
}

// ------------------------------------------------------------------------------------------------
// framing through the real worker threads (loopback TCP)
// ------------------------------------------------------------------------------------------------

pub fn unescape(s: &str) -> String {
    let mut out = String::new();
    let mut it = s.chars();
    while let Some(c) = it.next() {
        if c == '\\' {
            match it.next() {
                Some('n') => out.push('\n'),
                Some('\\') => out.push('\\'),
                Some(x) => {
                    out.push('\\');
                    out.push(x);
                }
                None => out.push('\\'),
            }
        } else {
            out.push(c);
        }
    }
    out
}

fn texts(symbols: &[&str], maxlen: usize) -> Vec<String> {
    let mut out = vec![String::new()];
    let mut frontier = vec![String::new()];
    for _ in 0..maxlen {
        let mut nf = Vec::new();
        for s in &frontier {
            for y in symbols {
                nf.push(format!("{}{}", s, y));
            }
        }
        out.extend(nf.iter().cloned());
        frontier = nf;
    }
    out
}

fn connect_pair(shard_hint: u64) -> Option<(Socket, std::net::TcpStream)> {
    let base = 21000 + ((std::process::id() as u64 * 7 + shard_hint * 131) % 20000);
    for k in 0..50u64 {
        let addr = format!("127.0.0.1:{}", base + k);
        let a2 = addr.clone();
        let client = std::thread::spawn(move || {
            for _ in 0..400 {
                if let Ok(s) = std::net::TcpStream::connect(&a2) {
                    return Some(s);
                }
                std::thread::sleep(std::time::Duration::from_millis(5));
            }
            None
        });
        match Socket::connect(&addr) {
            Ok(sock) => {
                if let Ok(Some(stream)) = client.join() {
                    return Some((sock, stream));
                }
            }
            Err(_) => {
                // port busy: the client gives up after 2 s; try the next port
                let _ = client.join();
            }
        }
    }
    None
}

fn framing_unit(maxlen: usize) -> Unit {
    let symbols: [&str; 8] = ["a", "\n", "\\", "n", "é", "💡", " ", ":"];
    let all = texts(&symbols, maxlen);
    let nt = all.len();
    let dom = format!("every message text of up to {} symbols over {{a, newline, backslash, n, é, 💡, space, colon}} = {} texts, sent in order through the real Socket::connect send worker over loopback TCP; the client splits on newline, unescapes and must recover the exact sequence. Incoming: line sequences written as one write / one write per line / one write per byte; then four lines each written in three pieces at every pair of cut positions, in four pieces at every window of three adjacent cuts, and one byte per piece (TCP_NODELAY, a pause after every piece)", maxlen, nt);
    Unit::new("framing-through-real-workers", 1, &dom, move |ctx, _| {
        let (sock, mut stream) = match connect_pair(0) {
            Some(x) => x,
            None => {
                ctx.machinery("could not establish a loopback connection".into());
                return;
            }
        };
        let _ = stream.set_read_timeout(Some(std::time::Duration::from_secs(10)));
        // ---- outgoing
        for t in all.iter() {
            if sock.send_message(t).is_err() {
                ctx.custom_violation("c18", "send_message failed".into(), json!({"text": t}), json!(null), json!(null));
                return;
            }
        }
        let end_marker = "END-OF-TEXTS".to_string();
        let _ = sock.send_message(&end_marker);
        let mut buf: Vec<u8> = Vec::new();
        let mut tmp = [0u8; 65536];
        let needle = b"END-OF-TEXTS\n";
        loop {
            match stream.read(&mut tmp) {
                Ok(0) => break,
                Ok(n) => {
                    buf.extend_from_slice(&tmp[..n]);
                    if buf.len() >= needle.len() && &buf[buf.len() - needle.len()..] == needle {
                        break;
                    }
                }
                Err(_) => break,
            }
        }
        let wire = String::from_utf8_lossy(&buf).to_string();
        let mut lines: Vec<&str> = wire.split('\n').collect();
        if lines.last() == Some(&"") {
            lines.pop();
        }
        let got: Vec<String> = lines.iter().map(|l| unescape(l)).collect();
        let mut want: Vec<String> = all.clone();
        want.push(end_marker);
        ctx.st.cases += want.len() as u64;
        ctx.st.nontrivial += want.len() as u64;
        if got != want {
            let k = got.iter().zip(want.iter()).position(|(a, b)| a != b).unwrap_or(got.len().min(want.len()));
            ctx.custom_violation(
                "c18",
                format!("outgoing framing: message {} was {:?}, the client recovered {:?} ({} lines on the wire for {} messages)", k, want.get(k), got.get(k), got.len(), want.len()),
                json!({"framing": "outgoing", "index": k, "text": want.get(k)}),
                json!(want.get(k)),
                json!(got.get(k)),
            );
        }
        // ---- incoming: the same lines in three chunkings
        let lines_in: Vec<&str> = vec!["cmd:pause", "u8:430300:11", "", "ioport:1:f0", "foo:bar", "cmd:start", "é:💡", "x"];
        for mode in 0..3 {
            let payload: String = lines_in.iter().map(|l| format!("{}\n", l)).collect();
            match mode {
                0 => {
                    let _ = stream.write_all(payload.as_bytes());
                }
                1 => {
                    for l in lines_in.iter() {
                        let _ = stream.write_all(format!("{}\n", l).as_bytes());
                        let _ = stream.flush();
                    }
                }
                _ => {
                    for b in payload.as_bytes() {
                        let _ = stream.write_all(&[*b]);
                        let _ = stream.flush();
                    }
                }
            }
            let _ = stream.flush();
            let mut got: Vec<String> = Vec::new();
            let t0 = std::time::Instant::now();
            while got.len() < lines_in.len() && t0.elapsed().as_secs() < 10 {
                match sock.pop_messages() {
                    Ok(v) => got.extend(v),
                    Err(_) => break,
                }
                std::thread::sleep(std::time::Duration::from_millis(1));
            }
            ctx.st.cases += lines_in.len() as u64;
            ctx.st.nontrivial += lines_in.len() as u64;
            let want: Vec<String> = lines_in.iter().map(|s| s.to_string()).collect();
            if got != want {
                ctx.custom_violation("c18", format!("incoming lines (chunking mode {}): sent {:?}, the emulator's receive side delivered {:?}", mode, want, got), json!({"framing": "incoming", "mode": mode}), json!(want), json!(got));
            }
        }
        // ---- incoming: one line in three pieces at every pair of cut positions, and one byte per segment
        // (TCP_NODELAY, a pause after every piece so that each piece is a read of its own on the emulator's side)
        let _ = stream.set_nodelay(true);
        let piece_lines: [&str; 4] = ["ioport:1:f0", "u8:430300:11", "cmd:pause", "é:💡"];
        for (li, l) in piece_lines.iter().enumerate() {
            let wire = format!("{}\n", l).into_bytes();
            let n = wire.len();
            let mut cuts: Vec<Vec<usize>> = Vec::new();
            for i in 1..n {
                for j in (i + 1)..n {
                    cuts.push(vec![i, j]);
                }
            }
            // every byte a piece of its own
            cuts.push((1..n).collect());
            // four pieces: a sliding window of three cuts
            for i in 1..n.saturating_sub(2) {
                cuts.push(vec![i, i + 1, i + 2]);
            }
            for cut in cuts.iter() {
                let mut prev = 0usize;
                for &c in cut.iter().chain(std::iter::once(&n)) {
                    let _ = stream.write_all(&wire[prev..c]);
                    let _ = stream.flush();
                    prev = c;
                    if c < n {
                        std::thread::sleep(std::time::Duration::from_micros(if cut.len() > 3 { 400 } else { 1500 }));
                    }
                }
                let mut got: Vec<String> = Vec::new();
                let t0 = std::time::Instant::now();
                while got.is_empty() && t0.elapsed().as_secs() < 5 {
                    match sock.pop_messages() {
                        Ok(v) => got.extend(v),
                        Err(_) => break,
                    }
                    if got.is_empty() {
                        std::thread::sleep(std::time::Duration::from_micros(200));
                    }
                }
                ctx.st.cases += 1;
                ctx.st.nontrivial += 1;
                if got != vec![l.to_string()] {
                    ctx.custom_violation(
                        "c18",
                        format!("incoming line {:?} written in {} pieces (cuts after bytes {:?}, a pause after each): the emulator's receive side delivered {:?}", l, cut.len() + 1, cut, got),
                        json!({"framing": "incoming-pieces", "line": li, "cuts": cut}),
                        json!([l]),
                        json!(got),
                    );
                    if ctx.stop {
                        return;
                    }
                    break;
                }
            }
        }
        ctx.sample(json!({"text": "a\n\\n", "wire": "a\\n\\\\n\n"}));
        drop(sock);
    })
}

/// One case of unit big-batches: `n` u8 lines to `n` different addresses (plus a final port line), delivered in
/// batches of the given sizes; every byte must be stored.
pub fn big_batch_case(rig: &mut Rig, n: usize, sizes: &[usize]) -> Option<String> {
    let base = 0x440000u32;
    let lines: Vec<String> = (0..n).map(|i| format!("u8:{:x}:{:x}", base + i as u32, ((i * 7) % 255 + 1) as u8)).collect();
    for i in 0..n {
        poke(&mut rig.cpu, base + i as u32, &[0]);
    }
    let mut batches: Vec<Vec<&str>> = Vec::new();
    let mut at = Vec::new();
    let mut pos = 0usize;
    for (bi, &sz) in sizes.iter().enumerate() {
        let end = (pos + sz).min(n);
        batches.push(lines[pos..end].iter().map(|s| s.as_str()).collect());
        at.push(2 + 2 * bi);
        pos = end;
    }
    let horizon = 2 + 2 * sizes.len() + 12;
    let o = run_batches(rig, &batches, &at, horizon);
    if !o.result.contains(verif_hooks::HORIZON_MESSAGE) {
        return Some(format!("{} u8 lines in batches {:?}: run() ended: {}", n, sizes, o.result));
    }
    let mut missing = 0usize;
    let mut first = None;
    for i in 0..pos {
        let want = ((i * 7) % 255 + 1) as u8;
        if peek(&rig.cpu, base + i as u32) != want {
            missing += 1;
            if first.is_none() {
                first = Some(i);
            }
        }
    }
    if missing > 0 {
        return Some(format!("{} u8 lines to {} different addresses delivered in batches {:?}: {} of them took no effect (first: line {})", n, n, sizes, missing, first.unwrap()));
    }
    None
}

fn big_batch_unit() -> Unit {
    let cases: Vec<(usize, Vec<usize>)> = vec![
        (255, vec![255]), (256, vec![256]), (257, vec![257]), (1023, vec![1023]), (1024, vec![1024]), (1025, vec![1025]), (4095, vec![4095]), (4096, vec![4096]), (4097, vec![4097]), (5000, vec![5000]),
        (9000, vec![9000]), (20000, vec![20000]), (65537, vec![65537]), (9000, vec![4096, 4904]), (9000, vec![4097, 4903]), (9000, vec![1, 8999]), (12000, vec![4000, 4000, 4000]), (70000, vec![35000, 35000]),
    ];
    let dom = format!("large polling batches: n u8 lines to n different addresses queued before one poll (or split over two or three polls), for (n, batch sizes) in {:?}, through the real run(): every byte must be stored", cases);
    Unit::new("big-batches", cases.len() as u64, &dom, move |ctx, chunk| {
        let mut rig = Rig::new(&ctx.isa);
        let (n, sizes) = &cases[chunk as usize];
        ctx.st.cases += 1;
        ctx.st.nontrivial += 1;
        if let Some(msg) = big_batch_case(&mut rig, *n, sizes) {
            ctx.custom_violation("c18", msg, json!({"big_batch": [n, sizes]}), json!(null), json!(null));
        }
    })
}

/// Large backlogs behind the send worker: the client starts reading only after everything was emitted.
fn backlog_unit() -> Unit {
    let configs: Vec<(usize, usize)> = vec![(20000, 8), (3000, 100), (700, 1000), (150, 5000), (40, 70000), (9, 300000)];
    let dom = format!("backlogs: for each of {:?} (messages, bytes per message) all messages are emitted back to back through the real Socket::connect send worker while the client does not read; then the client reads everything: every message must arrive exactly once, in emission order (texts carry their index and contain newline / backslash / multi-byte characters)", configs);
    Unit::new("backlog-through-real-workers", configs.len() as u64, &dom, move |ctx, chunk| {
        let (n, size) = configs[chunk as usize];
        let (sock, mut stream) = match connect_pair(1 + chunk) {
            Some(x) => x,
            None => {
                ctx.machinery("could not establish a loopback connection".into());
                return;
            }
        };
        let _ = stream.set_read_timeout(Some(std::time::Duration::from_secs(20)));
        let text_of = |i: usize| -> String {
            let mut t = format!("{}:", i);
            let filler = ["x", "\\", "\n", "é", "💡", " "];
            let mut k = i;
            while t.len() < size {
                t.push_str(match filler[k % filler.len()] {
                    "\\" => "\\",
                    "\n" => "\n",
                    o => o,
                });
                k += 1;
            }
            t
        };
        let want: Vec<String> = (0..n).map(text_of).chain(std::iter::once("END-OF-BACKLOG".to_string())).collect();
        for t in want.iter() {
            if sock.send_message(t).is_err() {
                ctx.custom_violation("c18", "send_message failed".into(), json!({"backlog": [n, size]}), json!(null), json!(null));
                return;
            }
        }
        // only now start reading
        std::thread::sleep(std::time::Duration::from_millis(30));
        let mut buf: Vec<u8> = Vec::new();
        let mut tmp = vec![0u8; 1 << 20];
        let needle = b"END-OF-BACKLOG\n";
        let deadline = std::time::Instant::now() + std::time::Duration::from_secs(60);
        loop {
            match stream.read(&mut tmp) {
                Ok(0) => break,
                Ok(k) => {
                    buf.extend_from_slice(&tmp[..k]);
                    if buf.len() >= needle.len() && &buf[buf.len() - needle.len()..] == needle {
                        break;
                    }
                }
                Err(_) => break,
            }
            if std::time::Instant::now() > deadline {
                break;
            }
        }
        let wire = String::from_utf8_lossy(&buf).to_string();
        let mut lines: Vec<&str> = wire.split('\n').collect();
        if lines.last() == Some(&"") {
            lines.pop();
        }
        let got: Vec<String> = lines.iter().map(|l| unescape(l)).collect();
        ctx.st.cases += want.len() as u64;
        ctx.st.nontrivial += want.len() as u64;
        if got != want {
            let k = got.iter().zip(want.iter()).position(|(a, b)| a != b).unwrap_or(got.len().min(want.len()));
            let show = |v: Option<&String>| v.map(|s| s.chars().take(40).collect::<String>());
            ctx.custom_violation(
                "c18",
                format!("backlog of {} messages of {} bytes: message {} was {:?}..., the client recovered {:?}... ({} lines on the wire for {} messages)", n, size, k, show(want.get(k)), show(got.get(k)), got.len(), want.len()),
                json!({"backlog": [n, size]}),
                json!(null),
                json!(null),
            );
        }
        drop(sock);
    })
}

/// Pin-change lines on their way from the control socket to `Bus::write_port` (borrowed by C16: the external
/// level a port shows is the one the last well-formed `ioport:` line named, whatever else shared its batch).
pub const PIN_ALPHABET: [&str; 9] = ["cmd:pause", "cmd:start", "ioport:1:f0", "ioport:1:f", "ioport:5:3c", "ioport:b:a5", "u8:fee000:ff", "cmd:bogus", ""];

pub fn c16_borrowed_units(thorough: bool) -> Vec<Unit> {
    let mut u = vec![seq_unit("pin-lines/len2", &PIN_ALPHABET, 2), seq_unit("pin-lines/len3", &PIN_ALPHABET, 3)];
    if thorough {
        u.push(seq_unit("pin-lines/len4", &PIN_ALPHABET, 4));
    }
    u.push(framing_unit(2));
    u
}

pub fn c18(tier: Tier, _seed: u64) -> Prop {
    let mut units = Vec::new();
    let thorough = tier == Tier::Thorough;
    units.push(seq_unit("lines/len1", &ALPHABET, 1));
    units.push(seq_unit("lines/len2", &ALPHABET, 2));
    units.push(seq_unit("lines/len3", &ALPHABET, 3));
    units.push(seq_unit("lines-small/len4", &SMALL, 4));
    units.push(seq_unit("lines-small/len5", &SMALL, 5));
    if thorough {
        units.push(seq_unit("lines/len4", &ALPHABET, 4));
        units.push(seq_unit("lines-small/len6", &SMALL, 6));
        units.push(seq_unit("lines-small/len7", &SMALL, 7));
    }
    units.push(framing_unit(if thorough { 5 } else { 4 }));
    units.push(backlog_unit());
    units.push(big_batch_unit());
    units.push(super::realbin::c18_unit(thorough));
    Prop {
        id: "C18",
        level: "model_checking",
        rule: "stateless exploration of the real Cpu::run(): a schedule is a line sequence plus its partition into polling batches (delivered by the run-loop hook at chosen loop iterations through the same mpsc channel the receive worker feeds); every sequence up to the length bound x every partition x two gap patterns is run; the effects (stored bytes, pin levels, stop, paused/running at the horizon) must equal the reference protocol applied line by line, hence be the same for every partition; framing: every enumerated text goes through the real send worker over loopback TCP and must be recovered by split-on-newline + unescape".into(),
        assumptions: vec![
            "every OS-thread schedule of the receive worker appears to run() as some partition of the line sequence into per-iteration batches (the only shared object is an mpsc channel drained by try_iter), so enumerating partitions covers the schedules as far as the property can observe them".into(),
            "the instant at which a line takes effect (which loop iteration) is timing, not constrained; pause edges are checked with one instruction of slack".into(),
            "the TCP part samples OS schedules (inputs are enumerated); non-UTF-8 input bytes are outside the alphabet".into(),
            "bounds: sequences <= 3 over 35 lines, <= 5 over a 6-line alphabet (quick); <= 4 / <= 7 (thorough)".into(),
        ],
        units,
        extra: Box::new(|m| {
            let mut runs = 0u64;
            let mut iters = 0u64;
            for (_, st) in m.iter() {
                runs += st.cases;
                iters += st.notes.get("loop iterations executed").copied().unwrap_or(0);
            }
            json!({"states": iters.max(1), "transitions": iters.max(1), "traces_validated_against_impl": runs, "complete_runs": runs})
        }),
        profiles: vec!["release"],
    }
}

pub fn replay_c18(case: &Value) -> bool {
    let isa = Isa::new();
    if case["framing"].is_string() || case["backlog"].is_array() {
        println!("framing counterexamples are re-checked by re-running the check (they need the TCP rig)");
        return false;
    }
    if let Some(bb) = case["big_batch"].as_array() {
        let mut rig = Rig::new(&isa);
        let n = bb[0].as_u64().unwrap_or(0) as usize;
        let sizes: Vec<usize> = bb[1].as_array().map(|a| a.iter().map(|x| x.as_u64().unwrap_or(0) as usize).collect()).unwrap_or_default();
        return match big_batch_case(&mut rig, n, &sizes) {
            Some(m) => {
                println!("FAILS: {}", m);
                false
            }
            None => true,
        };
    }
    let mut rig = Rig::new(&isa);
    let batches_owned: Vec<Vec<String>> = case["batches"].as_array().map(|a| a.iter().map(|b| b.as_array().map(|x| x.iter().map(|s| s.as_str().unwrap_or("").to_string()).collect()).unwrap_or_default()).collect()).unwrap_or_default();
    let batches: Vec<Vec<&str>> = batches_owned.iter().map(|b| b.iter().map(|s| s.as_str()).collect()).collect();
    let at: Vec<usize> = case["at"].as_array().map(|a| a.iter().map(|x| x.as_u64().unwrap_or(0) as usize).collect()).unwrap_or_default();
    let horizon = case["horizon"].as_u64().unwrap_or(12) as usize;
    let seq: Vec<&str> = batches.iter().flatten().copied().collect();
    let o = run_batches(&mut rig, &batches, &at, horizon);
    println!("batches {:?} at iterations {:?}: cells {:02x?} pins[0] {:02x} result {}", batches, at, o.cells, o.pins[0], o.result);
    match judge(&seq, &batches, &at, &o, horizon) {
        Some(m) => {
            println!("FAILS: {}", m);
            false
        }
        None => true,
    }
}
