//! C06 — exception entry (TRAPA #1-3, interrupt acceptance) and RTE.
use super::flow;
use super::memform::ea_low_set;
use crate::hv::dom::{self, K16, K4};
use crate::hv::e1::{Act, Case, Ctx, Kind, Next, StepObs};
use crate::hv::isa::{Decoded, Fields, Isa, Sem, ROWS};
use crate::hv::sem::M24;
use crate::hv::shard::{chunk_range, Prop, Tier, Unit};
use serde_json::json;

fn sp_cov() -> Vec<u32> {
    let mut v = Vec::new();
    for low in [0xffc100u32, 0xffbf24, 0xffff20, 0xffe000, 0x400004, 0x500000, 0x600000, 0x4c0002, 0x400000, 0xffbf22, 0x000002, 0x000100] {
        for top in [0x00u32, 0x5a, 0xff] {
            v.push(low | (top << 24));
        }
    }
    v
}

const HANDLERS: [u32; 4] = [0x00ffc300, 0x5a410300, 0xff5ffffe, 0x000000f0];

fn e1_units(_tier: Tier) -> Vec<Unit> {
    let mut units = Vec::new();
    units.push(Unit::new("TRAPA/T", 3, "trap numbers 1-3 x all 256 CCR values x 4 vector contents (upper byte 00/5a/ff/00, targets in RAM, DRAM, vector area) x 36 stack pointers x 2 code positions", |ctx, chunk| {
        let n = chunk as u32 + 1;
        for &h in HANDLERS.iter() {
            for &sp in sp_cov().iter() {
                for &pc in &[dom::CODE_RAM, dom::CODE_DRAM] {
                    let mut f = Fields::default();
                    f.trap = n as u8;
                    let row = ctx.isa.row("TRAPA #x:2");
                    let code = ctx.isa.encode(row, &f);
                    let mut c = Case::new(pc, &code);
                    c.er = dom::background_regs();
                    c.er[7] = sp;
                    c.patch_l((8 + n) * 4, h);
                    for ccr in 0..=255u8 {
                        c.ccr = ccr;
                        ctx.run(&c);
                    }
                }
            }
        }
    }));
    units.push(Unit::new("TRAPA/frame-over-code", 1, "TRAPA #1-3 with the stack frame overlapping the TRAPA instruction itself or its neighbours (SP = instruction address + k, every even k in -2..=8, upper byte {00,5a}) x 2 code positions x K16 CCR: the trap number is the one fetched before the frame was stored", |ctx, _| {
        for n in 1..=3u32 {
            for &pc in &[dom::CODE_RAM, dom::CODE_DRAM] {
                let mut k: i32 = -2;
                while k <= 8 {
                    for top in [0x00u32, 0x5a] {
                        let mut f = Fields::default();
                        f.trap = n as u8;
                        let row = ctx.isa.row("TRAPA #x:2");
                        let code = ctx.isa.encode(row, &f);
                        let mut c = Case::new(pc, &code);
                        c.er = dom::background_regs();
                        c.er[7] = (pc.wrapping_add(k as u32) & M24) | (top << 24);
                        c.patch_l((8 + n) * 4, 0x00ff_c300 + 0x100 * n);
                        for &ccr in &K16 {
                            c.ccr = ccr;
                            ctx.run(&c);
                        }
                    }
                    k += 2;
                }
            }
        }
    }));
    units.push(Unit::new("IRQ/after-set_handler", 63, "for every vector 1-63: the handler is installed through the real TRAPA #0 set_handler call, then the vector table entry is changed again by a guest MOV.L, by a guest MOV.B to its low byte, by three host writes, or not at all, then the interrupt is accepted (also: accepted once, RTE, entry rewritten, accepted again): PC is loaded from the vector entry as it stands in memory at the moment of acceptance", |ctx, chunk| {
        let v = chunk as u32 + 1;
        let p0 = dom::CODE_RAM + 0x40;
        let a = 0x00ff_c400u32 + 0x10 * v; // installed by set_handler
        let b = 0x0041_0400u32 + 0x10 * v; // stored over it afterwards
        let blk = 0x00ff_e900u32;
        let enc = |ctx: &Ctx, n: &str, f: Fields| ctx.isa.encode(ctx.isa.row(n), &f);
        let st_l = enc(ctx, "MOV.L ERs,@ERd", Fields { rs: 3, ra: 2, ..Default::default() });
        let st_b = enc(ctx, "MOV.B Rs,@ERd", Fields { rs: 11, ra: 4, ..Default::default() });
        let rte = enc(ctx, "RTE", Fields::default());
        for variant in 0..5usize {
            // ---- set_handler through the real gate (its own effects are C14's subject: accepted as they are)
            let mut c = Case::new(p0, &[0x57, 0x00]);
            c.er = dom::background_regs();
            c.er[0] = 113;
            c.er[1] = blk;
            c.er[2] = 4 * v;
            c.er[3] = 0x5a00_0000 | b;
            c.er[4] = 4 * v + 3;
            c.er[5] = 0x0041_7770;
            c.er[7] = 0x00ff_e700;
            c.ccr = 0x00;
            let code = c.code;
            ctx.m.poke_bytes(p0, &code);
            ctx.m.poke_bytes(blk, &v.to_be_bytes());
            ctx.m.poke_bytes(blk + 4, &a.to_be_bytes());
            c.code_sticky = true;
            let act = ctx.execute(&c);
            ctx.st.cases += 1;
            let written: Vec<u32> = ctx.wlog_all();
            for x in written.iter() {
                ctx.m.mark_dirty(*x);
                ctx.m.accept(*x);
            }
            if !matches!(act, crate::hv::e1::Actual::Ok(_)) {
                ctx.custom_violation("e1", format!("set_handler({}, {:08x}) did not complete: {:?}", v, a, act), c.to_json(), json!(null), json!(null));
                ctx.m.restore();
                continue;
            }
            // ---- the rest in lock step with the reference (which reads the vector from memory when the request is accepted)
            let mut init = Case::new(p0 + 2, &[]);
            init.code_len = 0;
            init.code_sticky = true;
            init.er = c.er;
            init.ccr = 0x00;
            let acts: Vec<Act> = match variant {
                0 => vec![Act::exec(&st_l, None), Act::Irq(v as u8)],
                1 => vec![Act::exec(&st_b, None), Act::Irq(v as u8)],
                2 => vec![Act::Host(4 * v + 1, (b >> 16) as u8), Act::Host(4 * v + 2, (b >> 8) as u8), Act::Host(4 * v + 3, b as u8), Act::Irq(v as u8)],
                3 => vec![Act::Irq(v as u8)],
                _ => vec![Act::Irq(v as u8), Act::exec(&rte, None), Act::exec(&st_l, None), Act::Irq(v as u8)],
            };
            let n = acts.len();
            let mut k = 0usize;
            ctx.run_seq_body(&init, acts[0], n, &mut |_o: &StepObs| {
                k += 1;
                if k < n {
                    Next::Continue(acts[k])
                } else {
                    Next::Stop
                }
            });
        }
    }));
    units.push(Unit::new("IRQ/T", 63, "interrupt vectors 1-63 x all 128 CCR values with I clear x 4 vector contents x 36 stack pointers x 3 interrupted PCs", |ctx, chunk| {
        let v = chunk as u8 + 1;
        for &h in HANDLERS.iter() {
            for &sp in sp_cov().iter() {
                for &pc in &[dom::CODE_RAM, dom::CODE_DRAM + 0x1234, 0x00fffffe] {
                    let mut c = Case::new(pc, &[]);
                    c.code_len = 0;
                    c.kind = Kind::Irq(v);
                    c.er = dom::background_regs();
                    c.er[7] = sp;
                    c.patch_l(v as u32 * 4, h);
                    for ccr in 0..128u8 {
                        c.ccr = ccr;
                        ctx.run(&c);
                    }
                }
            }
        }
    }));
    units.push(Unit::new("RTE/T", 8, "all 256 saved CCR values x return-address covering set x 36 stack pointers x current CCR {00,ff}", |ctx, chunk| {
        let rets: Vec<u32> = {
            let mut v = ea_low_set(true);
            v.extend([0xffc200u32, 0x410200, 0x123456]);
            v
        };
        let sps = sp_cov();
        let (lo, hi) = chunk_range(sps.len() as u64, 8, chunk);
        for si in lo..hi {
            let sp = sps[si as usize];
            for &ret in rets.iter() {
                for saved in 0..=255u32 {
                    let row = ctx.isa.row("RTE");
                    let code = ctx.isa.encode(row, &Fields::default());
                    let mut c = Case::new(dom::CODE_RAM, &code);
                    c.er = dom::background_regs();
                    c.er[7] = sp;
                    c.patch_l(sp & M24, (saved << 24) | ret);
                    for &ccr in &[0x00u8, 0xff] {
                        c.ccr = ccr;
                        ctx.run(&c);
                    }
                }
            }
        }
    }));
    units
}

// ------------------------------------------------------------------------------------------------
// E2: histories of entries and returns
// ------------------------------------------------------------------------------------------------

fn seqs_upto(alphabet: &[u8], maxlen: usize) -> Vec<Vec<u8>> {
    let mut out: Vec<Vec<u8>> = vec![vec![]];
    let mut frontier: Vec<Vec<u8>> = vec![vec![]];
    for _ in 0..maxlen {
        let mut nf = Vec::new();
        for s in &frontier {
            for &a in alphabet {
                let mut t = s.clone();
                t.push(a);
                nf.push(t);
            }
        }
        out.extend(nf.iter().cloned());
        frontier = nf;
    }
    out
}

struct ExcProg {
    image: Vec<(u32, Vec<u8>)>,
    entry: u32,
    end_pc: u32,
}

/// item codes: 1,2,3 = TRAPA #n; 0 = marker (ADDS #1,ER5)
fn build_exc_program(isa: &Isa, main: &[u8], h1: &[u8], h2: &[u8], base: u32) -> ExcProg {
    let trapa = |n: u8| isa.encode(isa.row("TRAPA #x:2"), &Fields { trap: n, ..Default::default() });
    let marker = isa.encode(isa.row("ADDS #1,ERd"), &Fields { rd: 5, ..Default::default() });
    let rte = isa.encode(isa.row("RTE"), &Fields::default());
    let mut code: Vec<u8> = Vec::new();
    let emit = |code: &mut Vec<u8>, items: &[u8]| {
        for &it in items {
            if it == 0 {
                code.extend(marker.iter());
            } else {
                code.extend(trapa(it));
            }
        }
    };
    emit(&mut code, main);
    let end_pc = base + code.len() as u32;
    code.extend(isa.encode(isa.row("Bcc d:8"), &Fields { cc: 0, data: 0xfe, ..Default::default() }));
    let mut vectors: Vec<(u32, Vec<u8>)> = Vec::new();
    let mut handler = |code: &mut Vec<u8>, vector: u32, body: &[u8], top: u32| {
        let addr = base + code.len() as u32;
        vectors.push((vector * 4, (addr | (top << 24)).to_be_bytes().to_vec()));
        for &it in body {
            if it == 0 {
                code.extend(marker.iter());
            } else {
                code.extend(trapa(it));
            }
        }
        code.extend(rte.iter());
    };
    handler(&mut code, 9, h1, 0x00); // TRAPA #1
    handler(&mut code, 10, h2, 0x7e); // TRAPA #2
    handler(&mut code, 11, &[], 0xff); // TRAPA #3
    handler(&mut code, 1, &[1], 0x00); // irq 1 nests TRAPA #1
    handler(&mut code, 36, &[], 0x33); // irq 36
    handler(&mut code, 63, &[2, 3], 0x00); // irq 63 nests TRAPA #2 then #3
    let mut image = vec![(base, code)];
    image.extend(vectors);
    ExcProg { image, entry: base, end_pc }
}

fn history_unit(max_inj: usize, main_len: usize) -> Unit {
    let mains = seqs_upto(&[1, 2, 3, 0], main_len);
    let h1s = seqs_upto(&[2, 3], 2);
    let h2s = seqs_upto(&[3], 2);
    // schedules: up to `max_inj` (main-level boundary index, vector) pairs with increasing boundary indices
    let vectors = [1u8, 36, 63];
    let mut schedules: Vec<Vec<(usize, u8)>> = vec![vec![]];
    let nb = 7usize;
    fn rec(start: usize, nb: usize, left: usize, vectors: &[u8], cur: &mut Vec<(usize, u8)>, out: &mut Vec<Vec<(usize, u8)>>) {
        if left == 0 {
            return;
        }
        for b in start..nb {
            for &v in vectors {
                cur.push((b, v));
                out.push(cur.clone());
                rec(b + 1, nb, left - 1, vectors, cur, out);
                cur.pop();
            }
        }
    }
    rec(0, nb, max_inj, &vectors, &mut Vec::new(), &mut schedules);
    let nprog = (mains.len() * h1s.len() * h2s.len()) as u64;
    let nsched = schedules.len() as u64;
    let total = nprog * nsched;
    let chunks = (total / 4000).clamp(1, 512);
    let dom = format!(
        "{} guest programs (main = every sequence of <={} items over {{TRAPA #1,#2,#3, marker}}; TRAPA #1 handler = every sequence of <=2 nested traps over {{#2,#3}}; #2 handler over {{#3}}; interrupt handlers nest further traps) x {} injection schedules (<= {} interrupt requests from {{1,36,63}} at any main-level boundary) = {} complete histories, nesting depth up to 5",
        nprog, main_len, nsched, max_inj, total
    );
    Unit::new(&format!("histories/inj<={}", max_inj), chunks, &dom, move |ctx, chunk| {
        let (lo, hi) = chunk_range(total, chunks, chunk);
        for idx in lo..hi {
            let pi = idx / nsched;
            let sched = &schedules[(idx % nsched) as usize];
            let mi = (pi as usize) % mains.len();
            let h1i = (pi as usize / mains.len()) % h1s.len();
            let h2i = pi as usize / mains.len() / h1s.len();
            let in_dram = pi % 2 == 1;
            let base = if in_dram { dom::CODE_DRAM + 0x80 } else { dom::CODE_RAM + 0x80 };
            let prog = build_exc_program(&ctx.isa, &mains[mi], &h1s[h1i], &h2s[h2i], base);
            let mut init = Case::new(prog.entry, &[]);
            init.code_len = 0;
            init.image = prog.image.clone();
            init.er = dom::background_regs();
            init.er[7] = if pi % 4 < 2 { dom::STACK_RAM | 0x4400_0000 } else { dom::STACK_DRAM | 0xb200_0000 };
            init.ccr = ((pi as u8).wrapping_mul(13)) & 0x7f; // I clear at the start
            // harness-side context stack: (registers, CCR, resume PC) saved at each entry
            let mut ctxs: Vec<([u32; 8], u8, u32)> = Vec::new();
            let mut boundary = 0usize; // main-level boundaries seen so far
            let mut next_inj = 0usize;
            let end_pc = prog.end_pc;
            let mut finished = false;
            // first action
            let mut first = Act::Step;
            if next_inj < sched.len() && sched[next_inj].0 == 0 {
                first = Act::Irq(sched[next_inj].1);
                next_inj += 1;
            }
            boundary += 1;
            ctx.run_seq(&init, first, 200, &mut |o: &StepObs| {
                match o.act {
                    Act::Irq(_) => {
                        if o.post_pc == o.pre_pc && o.post_er == o.pre_er {
                            return Next::Fail("interrupt request at a boundary with I clear was not accepted".into());
                        }
                        ctxs.push((o.pre_er, o.pre_ccr, o.pre_pc));
                    }
                    Act::Req(_) | Act::Bound | Act::Host(..) => {}
                    Act::Step | Act::Exec { .. } => {
                        if let Decoded::Impl { row, f, .. } = o.dec {
                            match ROWS[row].sem {
                                Sem::Trapa if f.trap != 0 => ctxs.push((o.pre_er, o.pre_ccr, (o.pre_pc + 2) & M24)),
                                Sem::Rte => match ctxs.pop() {
                                    Some((er, ccr, pc)) => {
                                        if o.post_er != er {
                                            return Next::Fail(format!("after RTE the registers differ from the interrupted context: {:08x?} vs {:08x?}", o.post_er, er));
                                        }
                                        if o.post_ccr != ccr {
                                            return Next::Fail(format!("after RTE CCR={:02x}, the interrupted context had {:02x}", o.post_ccr, ccr));
                                        }
                                        if o.post_pc != pc {
                                            return Next::Fail(format!("RTE resumed at {:06x}, the interrupted program continues at {:06x}", o.post_pc, pc));
                                        }
                                    }
                                    None => return Next::Fail("RTE without a matching entry".into()),
                                },
                                _ => {}
                            }
                        }
                    }
                }
                if ctxs.is_empty() {
                    // a main-level boundary
                    if o.post_pc == end_pc && (next_inj >= sched.len()) {
                        finished = true;
                        return Next::Stop;
                    }
                    let b = boundary;
                    boundary += 1;
                    if next_inj < sched.len() && sched[next_inj].0 <= b {
                        if o.post_ccr & 0x80 != 0 {
                            return Next::Fail("I is set at main level".into());
                        }
                        let v = sched[next_inj].1;
                        next_inj += 1;
                        return Next::Continue(Act::Irq(v));
                    }
                    if o.post_pc == end_pc {
                        // injections scheduled beyond the last boundary of this program: nothing left to do
                        finished = true;
                        return Next::Stop;
                    }
                }
                Next::Continue(Act::Step)
            });
            if !finished && !ctx.stop && ctx.st.violations_total == 0 && !ctx.panic_only {
                ctx.st.violations_total += 1;
                if ctx.st.violations.len() < crate::hv::e1::MAX_VIOLATIONS_KEPT {
                    ctx.st.violations.push(crate::hv::e1::Violation { engine: "e1".into(), unit: ctx.unit.clone(), what: "generated history did not complete within the action bound".into(), case: init.to_json(), expected: json!(null), actual: json!(null) });
                }
            }
        }
    })
}

pub fn c06(tier: Tier, _seed: u64) -> Prop {
    let mut units = e1_units(tier);
    units.push(history_unit(if tier == Tier::Thorough { 3 } else { 2 }, if tier == Tier::Thorough { 4 } else { 3 }));
    let _ = flow::forests;
    Prop {
        id: "C06",
        level: "model_checking",
        rule: "E1 units: full products of the declared sets. History units: every generated guest program x every injection schedule up to the bound is one complete history, run on the real CPU in lock step with the reference; at every RTE the registers, CCR, SP and resume address are additionally compared with a harness-side snapshot taken at the matching entry (differential oracle). Non-trivial = the step pushes/pops a frame or is an error".into(),
        assumptions: vec![
            "frame layout, vector address and flag rule read from the property statement; UI after entry is left open".into(),
            "interrupt acceptance is exercised with CCR.I clear only (masking is C10's subject)".into(),
            "history bound: main <= 3 items, handler bodies <= 2 nested traps, <= 2 (quick) / <= 3 (thorough) injected requests; nesting depth reaches 5".into(),
        ],
        units,
        extra: Box::new(|m| {
            let mut steps = 0u64;
            for (k, st) in m.iter() {
                if k.starts_with("histories/") {
                    steps += st.cases;
                }
            }
            json!({"states": steps.max(1), "transitions": steps.max(1), "traces_validated_against_impl": steps, "history_actions": steps})
        }),
        profiles: vec!["release"],
    }
}
