//! C04 — bit-manipulation instructions.
use super::memform::*;
use crate::hv::dom::{self, K16, K4};
use crate::hv::e1::{Case, Ctx};
use crate::hv::isa::{Fields, Isa, Mode, Sem, Sz, ROWS};
use crate::hv::sem::{self, set_b};
use crate::hv::shard::{chunk_range, no_extra, Prop, Tier, Unit};

fn bit_case(isa: &Isa, row: usize, f: &Fields, loc: Mode, by_reg: bool, ea: u32, top: u8, val: u8, rnval: u8, ccr: u8, pc: u32) -> Case {
    let code = isa.encode(row, f);
    let mut c = Case::new(pc, &code);
    let mut er = dom::background_regs();
    match loc {
        Mode::Reg => {
            if by_reg {
                set_b(&mut er, f.rn, rnval as u32);
            }
            // operand last so that an overlapping bit register is consistent with the operand byte
            set_b(&mut er, f.rd, val as u32);
            if by_reg && f.rn != f.rd {
                set_b(&mut er, f.rn, rnval as u32);
            }
        }
        Mode::Ind => {
            if by_reg {
                set_b(&mut er, f.rn, rnval as u32);
            }
            er[f.ra as usize] = (ea & 0xffffff) | ((top as u32) << 24);
            c.patch(ea, val);
        }
        _ => {
            if by_reg {
                set_b(&mut er, f.rn, rnval as u32);
            }
            c.patch(ea, val);
        }
    }
    c.er = er;
    c.ccr = ccr;
    c
}

fn plain_abs8() -> Vec<u32> {
    (0xffff00u32..=0xffffe9).filter(|a| !sem::is_port_reg(*a) && !sem::is_timer_reg(*a)).collect()
}

pub fn bit_units(name: &'static str, tier: Tier, seed: u64) -> Vec<Unit> {
    let isa = Isa::new();
    let row = isa.row(name);
    let (by_reg, loc) = match ROWS[row].sem {
        Sem::Bit { by_reg, loc, .. } => (by_reg, loc),
        _ => panic!("not a bit row"),
    };
    let thorough = tier == Tier::Thorough;
    let mut units = Vec::new();

    // ---- shape V: all 256 operand values x all bit numbers x CCR
    {
        let rn_all = by_reg;
        let ccrs: Vec<u8> = if loc == Mode::Reg || thorough { (0..=255u8).collect() } else { K16.to_vec() };
        let rnvals: Vec<u8> = if !rn_all {
            vec![0]
        } else if thorough || loc == Mode::Reg {
            (0..=255u8).collect()
        } else {
            // every low-3-bit value with several upper-bit patterns (the upper five bits must be ignored)
            let mut v = Vec::new();
            for hi in [0x00u8, 0xf8, 0x08, 0x80, 0x50, 0xa8] {
                for lo in 0..8u8 {
                    v.push(hi | lo);
                }
            }
            v
        };
        let ccrs2: Vec<u8> = if by_reg && loc == Mode::Reg && !thorough { K16.to_vec() } else { ccrs };
        let dom = format!(
            "all 256 operand bytes x {} x {} CCR values (complete for value x bit x C)",
            if by_reg { format!("{} bit-register values", rnvals.len()) } else { "all 8 immediate bit numbers".to_string() },
            ccrs2.len()
        );
        units.push(Unit::new(&format!("{}/V", name), 16, &dom, move |ctx, chunk| {
            let (lo, hi) = chunk_range(256, 16, chunk);
            let ea = match loc {
                Mode::A8 => 0xffff08,
                _ => dom::DATA_RAM + 0x21,
            };
            for val in lo..hi {
                for bn in 0..8u8 {
                    if by_reg && bn > 0 {
                        break;
                    }
                    for &rv in rnvals.iter() {
                        let mut f = Fields::default();
                        f.rd = 2;
                        f.ra = 1;
                        f.rn = 11;
                        f.bitn = bn;
                        f.data = ea & 0xff;
                        for &ccr in ccrs2.iter() {
                            let c = bit_case(&ctx.isa, row, &f, loc, by_reg, ea, 0, val as u8, rv, ccr, dom::CODE_RAM);
                            ctx.run(&c);
                        }
                    }
                }
            }
        }));
    }

    // ---- shape R: all register numbers (operand / bit-number / address registers)
    {
        let nd: u8 = if loc == Mode::Reg { 16 } else if loc == Mode::Ind { 8 } else { 1 };
        let nn: u8 = if by_reg { 16 } else { 1 };
        let dom = format!("all {} operand/address registers x {} bit-number registers x 6 operand values x 8 bit numbers x K4 CCR, upper address byte c3 and 3c", nd, nn);
        units.push(Unit::new(&format!("{}/R", name), nd as u64, &dom, move |ctx, chunk| {
            let r = chunk as u8;
            for rn in 0..nn {
                for &val in &[0x00u8, 0xff, 0x55, 0xaa, 0x01, 0x80] {
                    for bn in 0..8u8 {
                        let mut f = Fields::default();
                        f.rd = r;
                        f.ra = r & 7;
                        f.rn = rn;
                        f.bitn = bn;
                        let ea = match loc {
                            Mode::A8 => 0xffff0c,
                            _ => dom::DATA_DRAM + 0x100 + r as u32,
                        };
                        f.data = ea & 0xff;
                        for &ccr in &K4 {
                            // upper byte of the address register: every bit both ways
                            for top in [0xc3u8, 0x3c] {
                                if loc != Mode::Ind && top != 0xc3 {
                                    continue;
                                }
                                let c = bit_case(&ctx.isa, row, &f, loc, by_reg, ea, top, val, 0xf8 | bn, ccr, dom::CODE_RAM);
                                ctx.run(&c);
                            }
                        }
                    }
                }
            }
        }));
    }

    // ---- shape A: operand addresses
    if loc != Mode::Reg {
        let addrs: Vec<u32> = if loc == Mode::A8 { plain_abs8() } else { dom::addr_cov(false, 1) };
        let na = addrs.len() as u64;
        let dom = if loc == Mode::A8 {
            format!("every @aa:8 address that is plain storage ({} addresses: RAM tail and the I/O block minus port DR and timer registers) x 3 values x 8 bits x {{00,ff}}", na)
        } else {
            format!("{} operand addresses across vector area, DRAM and on-chip RAM x 3 values x 8 bits x {{00,ff}}, code in RAM and DRAM", na)
        };
        units.push(Unit::new(&format!("{}/A", name), 4, &dom, move |ctx, chunk| {
            let (lo, hi) = chunk_range(na, 4, chunk);
            for i in lo..hi {
                let ea = addrs[i as usize];
                for &val in &[0x00u8, 0xff, 0xa5] {
                    for bn in 0..8u8 {
                        let mut f = Fields::default();
                        f.rd = 2;
                        f.ra = 4;
                        f.rn = 11;
                        f.bitn = bn;
                        f.data = ea & 0xff;
                        for &pc in &[dom::CODE_RAM, dom::CODE_DRAM] {
                            if ea.wrapping_sub(pc) < 32 {
                                continue;
                            }
                            for &ccr in &[0x00u8, 0xff] {
                                let c = bit_case(&ctx.isa, row, &f, loc, by_reg, ea, (i as u8).wrapping_mul(29), val, bn, ccr, pc);
                                ctx.run(&c);
                            }
                        }
                    }
                }
            }
        }));
    }
    units
}

pub fn c04(tier: Tier, seed: u64) -> Prop {
    let mut units = Vec::new();
    for r in ROWS.iter() {
        if let Sem::Bit { .. } = r.sem {
            units.extend(bit_units(r.name, tier, seed));
        }
    }
    // ---- the I/O page under different backgrounds: a register that starts acting only when *another* register of
    //      the page holds a particular pattern (an enable bit in a second control register) is invisible while the
    //      rest of the page holds one fixed image
    {
        let rows: Vec<(usize, bool)> = ROWS
            .iter()
            .enumerate()
            .filter_map(|(i, r)| match r.sem {
                Sem::Bit { op, by_reg, loc: Mode::A8, .. } if matches!(op, crate::hv::isa::BitOp::Bset | crate::hv::isa::BitOp::Bclr | crate::hv::isa::BitOp::Bnot | crate::hv::isa::BitOp::Bst) => Some((i, by_reg)),
                _ => None,
            })
            .collect();
        let nrows = rows.len();
        let bgs: Vec<u8> = if tier == Tier::Thorough { (0..=255u8).collect() } else { K16.to_vec() };
        let nb = bgs.len() as u64;
        let dom = format!("every plain byte of the @aa:8 I/O page (H'FFFF20-H'FFFFE9 minus port and timer registers) filled with one background value, for each of {} background values; under each background every such address x all 256 operand values x bit numbers {{0, 7}} x the {} memory-writing @aa:8 forms (BSET/BCLR/BNOT/BST/BIST, immediate and register bit number): exactly the addressed bit changes, no other byte changes", nb, nrows);
        units.push(Unit::new("io-page-backgrounds", nb, &dom, move |ctx, chunk| {
            let b = bgs[chunk as usize];
            let page: Vec<u32> = (0xffff20u32..=0xffffe9).filter(|a| !sem::is_port_reg(*a) && !sem::is_timer_reg(*a)).collect();
            for &a in page.iter() {
                ctx.m.poke_sticky(a, b);
            }
            for &(row, by_reg) in rows.iter() {
                for &ea in page.iter() {
                    for bn in [0u8, 7] {
                        let mut f = Fields::default();
                        f.rd = 2;
                        f.ra = 4;
                        f.rn = 11;
                        f.bitn = bn;
                        f.data = ea & 0xff;
                        for val in 0..=255u8 {
                            let c = bit_case(&ctx.isa, row, &f, Mode::A8, by_reg, ea, 0, val, bn, if val & 1 == 0 { 0x00 } else { 0x01 }, dom::CODE_RAM);
                            ctx.run(&c);
                        }
                    }
                }
                if ctx.stop {
                    break;
                }
            }
            ctx.m.end_sticky();
        }));
    }
    Prop {
        id: "C04",
        level: "exploration",
        rule: "cases are the full product of the declared finite sets per unit (distinct by construction); non-trivial = reference outcome Ok (every bit instruction reads its operand) or an error outcome".into(),
        assumptions: vec![
            "reference semantics written from the property statement".into(),
            "port DDR/DR and timer registers are excluded from the @aa:8 sweep, as the quantifier says".into(),
            "all guest memory is compared with a shadow copy, so 'all other memory unchanged' is checked on every byte".into(),
        ],
        units,
        extra: no_extra(),
        profiles: vec!["release"],
    }
}
