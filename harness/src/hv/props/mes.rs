//! C14 — the MES system-call trap (TRAPA #0): write (ER0=104), set_handler (ER0=113), everything else an error.
use crate::hv::dom;
use crate::hv::e1::{Actual, Case, Ctx, Kind};
use crate::hv::mach::Mach;
use crate::hv::shard::{chunk_range, Prop, Tier, Unit};
use serde_json::{json, Value};
use std::sync::mpsc::{channel, Receiver, Sender};

thread_local! {
    static CHAN: std::cell::RefCell<Option<(Receiver<String>, Sender<String>)>> = std::cell::RefCell::new(None);
}

/// attach a channel socket to the E1 machine's CPU once per process; returns drained messages on demand
pub fn ensure_socket(ctx: &mut Ctx) {
    // always a fresh pair of channels: the machine may have been replaced since the last call
    CHAN.with(|c| {
        let (out_tx, out_rx) = channel();
        let (in_tx, in_rx) = channel();
        ctx.m.cpu.vh_attach_channels(out_tx, in_rx);
        *c.borrow_mut() = Some((out_rx, in_tx));
    });
}

pub fn drain() -> Vec<String> {
    CHAN.with(|c| c.borrow().as_ref().map(|(rx, _)| rx.try_iter().collect()).unwrap_or_default())
}

#[derive(Clone, Debug)]
pub struct WriteScn {
    pub text: Vec<u8>,
    pub buf: u32,
    pub arg: u32,
    pub pc: u32,
    pub ccr: u8,
}

fn code_points() -> Vec<String> {
    vec![
        "\0".into(), "\n".into(), "\r".into(), "\\".into(), "\"".into(), "\x7f".into(), "A".into(), " ".into(),
        "\u{80}".into(), "\u{7ff}".into(), "\u{800}".into(), "\u{fffd}".into(), "\u{10000}".into(), "\u{10ffff}".into(), "é".into(), "💡".into(),
    ]
}

/// The complete, deterministic scenario list of the write call (shared by the in-process check and the console child).
pub fn write_scenarios(tier: Tier) -> Vec<WriteScn> {
    let mut v = Vec::new();
    let bufs: [u32; 6] = [0xffbf20, 0xffd000, 0x400000, 0x480000, 0xffef00, 0x5fe000];
    let args: [u32; 4] = [0xffe800, 0x4a0000, 0xffbf30 + 0x1000, 0x5ffff0 - 0x10];
    let mut k = 0usize;
    let mut push = |text: Vec<u8>, v: &mut Vec<WriteScn>| {
        let mut buf = bufs[k % bufs.len()];
        if text.len() > 200 && buf == 0xffbf20 {
            buf = 0xffd000; // keep long texts clear of the code at H'FFC000
        }
        let arg = args[(k / bufs.len()) % args.len()];
        let pc = if k % 2 == 0 { dom::CODE_RAM } else { dom::CODE_DRAM };
        v.push(WriteScn { text, buf, arg, pc, ccr: (k as u8).wrapping_mul(37) });
        k += 1;
    };
    // all lengths 0-64 of a rolling printable pattern, then the long ones
    let pat = |n: usize| -> Vec<u8> { (0..n).map(|i| b' ' + ((i * 7 + n) % 94) as u8).collect() };
    for n in 0..=64 {
        push(pat(n), &mut v);
    }
    for n in [127usize, 128, 255, 256, 1023, 1024, 4095, 4096] {
        push(pat(n), &mut v);
    }
    // lengths beyond 16 bits (the length word is a longword, while an H8 `int` has 16 bits: a loop counter narrowed to
    // 16 bits was invisible - hand-made probe, seeded/hand): buffer fixed in DRAM, clear of code and argument blocks
    for n in [0xffffusize, 0x10000, 0x10001, 0x1ffff] {
        v.push(WriteScn { text: pat(n), buf: 0x480000, arg: 0xffe800, pc: dom::CODE_RAM, ccr: 0x80 });
    }
    // every code point class alone, doubled, and surrounded
    for cp in code_points() {
        push(cp.as_bytes().to_vec(), &mut v);
        push(format!("{}{}", cp, cp).into_bytes(), &mut v);
        push(format!("x{}y", cp).into_bytes(), &mut v);
    }
    // all strings of length <= 3 over an 8-symbol alphabet
    let syms: [&str; 8] = ["a", "\n", "\\", "\0", "é", "💡", "\"", "n"];
    let maxlen = if tier == Tier::Thorough { 4 } else { 3 };
    let mut frontier: Vec<String> = vec![String::new()];
    for _ in 0..maxlen {
        let mut nf = Vec::new();
        for s in &frontier {
            for y in syms.iter() {
                nf.push(format!("{}{}", s, y));
            }
        }
        for s in nf.iter() {
            push(s.as_bytes().to_vec(), &mut v);
        }
        frontier = nf;
    }
    // long runs
    push(vec![b'\n'; 300], &mut v);
    push("💡".repeat(200).into_bytes(), &mut v);
    push(vec![0u8; 100], &mut v);
    // multi-byte characters straddling every 2^k position of a long text in every possible split: an ASCII filler
    // with one 2-, 3- or 4-byte character starting at boundary - j (j = 0 .. size of the character), plus two of
    // them back to back; total length a little beyond the boundary and 4096
    for boundary in [16usize, 64, 128, 256, 512, 1024, 2048, 3072, 4092] {
        for ch in ["é", "€", "💡"] {
            let cb = ch.as_bytes();
            for j in 0..=cb.len() {
                let start = boundary - j;
                for total in [boundary + 8, 4096] {
                    if start + 2 * cb.len() > total {
                        continue;
                    }
                    let mut t: Vec<u8> = (0..start).map(|i| b'a' + (i % 26) as u8).collect();
                    t.extend_from_slice(cb);
                    if (j + boundary) % 2 == 0 {
                        t.extend_from_slice(cb);
                    }
                    while t.len() < total {
                        t.push(b'A' + (t.len() % 26) as u8);
                    }
                    let buf = if (boundary + j) % 2 == 0 { 0x480000 } else { 0xffd000 };
                    v.push(WriteScn { text: t, buf, arg: 0xffe900, pc: dom::CODE_DRAM, ccr: 0x15 });
                }
            }
        }
    }
    // one multi-byte character starting at every offset 0..=300 of an ASCII text (a preview, a column limit or a
    // buffer of any size up to 300 that cuts a text in the middle of a character)
    for ch in ["é", "€", "💡"] {
        let cb = ch.as_bytes();
        for start in 0..=300usize {
            let mut t: Vec<u8> = (0..start).map(|i| b'a' + (i % 26) as u8).collect();
            t.extend_from_slice(cb);
            while t.len() < 310 {
                t.push(b'A' + (t.len() % 26) as u8);
            }
            let buf = if start % 2 == 0 { 0x480000 } else { 0xffd000 };
            v.push(WriteScn { text: t, buf, arg: 0xffe900, pc: dom::CODE_DRAM, ccr: 0x2b });
        }
    }
    // texts made of multi-byte characters only, behind 0..size-1 ASCII bytes: whatever fixed size a writer chunks at,
    // one of these texts has a character across the chunk boundary
    for ch in ["é", "€", "💡"] {
        for lead in 0..ch.len() {
            for total in [1000usize, 2100, 4096] {
                let mut t: Vec<u8> = vec![b'x'; lead];
                while t.len() + ch.len() <= total {
                    t.extend_from_slice(ch.as_bytes());
                }
                v.push(WriteScn { text: t, buf: if lead % 2 == 0 { 0x480000 } else { 0xffd000 }, arg: 0xffe900, pc: dom::CODE_RAM, ccr: 0x08 });
            }
        }
    }
    // newlines with long tails, and long lines before a newline (line-buffered console writers)
    for head in [0usize, 1, 27, 1023, 1024, 1025] {
        for tail in [0usize, 1, 1022, 1023, 1024, 1025, 1500, 3000] {
            if head + 1 + tail > 4096 {
                continue;
            }
            let mut t: Vec<u8> = (0..head).map(|i| b'h' + (i % 7) as u8).collect();
            t.push(b'\n');
            t.extend((0..tail).map(|i| b't' + (i % 5) as u8));
            v.push(WriteScn { text: t.clone(), buf: 0x480000, arg: 0xffe900, pc: dom::CODE_RAM, ccr: 0x00 });
            // and two newlines
            let mut t2 = t.clone();
            let mid = t2.len() / 2;
            t2[mid] = b'\n';
            v.push(WriteScn { text: t2, buf: 0xffd000, arg: 0x4a0000, pc: dom::CODE_DRAM, ccr: 0x80 });
        }
    }
    // terminal control: every string of <= 4 symbols over {ESC, [, 0, ;, m, 1} (colour and cursor sequences), and
    // the other bytes a terminal or a log view gives a meaning to
    {
        let syms: [&str; 6] = ["\x1b", "[", "0", ";", "m", "1"];
        let mut frontier: Vec<String> = vec![String::new()];
        for _ in 0..4 {
            let mut nf = Vec::new();
            for s0 in &frontier {
                for y in syms.iter() {
                    nf.push(format!("{}{}", s0, y));
                }
            }
            for s1 in nf.iter() {
                if s1.contains('\x1b') {
                    v.push(WriteScn { text: format!("<{}>", s1).into_bytes(), buf: 0xffd000, arg: 0xffe900, pc: dom::CODE_RAM, ccr: 0x01 });
                }
            }
            frontier = nf;
        }
        for t in ["\x1b[1;31mred\x1b[0m", "\x1b[2J\x1b[H", "\x1b]0;title\x07", "a\rb", "a\tb", "a\x08b", "a\x7fb", "\x07", "%s %d %n", "{} {0}", "\\n \\t \\x1b", "<b>&amp;</b>", "\u{feff}bom", "\u{200b}zw", "\u{202e}rtl", "e\u{301}"] {
            v.push(WriteScn { text: t.as_bytes().to_vec(), buf: 0x480000, arg: 0xffe900, pc: dom::CODE_DRAM, ccr: 0x00 });
        }
    }
    // buffers ending exactly at the last byte of on-chip RAM and of DRAM
    for (end, n) in [(0xffff1fu32, 17usize), (0x5fffff, 33), (0xffff1f, 1), (0x5fffff, 4096)] {
        let text = pat(n);
        v.push(WriteScn { text, buf: end + 1 - n as u32, arg: 0xffe900, pc: dom::CODE_RAM, ccr: 0x2a });
    }
    v
}

pub fn setup_write(m: &mut Mach, s: &WriteScn) -> Case {
    let mut c = Case::new(s.pc, &[0x57, 0x00]);
    c.er = dom::background_regs();
    c.er[0] = 104;
    c.er[1] = s.arg;
    c.er[7] = 0x00ffe700;
    c.ccr = s.ccr;
    let code = c.code;
    m.poke_bytes(s.pc, &code);
    m.poke_bytes(s.arg, &1u32.to_be_bytes());
    m.poke_bytes(s.arg + 4, &s.buf.to_be_bytes());
    m.poke_bytes(s.arg + 8, &(s.text.len() as u32).to_be_bytes());
    m.poke_bytes(s.buf, &s.text);
    c.code_sticky = true;
    c
}

fn case_json(s: &WriteScn) -> Value {
    json!({"call": "write", "text": crate::hv::e1::hex(&s.text[..s.text.len().min(64)]), "len": s.text.len(), "buf": format!("{:06x}", s.buf), "arg": format!("{:06x}", s.arg), "pc": format!("{:06x}", s.pc), "ccr": s.ccr})
}

/// One write call on the real CPU; checks everything except the console bytes.
fn check_write(ctx: &mut Ctx, s: &WriteScn) -> Option<String> {
    check_write_fd(ctx, s, 1)
}

/// The same with another value in the `fd` word of the argument block (the statement does not single out a descriptor).
fn check_write_fd(ctx: &mut Ctx, s: &WriteScn, fd: u32) -> Option<String> {
    let c = setup_write(&mut ctx.m, s);
    if fd != 1 {
        ctx.m.poke_bytes(s.arg, &fd.to_be_bytes());
    }
    drain();
    let act = ctx.execute(&c);
    let msgs = drain();
    let cpu = &ctx.m.cpu;
    let mut verdict = None;
    match &act {
        Actual::Ok(_) => {
            let want = format!("stdout:{}", String::from_utf8_lossy(&s.text));
            // a zero-length write has nothing to emit: no message at all is as good as one empty message
            let empty_ok = s.text.is_empty() && msgs.is_empty();
            if !empty_ok && (msgs.len() != 1 || msgs[0] != want) {
                verdict = Some(format!("expected exactly one message {:?}, got {:?}", want.chars().take(60).collect::<String>(), msgs.iter().map(|m| m.chars().take(60).collect::<String>()).collect::<Vec<_>>()));
            } else if cpu.vh_pc() != s.pc + 2 {
                verdict = Some(format!("execution continues at {:06x}, the following instruction is at {:06x}", cpu.vh_pc(), s.pc + 2));
            } else if cpu.er != c.er {
                verdict = Some(format!("registers changed: {:08x?} -> {:08x?}", c.er, cpu.er));
            } else if cpu.vh_ccr() != c.ccr {
                verdict = Some(format!("CCR changed: {:02x} -> {:02x}", c.ccr, cpu.vh_ccr()));
            }
        }
        other => verdict = Some(format!("the write call did not complete: {:?}", other)),
    }
    if verdict.is_none() {
        if let Some(a) = ctx.wlog_first_effective() {
            verdict = Some(format!("the write call modified memory at {:06x}", a));
        }
    }
    ctx.m.restore();
    verdict
}

pub fn console_expected(scn: &[WriteScn], lo: usize, hi: usize) -> Vec<u8> {
    let mut out = Vec::new();
    for k in lo..hi {
        out.extend(format!("\n@@C14-{}@@\n", k).as_bytes());
        out.extend(&scn[k].text);
    }
    out.extend(b"\n@@C14-END@@\n");
    out
}

/// Child process: perform the write calls lo..hi with the real CPU and let the emulator's own `print!`
/// write to this process's stdout (a pipe); delimiters go through the same stream.
pub fn console_child(tier: Tier, lo: usize, hi: usize) -> i32 {
    use std::io::Write;
    let scn = write_scenarios(tier);
    let mut m = Mach::new();
    for k in lo..hi.min(scn.len()) {
        print!("\n@@C14-{}@@\n", k);
        let c = setup_write(&mut m, &scn[k]);
        m.cpu.er = c.er;
        m.cpu.vh_set_pc(c.pc);
        m.cpu.vh_set_ccr(c.ccr);
        let _ = m.cpu.vh_step();
        m.restore();
    }
    print!("\n@@C14-END@@\n");
    let _ = std::io::stdout().flush();
    0
}

fn c14_units(tier: Tier) -> Vec<Unit> {
    let mut units = Vec::new();
    let scn = write_scenarios(tier);
    let n = scn.len() as u64;
    let chunks = 16u64.min(n);
    let dom = format!(
        "{} write calls: all lengths 0-64 and 127,128,255,256,1023,1024,4095,4096 and H'FFFF, H'10000, H'10001, H'1FFFF; every code-point class (NUL, newline, CR, backslash, quote, DEL, 2/3/4-byte UTF-8 incl. U+0080, U+07FF, U+0800, U+FFFD, U+10000, U+10FFFF) alone/doubled/embedded; every string of up to {} symbols over an 8-symbol alphabet; long runs; buffers and argument blocks in on-chip RAM and DRAM incl. their first and last bytes; message checked in-process, console bytes through a child process whose stdout is a pipe",
        n,
        if tier == Tier::Thorough { 4 } else { 3 }
    );
    units.push(Unit::new("write", chunks, &dom, move |ctx, chunk| {
        ensure_socket(ctx);
        let scn = write_scenarios(tier);
        let (lo, hi) = chunk_range(scn.len() as u64, chunks, chunk);
        for k in lo as usize..hi as usize {
            ctx.st.cases += 1;
            ctx.st.nontrivial += 1;
            ctx.st.exp_ok += 1;
            {
                let h = scn[k].text.iter().fold(scn[k].text.len(), |h, &b| h.wrapping_mul(131) ^ b as usize) & 0xffff;
                ctx.st.outcome_bits[h / 64] |= 1 << (h % 64);
            }
            if let Some(msg) = check_write(ctx, &scn[k]) {
                ctx.custom_violation("c14", msg, case_json(&scn[k]), json!(null), json!(null));
            }
        }
        // console bytes of the same scenarios, captured from a child process
        let exe = std::env::current_exe().unwrap();
        let out = std::process::Command::new(exe).args(["c14child", tier.name(), &lo.to_string(), &hi.to_string()]).env("RUST_BACKTRACE", "0").output();
        match out {
            Ok(o) if o.status.success() => {
                let want = console_expected(&scn, lo as usize, hi as usize);
                if o.stdout != want {
                    let k = o.stdout.iter().zip(want.iter()).position(|(a, b)| a != b).unwrap_or(o.stdout.len().min(want.len()));
                    // which scenario does byte k belong to
                    let before = String::from_utf8_lossy(&want[..k.min(want.len())]).to_string();
                    let idx = before.rfind("@@C14-").map(|p| before[p + 6..].chars().take_while(|c| c.is_ascii_digit()).collect::<String>()).unwrap_or_default();
                    let sk = idx.parse::<usize>().ok();
                    ctx.custom_violation(
                        "c14",
                        format!("console output differs from the bytes of the buffers at byte {} (scenario {:?}): {} bytes written, {} expected", k, sk, o.stdout.len(), want.len()),
                        sk.map(|i| case_json(&scn[i])).unwrap_or(json!({"call": "write"})),
                        json!(null),
                        json!(null),
                    );
                }
                ctx.st.cases += (hi - lo) as u64;
            }
            other => ctx.machinery(format!("console child failed: {:?}", other.map(|o| o.status))),
        }
        if chunk == 0 {
            ctx.sample(case_json(&scn[70]));
        }
    }));
    // ---- the descriptor word: whatever it holds, the bytes are emitted
    units.push(Unit::new(
        "write/fd-values",
        1,
        "the fd word of the argument block in {0, 1, 2, 3, 4, 255, 2^31 - 1, 2^31, 2^32 - 1} x the first 80 write scenarios: the same single message whatever the descriptor",
        move |ctx, _| {
            ensure_socket(ctx);
            let scn = write_scenarios(Tier::Quick);
            for fd in [0u32, 1, 2, 3, 4, 255, 0x7fff_ffff, 0x8000_0000, 0xffff_ffff] {
                for k in 0..80.min(scn.len()) {
                    ctx.st.cases += 1;
                    ctx.st.nontrivial += 1;
                    if let Some(msg) = check_write_fd(ctx, &scn[k], fd) {
                        let mut cj = case_json(&scn[k]);
                        cj["fd"] = json!(fd);
                        ctx.custom_violation("c14", format!("fd = {}: {}", fd, msg), cj, json!(null), json!(null));
                    }
                }
            }
        },
    ));
    // ---- set_handler: all vectors 0-255 x handler addresses, then an interrupt of the vector
    units.push(Unit::new(
        "set_handler",
        4,
        "ER0=113 with every vector number 0-255 (and 256, 2^16, 2^31, 0xffffffff) x handler addresses {on-chip RAM, DRAM, upper byte set}; for vectors 1-63 an interrupt of that vector (and of two other vectors) is then accepted to observe the installation, and a request of that vector raised while interrupts are masked must enter the handler once the mask is cleared; other vectors must change nothing",
        move |ctx, chunk| {
            ensure_socket(ctx);
            let handlers: [u32; 3] = [0x00ffc400, 0x00412344, 0x12ffc800];
            let mut vectors: Vec<u32> = (0..256).collect();
            vectors.extend([256u32, 65536, 0x8000_0000, 0xffff_ffff, 64, 63]);
            let (lo, hi) = chunk_range(vectors.len() as u64, 4, chunk);
            for vi in lo as usize..hi as usize {
                let v = vectors[vi];
                for &h in handlers.iter() {
                    let arg = 0xffe900u32;
                    let pc = dom::CODE_RAM;
                    let mut c = Case::new(pc, &[0x57, 0x00]);
                    c.er = dom::background_regs();
                    c.er[0] = 113;
                    c.er[1] = arg;
                    c.er[7] = 0x00ffe700;
                    c.ccr = 0x05;
                    let code = c.code;
                    ctx.m.poke_bytes(pc, &code);
                    ctx.m.poke_bytes(arg, &v.to_be_bytes());
                    ctx.m.poke_bytes(arg + 4, &h.to_be_bytes());
                    c.code_sticky = true;
                    drain();
                    let act = ctx.execute(&c);
                    ctx.st.cases += 1;
                    ctx.st.nontrivial += 1;
                    let case = json!({"call": "set_handler", "vector": v, "address": format!("{:08x}", h)});
                    let cpu = &ctx.m.cpu;
                    let mut verdict: Option<String> = None;
                    if !matches!(act, Actual::Ok(_)) {
                        verdict = Some(format!("set_handler did not complete: {:?}", act));
                    } else if cpu.vh_pc() != pc + 2 || cpu.er != c.er || cpu.vh_ccr() != c.ccr {
                        verdict = Some(format!("registers / CCR / PC changed by set_handler: PC {:06x} CCR {:02x} ER {:08x?}", cpu.vh_pc(), cpu.vh_ccr(), cpu.er));
                    } else if !(1..=63).contains(&v) {
                        if let Some(a) = ctx.wlog_first_effective() {
                            verdict = Some(format!("vector {} is outside 1-63 and must be ignored, but memory at {:06x} changed", v, a));
                        }
                    }
                    if verdict.is_none() && (1..=63).contains(&v) {
                        // everything the call wrote is accepted as handler bookkeeping; now observe the installation
                        let written: Vec<u32> = ctx.wlog_all();
                        for a in written.iter() {
                            ctx.m.mark_dirty(*a);
                            ctx.m.accept(*a);
                        }
                        for probe in [v as u8, if v == 1 { 2 } else { 1 }, if v == 63 { 62 } else { 63 }] {
                            let mut ic = Case::new(0x410000, &[]);
                            ic.code_len = 0;
                            ic.code_sticky = true;
                            ic.kind = Kind::Irq(probe);
                            ic.er = dom::background_regs();
                            ic.er[7] = 0x00ffe700;
                            ic.ccr = 0x00;
                            let before = ctx.m.peek(probe as u32 * 4 + 1).unwrap_or(0);
                            let _ = before;
                            let a2 = ctx.execute(&ic);
                            let pc_after = ctx.m.cpu.vh_pc();
                            // undo the frame
                            let wl = ctx.wlog_all();
                            for a in wl {
                                ctx.m.mark_dirty(a);
                                ctx.m.accept(a);
                            }
                            if probe as u32 == v {
                                if !matches!(a2, Actual::Ok(_)) || pc_after != (h & 0xffffff) {
                                    verdict = Some(format!("after set_handler({}, {:08x}) an interrupt of vector {} enters {:06x} ({:?})", v, h, probe, pc_after, a2));
                                }
                            } else {
                                // other vectors still hold the tagged pattern of the image: entry goes wherever that points, must not be `h`
                                let expect = ((ctx.m.peek_shadow(probe as u32 * 4 + 1).unwrap_or(0) as u32) << 16) | ((ctx.m.peek_shadow(probe as u32 * 4 + 2).unwrap_or(0) as u32) << 8) | ctx.m.peek_shadow(probe as u32 * 4 + 3).unwrap_or(0) as u32;
                                let _ = expect;
                                if matches!(a2, Actual::Ok(_)) && pc_after == (h & 0xffffff) && (h & 0xffffff) != expect {
                                    verdict = Some(format!("set_handler({}, ..) also redirected vector {}", v, probe));
                                }
                            }
                        }
                    }
                    if verdict.is_none() && (1..=63).contains(&v) {
                        // a request that is raised while interrupts are masked enters the installed address once the mask is cleared
                        let mut rc = Case::new(0x410000, &[]);
                        rc.code_len = 0;
                        rc.code_sticky = true;
                        rc.er = dom::background_regs();
                        rc.er[7] = 0x00ffe700;
                        rc.ccr = 0x80;
                        rc.kind = Kind::Req(v as u8);
                        ctx.m.cpu.vh_clear_pending_interrupts();
                        let _ = ctx.execute(&rc);
                        rc.kind = Kind::Bound;
                        let _ = ctx.execute(&rc);
                        let pc_masked = ctx.m.cpu.vh_pc();
                        rc.ccr = 0x00;
                        let a3 = ctx.execute(&rc);
                        let pc_after = ctx.m.cpu.vh_pc();
                        let wl = ctx.wlog_all();
                        for a in wl {
                            ctx.m.mark_dirty(a);
                            ctx.m.accept(a);
                        }
                        ctx.m.cpu.vh_clear_pending_interrupts();
                        if pc_masked != 0x410000 {
                            verdict = Some(format!("vector {}: the request was accepted while CCR.I was set (PC {:06x})", v, pc_masked));
                        } else if !matches!(a3, Actual::Ok(_)) || pc_after != (h & 0xffffff) {
                            verdict = Some(format!("after set_handler({}, {:08x}) a request raised while interrupts were masked does not enter the handler once the mask is cleared: PC {:06x} ({:?})", v, h, pc_after, a3));
                        }
                    }
                    if let Some(msg) = verdict {
                        ctx.custom_violation("c14", msg, case, json!(null), json!(null));
                    }
                    ctx.m.restore();
                }
            }
        },
    ));
    // ---- set_handler: the argument block anywhere around the memory the call itself writes
    units.push(Unit::new(
        "set_handler/block-placement",
        9,
        "ER0=113 for every vector 1-63 with the argument block at every byte address of H'FFFD00-H'FFFE1F (the area in which the call keeps its per-vector bookkeeping) and at every byte address from 12 below to 8 above the vector's own table entry: vector number and handler address are the ones the block held when the call was made - an interrupt of that vector must enter that address",
        move |ctx, chunk| {
            ensure_socket(ctx);
            for v in (1u32..=63).filter(|v| (*v as u64) % 9 == chunk) {
                let h = 0x0041_2340u32 + 4 * v;
                let mut blocks: Vec<u32> = (0xfffd00u32..=0xfffe1f).collect();
                blocks.extend((4 * v).saturating_sub(12)..=(4 * v + 8).min(0xf8));
                for arg in blocks {
                    let pc = dom::CODE_RAM;
                    let mut c = Case::new(pc, &[0x57, 0x00]);
                    c.er = dom::background_regs();
                    c.er[0] = 113;
                    c.er[1] = arg;
                    c.er[5] = 0x0041_7770;
                    c.er[7] = 0x00ffe700;
                    c.ccr = 0x05;
                    let code = c.code;
                    ctx.m.poke_bytes(pc, &code);
                    ctx.m.poke_bytes(arg, &v.to_be_bytes());
                    ctx.m.poke_bytes(arg + 4, &h.to_be_bytes());
                    c.code_sticky = true;
                    drain();
                    let act = ctx.execute(&c);
                    ctx.st.cases += 1;
                    ctx.st.nontrivial += 1;
                    let case = json!({"call": "set_handler", "vector": v, "address": format!("{:08x}", h), "block": format!("{:06x}", arg)});
                    let mut verdict: Option<String> = None;
                    if !matches!(act, Actual::Ok(_)) {
                        verdict = Some(format!("set_handler did not complete: {:?}", act));
                    } else {
                        let cpu = &ctx.m.cpu;
                        if cpu.vh_pc() != pc + 2 || cpu.er != c.er || cpu.vh_ccr() != c.ccr {
                            verdict = Some(format!("registers / CCR / PC changed by set_handler: PC {:06x} CCR {:02x} ER {:08x?}", cpu.vh_pc(), cpu.vh_ccr(), cpu.er));
                        }
                    }
                    if verdict.is_none() {
                        let written: Vec<u32> = ctx.wlog_all();
                        for a in written.iter() {
                            ctx.m.mark_dirty(*a);
                            ctx.m.accept(*a);
                        }
                        let mut ic = Case::new(0x410000, &[]);
                        ic.code_len = 0;
                        ic.code_sticky = true;
                        ic.kind = Kind::Irq(v as u8);
                        ic.er = dom::background_regs();
                        ic.er[7] = 0x00ffe700;
                        ic.ccr = 0x00;
                        let a2 = ctx.execute(&ic);
                        let pc_after = ctx.m.cpu.vh_pc();
                        let wl = ctx.wlog_all();
                        for a in wl {
                            ctx.m.mark_dirty(a);
                            ctx.m.accept(a);
                        }
                        if !matches!(a2, Actual::Ok(_)) || pc_after != (h & 0xffffff) {
                            verdict = Some(format!("after set_handler({}, {:08x}) with the argument block at {:06x} an interrupt of vector {} enters {:06x} ({:?})", v, h, arg, v, pc_after, a2));
                        }
                    }
                    if let Some(msg) = verdict {
                        ctx.custom_violation("c14", msg, case, json!(null), json!(null));
                    }
                    ctx.m.restore();
                }
            }
        },
    ));
    // ---- other call numbers are errors
    units.push(Unit::new(
        "other-ids",
        4,
        "every call number 0-4095 except 104 and 113, all 2^k and 2^k +- 1, 0xffffffff, every number whose low 16 bits are 104 or 113 with a non-zero upper half (2 x 65535), 104 and 113 shifted into the other bytes; ER1 points to a block that is a valid argument block for both calls, so a call that is carried out shows as a message or a changed vector: execution stops with an error and no memory changes",
        move |ctx, chunk| {
            ensure_socket(ctx);
            let mut ids: Vec<u32> = (0..4096).collect();
            for hi in 1..=0xffffu32 {
                ids.push(hi << 16 | 104);
                ids.push(hi << 16 | 113);
            }
            for sh in [8u32, 16, 24] {
                ids.push(104 << sh);
                ids.push(113 << sh);
                ids.push(104 << sh | 104);
                ids.push(113 << sh | 113);
            }
            for b in 0..32 {
                ids.push(1u32 << b);
                ids.push((1u32 << b).wrapping_sub(1));
                ids.push((1u32 << b).wrapping_add(1));
            }
            ids.push(0xffff_ffff);
            ids.retain(|x| *x != 104 && *x != 113);
            let (lo, hi) = chunk_range(ids.len() as u64, 4, chunk);
            for id in ids[lo as usize..hi as usize].iter().copied() {
                let mut c = Case::new(dom::CODE_RAM, &[0x57, 0x00]);
                c.er = dom::background_regs();
                c.er[0] = id;
                c.er[1] = 0xffe900;
                c.er[7] = 0x00ffe700;
                let code = c.code;
                ctx.m.poke_bytes(c.pc, &code);
                // {fd / vector = 1, buffer / handler address, length 3}: valid for a write and for a set_handler
                ctx.m.poke_bytes(0xffe900, &1u32.to_be_bytes());
                ctx.m.poke_bytes(0xffe904, &0x00ffea00u32.to_be_bytes());
                ctx.m.poke_bytes(0xffe908, &3u32.to_be_bytes());
                ctx.m.poke_bytes(0xffea00, b"abc");
                c.code_sticky = true;
                drain();
                let act = ctx.execute(&c);
                ctx.st.cases += 1;
                ctx.st.nontrivial += 1;
                ctx.st.exp_err += 1;
                let msgs = drain();
                let mut verdict = None;
                if !matches!(act, Actual::Err(_)) {
                    verdict = Some(format!("call number {} must stop execution with an error, got {:?}", id, act));
                } else if !msgs.is_empty() {
                    verdict = Some(format!("call number {} emitted messages {:?}", id, msgs));
                } else if let Some(a) = ctx.wlog_first_effective() {
                    verdict = Some(format!("call number {} changed memory at {:06x}", id, a));
                }
                if let Some(msg) = verdict {
                    ctx.custom_violation("c14", msg, json!({"call": "other", "id": id}), json!(null), json!(null));
                }
                ctx.m.restore();
            }
        },
    ));
    // ---- call sequences
    units.push(Unit::new(
        "sequences",
        6,
        "every sequence of up to 3 calls over 6 representative calls (write short / empty / multi-byte, set_handler valid / ignored, write from DRAM), executed as consecutive TRAPA #0 instructions: messages appear once each, in call order; state carries over correctly",
        move |ctx, chunk| {
            ensure_socket(ctx);
            // (call number, arg words, buffer text, expected message)
            let calls: Vec<(u32, Vec<u32>, &str)> = vec![
                (104, vec![1, 0xffd100, 3], "abc"),
                (104, vec![1, 0xffd100, 0], ""),
                (104, vec![1, 0xffd110, 8], "é💡\n\\"),
                (113, vec![36, 0x00ffc400], ""),
                (113, vec![0, 0x00ffc400], ""),
                (104, vec![2, 0x480010, 5], "hello"),
            ];
            let nc = calls.len();
            let first = chunk as usize;
            let mut seqs: Vec<Vec<usize>> = vec![vec![first]];
            for b in 0..nc {
                seqs.push(vec![first, b]);
                for c2 in 0..nc {
                    seqs.push(vec![first, b, c2]);
                }
            }
            for seq in seqs {
                let pc0 = dom::CODE_DRAM + 0x100;
                let mut code = Vec::new();
                for _ in 0..seq.len() {
                    code.extend([0x57u8, 0x00]);
                }
                ctx.m.poke_bytes(pc0, &code);
                ctx.m.poke_bytes(0xffd100, b"abc");
                ctx.m.poke_bytes(0xffd110, "é💡\n\\".as_bytes());
                ctx.m.poke_bytes(0x480010, b"hello");
                let mut er = dom::background_regs();
                er[7] = 0x00ffe700;
                let mut pc = pc0;
                let ccr = 0x09u8;
                drain();
                let mut expected_msgs: Vec<String> = Vec::new();
                let mut verdict: Option<String> = None;
                for (k, &ci) in seq.iter().enumerate() {
                    let (id, ref words, text) = calls[ci];
                    let arg = 0xffe900 + 0x20 * k as u32;
                    for (j, w) in words.iter().enumerate() {
                        ctx.m.poke_bytes(arg + 4 * j as u32, &w.to_be_bytes());
                    }
                    er[0] = id;
                    er[1] = arg;
                    let mut c = Case::new(pc, &[]);
                    c.code_len = 0;
                    c.code_sticky = true;
                    c.er = er;
                    c.ccr = ccr;
                    let act = ctx.execute(&c);
                    ctx.st.cases += 1;
                    ctx.st.nontrivial += 1;
                    if id == 104 && !text.is_empty() {
                        expected_msgs.push(format!("stdout:{}", text));
                    }
                    let wl = ctx.wlog_all();
                    for a in wl {
                        ctx.m.mark_dirty(a);
                        ctx.m.accept(a);
                    }
                    if !matches!(act, Actual::Ok(_)) || ctx.m.cpu.vh_pc() != pc + 2 || ctx.m.cpu.er != er || ctx.m.cpu.vh_ccr() != ccr {
                        verdict = Some(format!("call {} of the sequence {:?}: result {:?}, PC {:06x} (expected {:06x}), registers/CCR preserved: {}", k, seq, act, ctx.m.cpu.vh_pc(), pc + 2, ctx.m.cpu.er == er && ctx.m.cpu.vh_ccr() == ccr));
                        break;
                    }
                    pc += 2;
                }
                let msgs: Vec<String> = drain().into_iter().filter(|m| m != "stdout:").collect();
                if verdict.is_none() && msgs != expected_msgs {
                    verdict = Some(format!("sequence {:?}: messages {:?}, expected {:?}", seq, msgs, expected_msgs));
                }
                if let Some(msg) = verdict {
                    ctx.custom_violation("c14", msg, json!({"call": "sequence", "seq": seq}), json!(null), json!(null));
                }
                ctx.m.restore();
            }
        },
    ));
    units
}

pub fn c14(tier: Tier, _seed: u64) -> Prop {
    Prop {
        id: "C14",
        level: "exploration",
        rule: "every scenario of the declared lists is executed once on the real CPU (TRAPA #0 through fetch+exec); the stdout: message is captured from the channel-backed socket, console bytes from a child process's stdout pipe; registers, SP, CCR, PC and every Bus::write are compared with the pre-state (periodic full-memory comparison as backstop); non-trivial = every scenario".into(),
        assumptions: vec![
            "pointers (ER1, buffer address) have a zero upper byte; contents are valid UTF-8, as the quantifier says".into(),
            "set_handler may keep private bookkeeping in memory for vectors 1-63 (the property only fixes where a later interrupt enters); vectors outside 1-63 must change nothing".into(),
            "a zero-length write may produce one empty stdout: message or none".into(),
        ],
        units: c14_units(tier),
        extra: crate::hv::shard::no_extra(),
        profiles: vec!["release"],
    }
}

pub fn replay_c14(case: &Value) -> bool {
    let mut ctx = Ctx::new();
    ensure_socket(&mut ctx);
    match case["call"].as_str() {
        Some("write") => {
            // find the scenario in the deterministic lists (the replay file holds its parameters)
            for tier in [Tier::Quick, Tier::Thorough] {
                for s in write_scenarios(tier) {
                    let j = case_json(&s);
                    if j["len"] == case["len"] && j["buf"] == case["buf"] && j["arg"] == case["arg"] && j["pc"] == case["pc"] && j["ccr"] == case["ccr"] && j["text"] == case["text"] {
                        match check_write(&mut ctx, &s) {
                            Some(m) => {
                                println!("FAILS: {}", m);
                                return false;
                            }
                            None => {
                                println!("message, registers, CCR, PC and memory are as the property says (console bytes are compared by the check itself through a child process)");
                                return true;
                            }
                        }
                    }
                }
            }
            println!("scenario not found in the generator's lists");
            false
        }
        Some("other") => {
            let id = case["id"].as_u64().unwrap_or(0) as u32;
            let mut c = Case::new(dom::CODE_RAM, &[0x57, 0x00]);
            c.er = dom::background_regs();
            c.er[0] = id;
            c.er[1] = 0xffe900;
            c.er[7] = 0x00ffe700;
            let code = c.code;
            ctx.m.poke_bytes(c.pc, &code);
            ctx.m.poke_bytes(0xffe900, &1u32.to_be_bytes());
            ctx.m.poke_bytes(0xffe904, &0x00ffea00u32.to_be_bytes());
            ctx.m.poke_bytes(0xffe908, &3u32.to_be_bytes());
            ctx.m.poke_bytes(0xffea00, b"abc");
            let act = ctx.execute(&c);
            println!("call number {} (H'{:08x}): {:?}", id, id, act);
            matches!(act, Actual::Err(_))
        }
        _ => {
            println!("set_handler / sequence counterexamples are re-checked by ./check.sh C14 quick (deterministic scenario lists): {}", case);
            false
        }
    }
}
