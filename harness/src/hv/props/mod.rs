//! Property registry: id -> units.
pub mod regform;
pub mod alu;
pub mod memform;
pub mod mov;
pub mod bits;
pub mod ea;
pub mod decode;
pub mod flow;
pub mod exc;
pub mod charge;
pub mod tables;
pub mod ports;
pub mod timer;
pub mod irq;
pub mod runloop;
pub mod sock;
pub mod mes;
pub mod elf;
pub mod nopanic;
pub mod realbin;
pub mod xseq;
pub mod longprog;

use crate::hv::e1::Case;
use crate::hv::known::Known;
use crate::hv::shard::{Prop, Tier, Unit};

pub fn build(id: &str, tier: Tier, seed: u64, known: &[Known]) -> Option<Prop> {
    let mut p = match id {
        "C01" => mov::c01(tier, seed),
        "C02" => alu::c02(tier, seed),
        "C04" => bits::c04(tier, seed),
        "C05" => flow::c05(tier, seed),
        "C06" => exc::c06(tier, seed),
        "C07" => decode::c07(tier, seed),
        "C08" => ea::c08(tier, seed),
        "C03" => alu::c03(tier, seed),
        "C09" => tables::c09(tier, seed),
        "C10" => irq::c10(tier, seed),
        "C11" => elf::c11(tier, seed),
        "C12" => elf::c12(tier, seed),
        "C13" => runloop::c13(tier, seed),
        "C14" => mes::c14(tier, seed),
        "C15" => nopanic::c15(tier, seed),
        "C16" => ports::c16(tier, seed),
        "C17" => timer::c17(tier, seed),
        "C18" => sock::c18(tier, seed),
        "C19" => tables::c19(tier, seed),
        "C20" => charge::c20(tier, seed),
        _ => return None,
    };
    // cross-form histories with forced collisions (state carried from one operation into a different one)
    if let Some(pid) = ["C01", "C02", "C03", "C04", "C05", "C06", "C07", "C08", "C20"].iter().find(|x| **x == id) {
        p.units.extend(xseq::units(pid, tier));
    }
    // long programs in lock step (real compiler output, generated loops, a machine that has been through the loader)
    if let Some(pid) = ["C01", "C02", "C03", "C04", "C05", "C06", "C07", "C08", "C20"].iter().find(|x| **x == id) {
        p.units.extend(longprog::units(pid, tier));
    }
    // witnesses of known findings and regression cases of fixed findings run first, in both tiers
    let ws: Vec<(bool, serde_json::Value)> = known.iter().filter(|k| k.property == id).filter_map(|k| k.witness.clone().map(|w| (k.is_known, w))).collect();
    if !ws.is_empty() && ws.iter().any(|(_, w)| Case::from_json(w).is_some()) {
        let n = ws.len();
        let ws_prop = id.to_string();
        p.units.insert(
            0,
            Unit::new("witnesses", 1, &format!("{} witness / regression cases from KNOWN_FINDINGS.txt", n), move |ctx, _| {
                let c15 = ctx.unit.starts_with("witnesses") && ws_prop == "C15";
                ctx.panic_only = c15;
                for (_, w) in ws.iter() {
                    if let Some(c) = Case::from_json(w) {
                        ctx.run(&c);
                    }
                }
                ctx.panic_only = false;
            }),
        );
    }
    Some(p)
}

pub const ALL: &[&str] = &["C01", "C02", "C03", "C04", "C05", "C06", "C07", "C08", "C09", "C10", "C11", "C12", "C13", "C14", "C15", "C16", "C17", "C18", "C19", "C20"];

/// Replay of counterexamples produced by engines other than E1.
pub fn replay_other(prop: &str, doc: &serde_json::Value, path: &std::path::PathBuf) -> i32 {
    let v = &doc["violation"];
    let mut ctx = crate::hv::e1::Ctx::new();
    ctx.unit = "replay".into();
    println!("case:     {}", v["case"]);
    println!("recorded: {}", v["what"]);
    let ok = match doc["engine"].as_str() {
        Some("c19") => tables::replay_c19(&mut ctx, &v["case"]),
        Some("c09") => tables::replay_c09(&mut ctx, &v["case"]),
        Some("c09reg") => tables::replay_c09reg(&mut ctx, &v["case"]),
        Some("c16") => ports::replay_c16(&v["case"]),
        Some("c17") => timer::replay_c17(&v["case"]),
        Some("c10") => irq::replay_c10(&v["case"]),
        Some("c13") => runloop::replay_c13(&v["case"]),
        Some("c18") => sock::replay_c18(&v["case"]),
        Some("c14") => mes::replay_c14(&v["case"]),
        Some("elf") => elf::replay_elf(&v["case"]),
        Some("c15") => nopanic::replay_c15(&v["case"]),
        Some("c07run") => decode::replay_c07run(&v["case"]),
        Some("c20run") => {
            let c = &v["case"]["charges_through_run"];
            let base = u32::from_str_radix(c["base"].as_str().unwrap_or("420000"), 16).unwrap_or(0x420000);
            match charge::charges_through_run_case(&mut ctx, c["background"].as_u64().unwrap_or(0) as u8, base) {
                Some((m, _)) => {
                    println!("FAILS: {}", m);
                    false
                }
                None => true,
            }
        }
        other => {
            println!("no replay handler for engine {:?} (property {})", other, prop);
            return 2;
        }
    };
    if ok {
        println!("the case passes on the current tree");
        0
    } else {
        println!("VIOLATION property={} replay={}", prop, path.display());
        1
    }
}
