//! E3 — total functions over complete domains: C19 (bus-cycle costs) and C09 (address map, aliasing, histories).
use crate::cpu::StateType;
use crate::hv::dom;
use crate::hv::e1::{Act, Case, Ctx, Next, StepObs};
use crate::hv::isa::Fields;
use crate::hv::mach::{self, pristine, ABWCR, ASTCR, DRCRA, WCRH, WCRL};
use crate::hv::sem::{self, mapped};
use crate::hv::shard::{chunk_range, Prop, Tier, Unit};
use serde_json::{json, Value};

// ------------------------------------------------------------------------------------------------
// C19
// ------------------------------------------------------------------------------------------------

const KINDS: [char; 6] = ['I', 'J', 'K', 'L', 'M', 'N'];

fn st_of(k: char) -> StateType {
    match k {
        'I' => StateType::I,
        'J' => StateType::J,
        'K' => StateType::K,
        'L' => StateType::L,
        'M' => StateType::M,
        _ => StateType::N,
    }
}

#[derive(Clone, Copy, Debug)]
struct BusRegs {
    abwcr: u8,
    astcr: u8,
    wcrh: u8,
    wcrl: u8,
    drcra: u8,
}

/// Closed form of property C19 (literal transcription of the statement).
fn ref_cost(r: &BusRegs, kind: char, n: u32, addr: u32) -> Option<u32> {
    if kind == 'N' {
        // an internal operation has no address: always 1 per cycle
        return Some(n);
    }
    if addr > 0xffffff {
        return None;
    }
    if (0xffbf20..=0xffff1f).contains(&addr) {
        return Some(2 * n);
    }
    let area = (addr >> 21) as u8;
    let eight_bit = (r.abwcr >> area) & 1 == 1;
    let three_state = (r.astcr >> area) & 1 == 1;
    let w = if area < 4 { (r.wcrl >> (2 * area)) & 3 } else { (r.wcrh >> (2 * (area - 4))) & 3 } as u32;
    let sel = r.drcra >> 5;
    // DRAM space: area 2 when the select field is >= 1; areas 3-5 are only exercised with select 0/1 (never DRAM)
    let dram = match area {
        2 => sel >= 1,
        3 => sel >= 2,
        4 => sel >= 4,
        5 => sel >= 5,
        _ => false,
    };
    let per_access = if dram {
        4 + w
    } else if three_state {
        3 + w
    } else {
        2
    };
    let accesses = if eight_bit && kind != 'L' { 2 } else { 1 };
    Some(n * per_access * accesses)
}

/// Closed-form cost of one cycle under the settings currently stored in the first register block.
pub fn closed_cost(io1: &[u8], kind: char, addr: u32) -> Option<u32> {
    let g = |a: u32| io1[(a - mach::IO1_LO) as usize];
    let r = BusRegs { abwcr: g(ABWCR), astcr: g(ASTCR), wcrh: g(WCRH), wcrl: g(WCRL), drcra: g(DRCRA) };
    ref_cost(&r, kind, 1, addr)
}

/// The settings are written the way a guest (and `init_registers`) writes them: through `Bus::write`,
/// and only the registers whose value changes, so that successive evaluations form a history of register
/// writes (a stale cache of decoded settings would show).
fn set_regs(ctx: &mut Ctx, r: &BusRegs) {
    for (a, v) in [(ABWCR, r.abwcr), (ASTCR, r.astcr), (WCRH, r.wcrh), (WCRL, r.wcrl), (DRCRA, r.drcra)] {
        if ctx.m.cpu.bus.io_registrs1[(a - mach::IO1_LO) as usize] != v {
            let _ = ctx.m.cpu.bus.write(a, v);
        }
    }
}

fn restore_regs(ctx: &mut Ctx) {
    for a in [ABWCR, ASTCR, WCRH, WCRL, DRCRA] {
        let _ = ctx.m.cpu.bus.write(a, pristine(a));
    }
}

thread_local! {
    /// register writes performed since the reset settings (unit setting-histories): recorded with a counterexample
    static C19_HISTORY: std::cell::RefCell<Vec<(u32, u8)>> = std::cell::RefCell::new(Vec::new());
}

fn c19_case_json(r: &BusRegs, kind: char, n: u32, addr: u32) -> Value {
    let hist: Vec<String> = C19_HISTORY.with(|h| h.borrow().iter().map(|(a, v)| format!("{:06x}={:02x}", a, v)).collect());
    if !hist.is_empty() {
        return json!({"abwcr": r.abwcr, "astcr": r.astcr, "wcrh": r.wcrh, "wcrl": r.wcrl, "drcra": r.drcra, "kind": kind.to_string(), "count": n, "addr": format!("{:x}", addr), "history": hist});
    }
    json!({"abwcr": r.abwcr, "astcr": r.astcr, "wcrh": r.wcrh, "wcrl": r.wcrl, "drcra": r.drcra, "kind": kind.to_string(), "count": n, "addr": format!("{:x}", addr)})
}

fn c19_eval(ctx: &mut Ctx, r: &BusRegs, kind: char, n: u32, addr: u32) -> bool {
    set_regs(ctx, r);
    c19_eval_current(ctx, r, kind, n, addr)
}

/// Same, the registers already hold `r` (written by the caller as a history of Bus::write calls).
fn c19_eval_current(ctx: &mut Ctx, r: &BusRegs, kind: char, n: u32, addr: u32) -> bool {
    let got = ctx.m.cpu.calc_state_with_addr(st_of(kind), n as u8, addr).ok().map(|x| x as u32);
    let exp = ref_cost(r, kind, n, addr);
    if addr > 0xffffff && kind != 'N' {
        // outside the 24-bit space the statement says nothing: counted, not compared
        if !ctx.frozen {
            ctx.st.cases += 1;
            ctx.st.exp_any += 1;
        }
        return true;
    }
    if !ctx.frozen {
        ctx.st.cases += 1;
        ctx.st.nontrivial += 1;
        match exp {
            Some(_) => ctx.st.exp_ok += 1,
            None => ctx.st.exp_err += 1,
        }
        let h = (got.unwrap_or(0xfff) as usize * 31 + (addr >> 21) as usize * 7 + kind as usize) & 0xffff;
        ctx.st.outcome_bits[h / 64] |= 1 << (h % 64);
    }
    if got != exp {
        ctx.custom_violation("c19", format!("cost of {} x{} at {:06x}: expected {:?}, got {:?}", kind, n, addr, exp, got), c19_case_json(r, kind, n, addr), json!(exp), json!(got));
        return false;
    }
    true
}

fn area_addrs(area: u32) -> Vec<u32> {
    let lo = area << 21;
    let hi = lo + 0x1fffff;
    let mut v = vec![lo, lo + 1, hi, hi - 1, lo + 0x100000, lo + 0x0fffff];
    if area == 7 {
        // around the on-chip RAM edges (I/O register ranges excluded as the property says)
        v = vec![lo, lo + 1, lo + 0x100000, 0xfedfff, 0xfee100, 0xffbf1f, 0xffbf1e];
    }
    v
}

fn c19_units(tier: Tier) -> Vec<Unit> {
    let mut units = Vec::new();
    for area in 0..8u32 {
        let sels: Vec<u8> = if (3..=5).contains(&area) { vec![0, 1] } else { (0..8).collect() };
        let dom = format!(
            "area {}: bus width x access states x 4 wait values x DRAM select {:?} x 6 kinds x counts 1-5 x {} addresses (both ends, middle) x other-bit backgrounds {{00, ff, 55, aa, each other area's field alone}} (complete per-area setting space)",
            area,
            sels,
            area_addrs(area).len()
        );
        units.push(Unit::new(&format!("area{}", area), 4, &dom, move |ctx, chunk| {
            // backgrounds for the bits that do not belong to the area under test
            let mut bgs: Vec<BusRegs> = Vec::new();
            for p in [0x00u8, 0xff, 0x55, 0xaa] {
                bgs.push(BusRegs { abwcr: p, astcr: p, wcrh: p, wcrl: p, drcra: p & 0x1f });
            }
            for other in 0..8u32 {
                if other == area {
                    continue;
                }
                let mut b = BusRegs { abwcr: 1 << other, astcr: 1 << other, wcrh: 0, wcrl: 0, drcra: 0 };
                if other < 4 {
                    b.wcrl = 3 << (2 * other);
                } else {
                    b.wcrh = 3 << (2 * (other - 4));
                }
                bgs.push(b);
            }
            let w = chunk as u8; // wait value handled by this chunk
            for bw in 0..2u8 {
                for ast in 0..2u8 {
                    for &sel in sels.iter() {
                        for bg in bgs.iter() {
                            let mut r = *bg;
                            r.abwcr = (r.abwcr & !(1 << area)) | (bw << area);
                            r.astcr = (r.astcr & !(1 << area)) | (ast << area);
                            if area < 4 {
                                r.wcrl = (r.wcrl & !(3 << (2 * area))) | (w << (2 * area));
                            } else {
                                r.wcrh = (r.wcrh & !(3 << (2 * (area - 4)))) | (w << (2 * (area - 4)));
                            }
                            r.drcra = (r.drcra & 0x1f) | (sel << 5);
                            for &addr in area_addrs(area).iter() {
                                for &k in KINDS.iter() {
                                    for n in 1..=5u32 {
                                        c19_eval(ctx, &r, k, n, addr);
                                        if ctx.stop {
                                            restore_regs(ctx);
                                            return;
                                        }
                                    }
                                }
                            }
                        }
                    }
                }
            }
            restore_regs(ctx);
            ctx.sample(json!({"abwcr": 0xff, "astcr": 0xfb, "wcrl": 0xcf, "drcra": 0xe0, "kind": "M", "count": 2, "addr": format!("{:x}", area << 21)}));
        }));
    }
    // ---- histories of register writes: a cost must depend on the *current* settings only
    units.push(Unit::new(
        "setting-histories",
        30,
        "every history of <= 3 single-register writes over {ABWCR, ASTCR, WCRH, WCRL, DRCRA} x 6 values each (00, ff, 55, aa, the reset value, a single field) through Bus::write, starting from the reset settings; after every write the cost of 3 cycle kinds x 2 counts at one address of each of the 8 areas, of on-chip RAM and of an I/O register address is compared with the closed form for the settings now in force (30 + 900 + 27,000 histories)",
        move |ctx, chunk| {
            let regs = [ABWCR, ASTCR, WCRH, WCRL, DRCRA];
            let vals: [[u8; 6]; 5] = [[0x00, 0xff, 0x55, 0xaa, 0xff, 0x04], [0x00, 0xff, 0x55, 0xaa, 0xfb, 0x04], [0x00, 0xff, 0x55, 0xaa, 0xff, 0x30], [0x00, 0xff, 0x55, 0xaa, 0xcf, 0x30], [0x00, 0xe0, 0x40, 0xa0, 0x20, 0x80]];
            let probes: Vec<u32> = (0..8u32).map(|a| (a << 21) + 0x1234).chain([0xffe000u32, 0xffc000]).collect();
            let writes: Vec<(usize, u8)> = (0..5).flat_map(|r| (0..6).map(move |k| (r, k))).map(|(r, k)| (r, vals[r][k])).collect();
            let eval_all = |ctx: &mut Ctx, r: &BusRegs| -> bool {
                for &addr in probes.iter() {
                    for &k in &['J', 'L', 'M'] {
                        for n in [1u32, 3] {
                            if !c19_eval_current(ctx, r, k, n, addr) {
                                return false;
                            }
                        }
                    }
                }
                true
            };
            let apply = |ctx: &mut Ctx, r: &mut BusRegs, w: (usize, u8)| {
                let _ = ctx.m.cpu.bus.write(regs[w.0], w.1);
                C19_HISTORY.with(|h| h.borrow_mut().push((regs[w.0], w.1)));
                match w.0 {
                    0 => r.abwcr = w.1,
                    1 => r.astcr = w.1,
                    2 => r.wcrh = w.1,
                    3 => r.wcrl = w.1,
                    _ => r.drcra = w.1,
                }
            };
            let w1 = writes[chunk as usize];
            let reset = BusRegs { abwcr: 0xff, astcr: 0xfb, wcrh: 0xff, wcrl: 0xcf, drcra: 0xe0 };
            let mut seqs: Vec<Vec<(usize, u8)>> = vec![vec![w1]];
            for &w2 in writes.iter() {
                seqs.push(vec![w1, w2]);
                for &w3 in writes.iter() {
                    seqs.push(vec![w1, w2, w3]);
                }
            }
            for seq in seqs {
                restore_regs(ctx);
                C19_HISTORY.with(|h| h.borrow_mut().clear());
                let mut r = reset;
                let mut ok = eval_all(ctx, &r);
                for &w in seq.iter() {
                    if !ok {
                        break;
                    }
                    apply(ctx, &mut r, w);
                    ok = eval_all(ctx, &r);
                }
                if ctx.stop {
                    break;
                }
            }
            C19_HISTORY.with(|h| h.borrow_mut().clear());
            restore_regs(ctx);
        },
    ));
    // ---- nothing but the kind and the area's bus settings: other registers, pin levels and the state count are inert
    units.push(Unit::new(
        "other-state-independence",
        16,
        "for each of 16 uniform background values written (through Bus::write) into every I/O register that is neither a bus-controller nor a port nor a timer register x external pin levels of all ports {00, ff} x port directions {all inputs, all outputs} x the state count in {every value 0-8192, 2^16, 2^20 - 1 .. 2^20 + 3, 2^21, 2^24 + 1, 2^32 + 1}: the cost of a word cycle at one address of every area and of on-chip RAM (state counts above 8192: 3 kinds x 3 settings) equals the closed form",
        move |ctx, chunk| {
            let b = crate::hv::dom::K16[chunk as usize];
            let regs: Vec<u32> = (mach::IO1_LO..=mach::IO1_HI).chain(mach::IO2_LO..=mach::IO2_HI).filter(|a| ![ABWCR, ASTCR, WCRH, WCRL, DRCRA].contains(a) && !sem::is_port_reg(*a) && !sem::is_timer_reg(*a)).collect();
            for &a in regs.iter() {
                let _ = ctx.m.cpu.bus.write(a, b);
            }
            let probes: Vec<u32> = (0..8u32).map(|a| (a << 21) + 0x1234).chain([0xffe000u32]).collect();
            let settings = [
                BusRegs { abwcr: 0xff, astcr: 0xfb, wcrh: 0xff, wcrl: 0xcf, drcra: 0xe0 },
                BusRegs { abwcr: 0x55, astcr: 0xff, wcrh: 0x1b, wcrl: 0xe4, drcra: 0x20 },
                BusRegs { abwcr: 0x00, astcr: 0xaa, wcrh: 0xe4, wcrl: 0x1b, drcra: 0x00 },
            ];
            let big: [u64; 10] = [1 << 16, (1 << 20) - 1, 1 << 20, (1 << 20) + 1, (1 << 20) + 2, (1 << 20) + 3, 1 << 21, (1 << 24) + 1, (1u64 << 32) + 1, (1u64 << 32) + (1 << 20)];
            'outer: for pins in [0x00u8, 0xff] {
                for ddr in [0x00u8, 0xff] {
                    for p in 1..=11u8 {
                        let _ = ctx.m.cpu.bus.write(0xfee000 + p as u32 - 1, ddr);
                        ctx.m.cpu.bus.write_port(p, pins);
                    }
                    for (si, r) in settings.iter().enumerate() {
                        set_regs(ctx, r);
                        let counts: Vec<u64> = if si == 0 { (0..=8192u64).chain(big.iter().copied()).collect() } else { big.to_vec() };
                        for s in counts {
                            ctx.m.cpu.bus.cpu_state_sum = s as usize;
                            ctx.m.cpu.vh_set_state_sum(s as usize);
                            let kinds: &[char] = if s > 8192 { &['I', 'L', 'M'] } else { &['M'] };
                            for &addr in probes.iter() {
                                for &k in kinds {
                                    if !c19_eval_current(ctx, r, k, 1, addr) {
                                        if let Some(v) = ctx.st.violations.last_mut() {
                                            v.case["other_state"] = json!({"background": b, "pins": pins, "ddr": ddr, "state_count": s});
                                        }
                                    }
                                    if ctx.stop {
                                        break 'outer;
                                    }
                                }
                            }
                        }
                    }
                }
            }
            // back to a clean machine
            ctx.m.cpu.bus.cpu_state_sum = 0;
            ctx.m.cpu.vh_set_state_sum(0);
            for p in 1..=11u8 {
                let _ = ctx.m.cpu.bus.write(0xfee000 + p as u32 - 1, 0);
                ctx.m.cpu.bus.write_port(p, 0);
                let _ = ctx.m.cpu.bus.write(0xffffd0 + p as u32 - 1, 0);
            }
            restore_regs(ctx);
            ctx.m.cpu.vh_module_manager_restore(crate::modules::ModuleManager::new());
            ctx.m.fill_pristine();
        },
    ));
    // ---- histories of evaluations: the cost of a cycle must not depend on which address was costed before
    units.push(Unit::new(
        "address-histories",
        8,
        "every ordered pair (a1, a2) over ~120 addresses (both ends of every area, of on-chip RAM and of the register blocks, each +-1, +-H'1F/H'20, +-H'3F/H'40, +-H'FF/H'100, +-H'FFF/H'1000) x kinds {J, L, M} for a1 x kinds {I, L, M} for a2 under 3 settings with pairwise different area costs: the cost of a2 right after a1 was costed equals the closed form",
        move |ctx, chunk| {
            let mut addrs: Vec<u32> = Vec::new();
            let mut edges: Vec<u32> = (0..8u32).flat_map(|a| [a << 21, (a << 21) + 0x1f_ffff]).collect();
            edges.extend([0xffbf20u32, 0xffff1f, 0xfee000, 0xfee0ff, 0xffff20, 0xffffe9, 0x000100]);
            for e in edges {
                for d in [0i64, 1, -1, 0x1f, -0x1f, 0x20, -0x20, 0x3f, -0x3f, 0x40, -0x40, 0xff, -0xff, 0x100, -0x100, 0xfff, -0xfff, 0x1000, -0x1000] {
                    let a = e as i64 + d;
                    if (0..=0xff_ffff).contains(&a) {
                        addrs.push(a as u32);
                    }
                }
            }
            addrs.sort();
            addrs.dedup();
            // on-chip I/O register addresses are excluded by the property (documented TODO)
            addrs.retain(|a| !(0xfee000..=0xfee0ff).contains(a) && !(0xffff20..=0xffffe9).contains(a));
            let settings = [
                BusRegs { abwcr: 0xff, astcr: 0xfb, wcrh: 0xff, wcrl: 0xcf, drcra: 0xe0 },
                BusRegs { abwcr: 0x55, astcr: 0xff, wcrh: 0x1b, wcrl: 0xe4, drcra: 0x20 },
                BusRegs { abwcr: 0x00, astcr: 0xaa, wcrh: 0xe4, wcrl: 0x1b, drcra: 0x00 },
            ];
            for r in settings.iter() {
                set_regs(ctx, r);
                for (i, &a1) in addrs.iter().enumerate() {
                    if i % 8 != chunk as usize {
                        continue;
                    }
                    for &a2 in addrs.iter() {
                        for &k1 in &['J', 'L', 'M'] {
                            for &k2 in &['I', 'L', 'M'] {
                                let _ = ctx.m.cpu.calc_state_with_addr(st_of(k1), 1, a1);
                                if !c19_eval_current(ctx, r, k2, 1, a2) {
                                    // name the predecessor in the counterexample
                                    if let Some(v) = ctx.st.violations.last_mut() {
                                        v.case["costed_before"] = json!({"kind": k1.to_string(), "addr": format!("{:x}", a1)});
                                    }
                                }
                                if ctx.stop {
                                    restore_regs(ctx);
                                    return;
                                }
                            }
                        }
                    }
                }
            }
            restore_regs(ctx);
        },
    ));
    // ---- the whole 24-bit space at a stride: a cost depends on the area (and on being on-chip RAM) only
    units.push(Unit::new(
        "address-stride",
        16,
        "every address k x H'100 and k x H'100 + H'FF of the 24-bit space (2 x 65536 addresses), plus in every area the offsets at which on-chip RAM begins and ends in area 7 (each +-1) x 6 kinds x 3 settings in which on-chip RAM, area 0, area 2 and the other areas all cost differently (I/O register addresses excluded as the property says)",
        move |ctx, chunk| {
            let settings = [
                BusRegs { abwcr: 0xff, astcr: 0xfb, wcrh: 0xff, wcrl: 0xcf, drcra: 0xe0 },
                BusRegs { abwcr: 0x00, astcr: 0xff, wcrh: 0xff, wcrl: 0xff, drcra: 0x00 },
                BusRegs { abwcr: 0x55, astcr: 0xff, wcrh: 0x1b, wcrl: 0xe4, drcra: 0x20 },
            ];
            let (lo, hi) = chunk_range(65536, 16, chunk);
            let mut addrs: Vec<u32> = (lo as u32..hi as u32).flat_map(|k| [k << 8, (k << 8) + 0xff]).collect();
            if chunk == 0 {
                for area in 0..8u32 {
                    for off in [0x1fbf20u32, 0x1fff1f] {
                        for d in [-1i32, 0, 1] {
                            addrs.push(((area << 21) + off).wrapping_add(d as u32));
                        }
                    }
                }
            }
            addrs.retain(|a| !(0xfee000..=0xfee0ff).contains(a) && !(0xffff20..=0xffffff).contains(a));
            for r in settings.iter() {
                set_regs(ctx, r);
                for &a in addrs.iter() {
                    for &k in KINDS.iter() {
                        c19_eval_current(ctx, r, k, 1, a);
                    }
                    if ctx.stop {
                        restore_regs(ctx);
                        return;
                    }
                }
            }
            restore_regs(ctx);
        },
    ));
    // ---- very many register writes between two evaluations (a generation counter that comes round again)
    units.push(Unit::new(
        "many-rewrites",
        6,
        "settings A in force and costed; then exactly N writes into the bus-controller register block (N in {255, 256, 257, 65535, 65536, 65537, 131072}; fillers: ABWCR toggling / WCRH rewritten with its own value / the two unused registers of the block), the last five of which put settings B in force; then every probe is costed again and must follow B - 3 pairs (A, B) x 2 orders",
        move |ctx, chunk| {
            let sets = [
                BusRegs { abwcr: 0xff, astcr: 0xfb, wcrh: 0xff, wcrl: 0xcf, drcra: 0xe0 },
                BusRegs { abwcr: 0x00, astcr: 0x00, wcrh: 0x00, wcrl: 0x00, drcra: 0x00 },
                BusRegs { abwcr: 0x55, astcr: 0xff, wcrh: 0x1b, wcrl: 0xe4, drcra: 0x20 },
                BusRegs { abwcr: 0x00, astcr: 0xaa, wcrh: 0xe4, wcrl: 0x1b, drcra: 0x00 },
            ];
            let pairs = [(0usize, 1usize), (1, 0), (0, 2), (2, 0), (2, 3), (3, 2)];
            let (ia, ib) = pairs[chunk as usize];
            let probes: Vec<u32> = (0..8u32).map(|a| (a << 21) + 0x1234).chain([0xffe000u32]).collect();
            for n in [255u32, 256, 257, 65535, 65536, 65537, 131072] {
                for filler in 0..3 {
                    restore_regs(ctx);
                    let a = sets[ia];
                    let b = sets[ib];
                    set_regs(ctx, &a);
                    for &addr in probes.iter() {
                        for &k in &['J', 'L', 'M'] {
                            c19_eval_current(ctx, &a, k, 1, addr);
                        }
                    }
                    for i in 0..n - 5 {
                        let (reg, v) = match filler {
                            0 => (ABWCR, if i % 2 == 0 { !a.abwcr } else { a.abwcr }),
                            1 => (WCRH, a.wcrh),
                            _ => (0xfee024 + (i % 2), (i & 0xff) as u8),
                        };
                        let _ = ctx.m.cpu.bus.write(reg, v);
                    }
                    for (reg, v) in [(ABWCR, b.abwcr), (ASTCR, b.astcr), (WCRH, b.wcrh), (WCRL, b.wcrl), (DRCRA, b.drcra)] {
                        let _ = ctx.m.cpu.bus.write(reg, v);
                    }
                    for &addr in probes.iter() {
                        for &k in &['J', 'L', 'M'] {
                            if !c19_eval_current(ctx, &b, k, 1, addr) {
                                if let Some(v) = ctx.st.violations.last_mut() {
                                    v.case["many_rewrites"] = json!({"from": [a.abwcr, a.astcr, a.wcrh, a.wcrl, a.drcra], "writes": n, "filler": filler});
                                }
                            }
                        }
                    }
                    let _ = ctx.m.cpu.bus.write(0xfee024, pristine(0xfee024));
                    let _ = ctx.m.cpu.bus.write(0xfee025, pristine(0xfee025));
                    if ctx.stop {
                        restore_regs(ctx);
                        return;
                    }
                }
            }
            restore_regs(ctx);
        },
    ));
    // ---- cycles as instructions issue them: the address that is priced is the address that is accessed
    units.push(Unit::new(
        "loads-into-the-address-register",
        1,
        "MOV.W / MOV.L loads through @ERs, @(d:16,ERs), @(d:24,ERs) whose destination is (part of) the address register: operand in on-chip RAM / DRAM / vector area x loaded value pointing into each of the other regions and into an unmapped area x code in on-chip RAM / DRAM x 6 bus-controller settings; the charge is the form's cycle mix priced with the closed form at the operand's address (not at the address the register holds afterwards)",
        move |ctx, _| {
            ctx.cycles_only = true;
            ctx.closed_form_cost = true;
            let settings = super::charge::SETTINGS;
            let operands = [0xffd040u32, 0x480040, 0x000040];
            let pointers = [0x00ffd080u32, 0x00480080, 0x00000080, 0x00200000, 0x5a300000];
            for (name, long, disp) in [("MOV.L @ERs,ERd", true, 0u32), ("MOV.L @(d:16,ERs),ERd", true, 4), ("MOV.L @(d:24,ERs),ERd", true, 4), ("MOV.W @ERs,Rd", false, 0), ("MOV.W @(d:16,ERs),Rd", false, 4), ("MOV.W @(d:24,ERs),Rd", false, 4)] {
                let row = ctx.isa.row(name);
                for ra in [0u8, 3, 6] {
                    let f = Fields { ra, rd: if long { ra } else { ra + 8 }, data: disp, ..Default::default() };
                    let code = ctx.isa.encode(row, &f);
                    for &pc in &[0xffc000u32, 0x410000] {
                        for &op in operands.iter() {
                            for &ptr in pointers.iter() {
                                for s in settings.iter() {
                                    let mut c = Case::new(pc, &code);
                                    c.er = dom::background_regs();
                                    c.er[ra as usize] = op - disp;
                                    c.er[7] = 0x00ffe700;
                                    if long {
                                        c.patch_l(op, ptr);
                                    } else {
                                        c.patch(op, (ptr >> 24) as u8);
                                        c.patch(op + 1, (ptr >> 16) as u8);
                                    }
                                    c.patch(ABWCR, s[0]);
                                    c.patch(ASTCR, s[1]);
                                    c.patch(WCRH, s[2]);
                                    c.patch(WCRL, s[3]);
                                    c.patch(DRCRA, s[4]);
                                    c.check_cycles = true;
                                    ctx.run(&c);
                                }
                            }
                        }
                    }
                }
            }
            ctx.cycles_only = false;
            ctx.closed_form_cost = false;
        },
    ));
    units.push(Unit::new(
        "operands-at-region-edges-and-stack-cycles",
        1,
        "instruction level, closed-form pricing, 6 bus-controller settings x code in on-chip RAM / DRAM: pre-decrement stores (B/W/L) whose operand is the first byte / word / long of DRAM, on-chip RAM and the vector area; post-increment loads whose operand is the last one of DRAM and the vector area; RTS, RTE, JSR @ERn, BSR d:8, TRAPA #1, PUSH.L, POP.L with the stack in each region other than the one the code runs in: every cycle is priced at the address it accesses",
        move |ctx, _| {
            ctx.cycles_only = true;
            ctx.closed_form_cost = true;
            let settings = super::charge::SETTINGS;
            let set = |c: &mut Case, s: &[u8; 5]| {
                c.patch(ABWCR, s[0]);
                c.patch(ASTCR, s[1]);
                c.patch(WCRH, s[2]);
                c.patch(WCRL, s[3]);
                c.patch(DRCRA, s[4]);
                c.check_cycles = true;
            };
            for &pc in &[0xffc000u32, 0x410000] {
                for s in settings.iter() {
                    // ---- operands at region edges
                    for (name, n) in [("MOV.B Rs,@-ERd", 1u32), ("MOV.W Rs,@-ERd", 2), ("MOV.L ERs,@-ERd", 4)] {
                        let code = ctx.isa.encode(ctx.isa.row(name), &Fields { rs: if n == 1 { 10 } else { 2 }, ra: 1, ..Default::default() });
                        for start in [0x0040_0000u32, 0x00ff_bf20, 0x0000_0000] {
                            let mut c = Case::new(pc, &code);
                            c.er = dom::background_regs();
                            c.er[1] = start + n;
                            c.er[7] = 0x00ffe700;
                            set(&mut c, s);
                            ctx.run(&c);
                        }
                    }
                    for (name, n) in [("MOV.B @ERs+,Rd", 1u32), ("MOV.W @ERs+,Rd", 2), ("MOV.L @ERs+,ERd", 4)] {
                        let code = ctx.isa.encode(ctx.isa.row(name), &Fields { rd: if n == 1 { 10 } else { 2 }, ra: 1, ..Default::default() });
                        for end in [0x0060_0000u32, 0x0000_0100] {
                            let mut c = Case::new(pc, &code);
                            c.er = dom::background_regs();
                            c.er[1] = end - n;
                            c.er[7] = 0x00ffe700;
                            set(&mut c, s);
                            ctx.run(&c);
                        }
                    }
                    // ---- stack cycles: the stack in another region than the code
                    for &sp in &[0x00ff_e000u32, 0x5a4c_0000, 0x0000_00e0] {
                        for (name, f, frame) in [
                            ("RTS", Fields::default(), true),
                            ("RTE", Fields::default(), true),
                            ("JSR @ERn", Fields { ra: 3, ..Default::default() }, false),
                            ("BSR d:8", Fields { data: 0x20, ..Default::default() }, false),
                            ("TRAPA #x:2", Fields { trap: 1, ..Default::default() }, false),
                            ("MOV.L ERs,@-ERd", Fields { rs: 2, ra: 7, ..Default::default() }, false),
                            ("MOV.L @ERs+,ERd", Fields { rd: 2, ra: 7, ..Default::default() }, true),
                        ] {
                            let code = ctx.isa.encode(ctx.isa.row(name), &f);
                            let mut c = Case::new(pc, &code);
                            c.er = dom::background_regs();
                            c.er[3] = 0x0041_0600;
                            c.er[7] = sp;
                            if frame {
                                c.patch_l(sp & 0xffffff, 0x2a41_0600);
                            }
                            if name == "TRAPA #x:2" {
                                c.patch_l(9 * 4, 0x00ff_c500);
                            }
                            set(&mut c, s);
                            ctx.run(&c);
                        }
                    }
                }
            }
            ctx.cycles_only = false;
            ctx.closed_form_cost = false;
        },
    ));
    units.push(Unit::new(
        "onchip-ram-and-rejects",
        1,
        "on-chip RAM first/last/middle under 512 setting combinations x 6 kinds x counts 1-5; internal cycles cost 1 whatever the address (addresses >= 2^24 otherwise left open); calc_state (instruction's own address) for I,J,K,N and its error for L,M",
        move |ctx, _| {
            for abwcr in [0x00u8, 0xff, 0x80, 0x7f] {
                for astcr in [0x00u8, 0xff, 0x80, 0x7f] {
                    for wcrh in [0x00u8, 0xff, 0xc0, 0x40] {
                        for wcrl in [0x00u8, 0xff] {
                            for drcra in [0x00u8, 0xe0, 0x20, 0xa0] {
                                let r = BusRegs { abwcr, astcr, wcrh, wcrl, drcra };
                                for addr in [0xffbf20u32, 0xffbf21, 0xffff1f, 0xffff1e, 0xffdf20, 0x1000000, 0x1000001, 0xffffffff, 0x80000000, 0x40ffbf20] {
                                    for &k in KINDS.iter() {
                                        for n in 1..=5u32 {
                                            c19_eval(ctx, &r, k, n, addr);
                                        }
                                    }
                                }
                                // calc_state uses the address of the instruction being executed
                                for opc in [0xffc000u32, 0x410000, 0x000080] {
                                    set_regs(ctx, &r);
                                    ctx.m.cpu.vh_set_operating_pc(opc);
                                    for &k in KINDS.iter() {
                                        let got = ctx.m.cpu.calc_state(st_of(k), 2).ok().map(|x| x as u32);
                                        let exp = if k == 'L' || k == 'M' { None } else { ref_cost(&r, k, 2, opc) };
                                        ctx.st.cases += 1;
                                        ctx.st.nontrivial += 1;
                                        if got != exp {
                                            ctx.custom_violation("c19", format!("calc_state {} at instruction address {:06x}: expected {:?}, got {:?}", k, opc, exp, got), c19_case_json(&r, k, 2, opc), json!(exp), json!(got));
                                        }
                                    }
                                }
                            }
                        }
                    }
                }
            }
            restore_regs(ctx);
        },
    ));
    if tier == Tier::Thorough {
        for area in [0u32, 2, 7] {
            units.push(Unit::new(&format!("area{}-all-abwcr-astcr", area), 64, "all 65536 (ABWCR, ASTCR) pairs x 4 WCR patterns x 3 DRCRA values x 6 kinds x 2 addresses", move |ctx, chunk| {
                let (lo, hi) = chunk_range(65536, 64, chunk);
                for v in lo as u32..hi as u32 {
                    for wp in [0x00u8, 0xff, 0x1b, 0xe4] {
                        for drcra in [0x00u8, 0x20, 0xe0] {
                            let r = BusRegs { abwcr: (v >> 8) as u8, astcr: v as u8, wcrh: wp, wcrl: wp, drcra };
                            for addr in [area << 21, (area << 21) + 0x0ffffe] {
                                for &k in KINDS.iter() {
                                    c19_eval(ctx, &r, k, 1, addr);
                                }
                            }
                        }
                    }
                }
                restore_regs(ctx);
            }));
        }
    }
    units
}

pub fn c19(tier: Tier, _seed: u64) -> Prop {
    Prop {
        id: "C19",
        level: "exploration",
        rule: "the complete per-area setting space (width x states x waits x DRAM select) x kinds x counts x area ends x other-area backgrounds is enumerated; every evaluation of the real calc_state_with_addr is compared with the closed form transcribed from the property statement; every evaluation is distinct by construction and non-trivial (the cost depends on the settings)".into(),
        assumptions: vec![
            "closed form exactly as the statement gives it; areas 3-5 only with DRAM select 0/1; on-chip I/O register addresses excluded (documented TODO)".into(),
            "bus-controller registers are set by writing the public I/O register array directly (no Bus::write side effects)".into(),
        ],
        units: c19_units(tier),
        extra: crate::hv::shard::no_extra(),
        profiles: vec!["release"],
    }
}

/// replay handler for engine "c19"
pub fn replay_c19(ctx: &mut Ctx, case: &Value) -> bool {
    let g = |k: &str| case[k].as_u64().unwrap_or(0) as u8;
    let r = BusRegs { abwcr: g("abwcr"), astcr: g("astcr"), wcrh: g("wcrh"), wcrl: g("wcrl"), drcra: g("drcra") };
    let kind = case["kind"].as_str().unwrap_or("N").chars().next().unwrap_or('N');
    let n = case["count"].as_u64().unwrap_or(1) as u32;
    let addr = u32::from_str_radix(case["addr"].as_str().unwrap_or("0"), 16).unwrap_or(0);
    if let Some(h) = case["history"].as_array() {
        // the recorded history of register writes, from the reset settings, evaluating the probe after every write
        restore_regs(ctx);
        for e in h {
            if let Some((a, v)) = e.as_str().and_then(|s| s.split_once('=')) {
                let _ = ctx.m.cpu.calc_state_with_addr(st_of(kind), n as u8, addr);
                let _ = ctx.m.cpu.bus.write(u32::from_str_radix(a, 16).unwrap_or(0), u8::from_str_radix(v, 16).unwrap_or(0));
            }
        }
    } else {
        set_regs(ctx, &r);
    }
    if case["many_rewrites"].is_object() {
        // settings A costed, N register writes ending in the recorded settings, then the probe
        let o = &case["many_rewrites"];
        let fa: Vec<u8> = o["from"].as_array().map(|a| a.iter().map(|x| x.as_u64().unwrap_or(0) as u8).collect()).unwrap_or_default();
        if fa.len() == 5 {
            let a = BusRegs { abwcr: fa[0], astcr: fa[1], wcrh: fa[2], wcrl: fa[3], drcra: fa[4] };
            restore_regs(ctx);
            set_regs(ctx, &a);
            for area in 0..8u32 {
                let _ = ctx.m.cpu.calc_state_with_addr(st_of(kind), 1, (area << 21) + 0x1234);
            }
            let nw = o["writes"].as_u64().unwrap_or(5) as u32;
            let filler = o["filler"].as_u64().unwrap_or(0);
            for i in 0..nw.saturating_sub(5) {
                let (reg, v) = match filler {
                    0 => (ABWCR, if i % 2 == 0 { !a.abwcr } else { a.abwcr }),
                    1 => (WCRH, a.wcrh),
                    _ => (0xfee024 + (i % 2), (i & 0xff) as u8),
                };
                let _ = ctx.m.cpu.bus.write(reg, v);
            }
            for (reg, v) in [(ABWCR, r.abwcr), (ASTCR, r.astcr), (WCRH, r.wcrh), (WCRL, r.wcrl), (DRCRA, r.drcra)] {
                let _ = ctx.m.cpu.bus.write(reg, v);
            }
            println!("settings {:02x?} costed, then {} register writes (filler {}) ending in the settings of this case", fa, nw, filler);
        }
    }
    if case["other_state"].is_object() {
        let o = &case["other_state"];
        let b = o["background"].as_u64().unwrap_or(0) as u8;
        let regs: Vec<u32> = (mach::IO1_LO..=mach::IO1_HI).chain(mach::IO2_LO..=mach::IO2_HI).filter(|a| ![ABWCR, ASTCR, WCRH, WCRL, DRCRA].contains(a) && !sem::is_port_reg(*a) && !sem::is_timer_reg(*a)).collect();
        for &a in regs.iter() {
            let _ = ctx.m.cpu.bus.write(a, b);
        }
        for p in 1..=11u8 {
            let _ = ctx.m.cpu.bus.write(0xfee000 + p as u32 - 1, o["ddr"].as_u64().unwrap_or(0) as u8);
            ctx.m.cpu.bus.write_port(p, o["pins"].as_u64().unwrap_or(0) as u8);
        }
        set_regs(ctx, &r);
        let s = o["state_count"].as_u64().unwrap_or(0) as usize;
        ctx.m.cpu.bus.cpu_state_sum = s;
        ctx.m.cpu.vh_set_state_sum(s);
    }
    if let Some(a1) = case["costed_before"]["addr"].as_str() {
        let k1 = case["costed_before"]["kind"].as_str().unwrap_or("J").chars().next().unwrap_or('J');
        let _ = ctx.m.cpu.calc_state_with_addr(st_of(k1), 1, u32::from_str_radix(a1, 16).unwrap_or(0));
    }
    let got = ctx.m.cpu.calc_state_with_addr(st_of(kind), n as u8, addr).ok().map(|x| x as u32);
    let exp = ref_cost(&r, kind, n, addr);
    println!("expected: {:?}\nactual:   {:?}", exp, got);
    got == exp
}

// ------------------------------------------------------------------------------------------------
// C09
// ------------------------------------------------------------------------------------------------

fn plain_storage(a: u32) -> bool {
    mapped(a) && !sem::is_port_reg(a)
}

fn c09_classify_range(ctx: &mut Ctx, lo: u64, hi: u64, step: u64) {
    let mut a = lo;
    while a < hi {
        let addr = a as u32;
        let m = mapped(addr);
        let r = ctx.m.cpu.bus.read(addr);
        if r.is_ok() != m {
            ctx.custom_violation("c09", format!("read {:08x}: accessible must be {}, got {}", addr, m, r.is_ok()), json!({"op": "read", "addr": format!("{:x}", addr)}), json!(m), json!(r.is_ok()));
        } else if m {
            let exp = ctx.m.peek_shadow(addr).unwrap();
            if *r.as_ref().unwrap() != exp {
                ctx.custom_violation("c09", format!("read {:06x}: expected {:02x}, got {:02x}", addr, exp, r.as_ref().unwrap()), json!({"op": "read", "addr": format!("{:x}", addr)}), json!(exp), json!(r.unwrap()));
            }
        }
        if !m || plain_storage(addr) {
            let newv = if m { !pristine(addr) } else { 0xa5 };
            let w = ctx.m.cpu.bus.write(addr, newv);
            if w.is_ok() != m {
                ctx.custom_violation("c09", format!("write {:08x}: accessible must be {}, got {}", addr, m, w.is_ok()), json!({"op": "write", "addr": format!("{:x}", addr)}), json!(m), json!(w.is_ok()));
            }
            if m {
                // write-read round trip through the bus, then put the byte back through the bus as well
                let back = ctx.m.cpu.bus.read(addr).ok();
                if back != Some(newv) {
                    ctx.custom_violation("c09", format!("write-read {:06x}: wrote {:02x}, read {:?}", addr, newv, back), json!({"op": "write-read", "addr": format!("{:x}", addr)}), json!(newv), json!(back));
                }
                let _ = ctx.m.cpu.bus.write(addr, pristine(addr));
            }
        }
        if !ctx.frozen {
            ctx.st.cases += 1;
            ctx.st.nontrivial += 1;
            if m {
                ctx.st.exp_ok += 1;
            } else {
                ctx.st.exp_err += 1;
            }
        }
        if ctx.stop {
            return;
        }
        a += step;
    }
}

/// classification + write-read round trip on a machine whose memory is whatever the loader left (the shadow holds it)
fn c09_classify_loaded(ctx: &mut Ctx, lo: u64, hi: u64, step: u64) {
    let mut a = lo;
    while a < hi {
        let addr = a as u32;
        let m = mapped(addr);
        let r = ctx.m.cpu.bus.read(addr);
        ctx.st.cases += 1;
        ctx.st.nontrivial += 1;
        if r.is_ok() != m {
            ctx.custom_violation("c09", format!("loaded machine: read {:06x}: accessible must be {}, got {}", addr, m, r.is_ok()), json!({"op": "loaded", "addr": format!("{:x}", addr)}), json!(m), json!(r.is_ok()));
        } else if m && plain_storage(addr) && !sem::is_timer_reg(addr) {
            let old = r.unwrap();
            if Some(old) != ctx.m.peek_shadow(addr) {
                ctx.custom_violation("c09", format!("loaded machine: read {:06x} returns {:02x}, the storage byte is {:?}", addr, old, ctx.m.peek_shadow(addr)), json!({"op": "loaded", "addr": format!("{:x}", addr)}), json!(null), json!(null));
            }
            let newv = !old;
            let w = ctx.m.cpu.bus.write(addr, newv);
            let back = ctx.m.cpu.bus.read(addr).ok();
            if w.is_err() || back != Some(newv) {
                ctx.custom_violation("c09", format!("loaded machine: wrote {:02x} to {:06x}, a later read returns {:?}", newv, addr, back), json!({"op": "loaded", "addr": format!("{:x}", addr)}), json!(newv), json!(back));
            }
            let _ = ctx.m.cpu.bus.write(addr, old);
        }
        if ctx.stop {
            return;
        }
        a += step;
    }
}

/// One case of unit system-call-reads; returns the violation text.
pub fn syscall_read_case(ctx: &mut Ctx, arg: u32, buf: u32, len: u32) -> Option<String> {
    let pc = dom::CODE_RAM;
    let mut c = Case::new(pc, &[0x57, 0x00]);
    c.er = dom::background_regs();
    c.er[0] = 104;
    c.er[1] = arg;
    c.er[7] = 0x00ffe700;
    let code = c.code;
    ctx.m.poke_bytes(pc, &code);
    ctx.m.poke_bytes(arg, &1u32.to_be_bytes());
    ctx.m.poke_bytes(arg.wrapping_add(4), &buf.to_be_bytes());
    ctx.m.poke_bytes(arg.wrapping_add(8), &len.to_be_bytes());
    let text: Vec<u8> = (0..len).map(|k| b'a' + (k as u8 % 26)).collect();
    for (k, &b) in text.iter().enumerate() {
        let a = buf.wrapping_add(k as u32);
        if a <= 0xffffff {
            ctx.m.poke(a, b);
        }
    }
    c.code_sticky = true;
    super::mes::drain();
    let act = ctx.execute(&c);
    let msgs = super::mes::drain();
    ctx.st.cases += 1;
    ctx.st.nontrivial += 1;
    let readable = |a: u32, n: u32| {
        (0..n).all(|k| {
            let x = a as u64 + k as u64;
            x <= 0xffffff && mapped(x as u32)
        })
    };
    let ok = readable(arg, 12) && readable(buf, len);
    let mut verdict = None;
    if ok {
        let want = format!("stdout:{}", String::from_utf8_lossy(&text));
        if !matches!(act, crate::hv::e1::Actual::Ok(_)) || msgs != vec![want.clone()] {
            verdict = Some(format!("write of {} accessible bytes at {:06x} (argument block {:06x}): expected the message {:?}, got {:?} / {:?}", len, buf, arg, want, act, msgs));
        }
    } else if !matches!(act, crate::hv::e1::Actual::Err(_)) || !msgs.is_empty() {
        verdict = Some(format!("write of {} bytes at {:x} (argument block {:x}) reads at least one inaccessible address: the read must fail with an access error and nothing may be emitted, got {:?} / {:?}", len, buf, arg, act, msgs));
    }
    ctx.m.restore();
    verdict
}

fn c09_units(tier: Tier) -> Vec<Unit> {
    let mut units = Vec::new();
    // ---- an instruction fetch is a read like any other: it returns what was stored last
    units.push(super::xseq::code_rewrite_unit());
    // ---- reads issued by the system-call gate are CPU reads like any other
    units.push(Unit::new(
        "system-call-reads",
        1,
        "TRAPA #0 write (ER0 = 104) with a text of 1-6 bytes that starts 4 bytes below .. 1 byte above the end of every region (vector area, DRAM, both register blocks), inside every hole, and at aliases of DRAM above 2^24: the call succeeds and emits the text exactly when every byte of it is accessible; otherwise execution stops with an error and nothing is emitted; the same for the argument block itself straddling a region end",
        |ctx, _| {
            super::mes::ensure_socket(ctx);
            let ends: [u32; 4] = [0x000100, 0x600000, 0xfee100, 0xffffea];
            let mut bufs: Vec<u32> = Vec::new();
            for e in ends {
                for d in -4i32..=1 {
                    bufs.push(e.wrapping_add(d as u32));
                }
            }
            bufs.extend([0x200000u32, 0x3fffff, 0x3ffffe, 0xfedfff, 0xffbf1e, 0xffbf1f, 0xfffff0, 0xffffff, 0x0148_0000, 0x0141_0000, 0xff41_0000, 0x015f_fffe, 0x0100_0000]);
            let run_one = |ctx: &mut Ctx, arg: u32, buf: u32, len: u32| {
                if let Some(m) = syscall_read_case(ctx, arg, buf, len) {
                    ctx.custom_violation("c09", m, json!({"op": "syscall_read", "arg": format!("{:x}", arg), "buf": format!("{:x}", buf), "len": len}), json!(null), json!(null));
                }
            };
            for &buf in bufs.iter() {
                for len in 1..=6u32 {
                    run_one(ctx, 0xffe900, buf, len);
                }
            }
            // the argument block itself at the region ends (text in on-chip RAM)
            for e in ends {
                for d in -13i32..=1 {
                    run_one(ctx, e.wrapping_add(d as u32), 0xffea00, 3);
                }
            }
            for arg in [0x200000u32, 0x0141_0000, 0xff41_0000] {
                run_one(ctx, arg, 0xffea00, 3);
            }
        },
    ));
    units.push(Unit::new(
        "classify-2^24",
        256,
        "every address 0 .. 2^24-1: read and write accessibility equals the five ranges of the statement; mapped plain bytes: read returns the image, write-read round trip; a failing write changes nothing (full memory comparison per chunk)",
        |ctx, chunk| {
            let (lo, hi) = chunk_range(1 << 24, 256, chunk);
            c09_classify_range(ctx, lo, hi, 1);
            // the module manager saw register writes (timer control): harmless, no time elapses here
        },
    ));
    if tier == Tier::Thorough {
        units.push(Unit::new("classify-2^32", 4096, "every address 2^24 .. 2^32-1 is rejected for read and write and changes nothing", |ctx, chunk| {
            let (lo, hi) = chunk_range((1u64 << 32) - (1 << 24), 4096, chunk);
            c09_classify_range(ctx, lo + (1 << 24), hi + (1 << 24), 1);
        }));
    } else {
        units.push(Unit::new("classify-above-2^24", 16, "addresses above 2^24: every multiple of 4093 up to 2^32, all 2^k, 2^k +- 1, and aliases a + k*2^24 of every region edge", |ctx, chunk| {
            let (lo, hi) = chunk_range((1u64 << 32) / 4093, 16, chunk);
            for k in lo..hi {
                let a = k * 4093;
                if a >= 1 << 24 {
                    c09_classify_range(ctx, a, a + 1, 1);
                }
            }
            if chunk == 0 {
                for b in 24..32u32 {
                    for d in [-1i64, 0, 1] {
                        let a = (1i64 << b) + d;
                        c09_classify_range(ctx, a as u64, a as u64 + 1, 1);
                    }
                }
                for edge in [0u32, 0xff, 0x400000, 0x5fffff, 0xfee000, 0xfee0ff, 0xffbf20, 0xffff1f, 0xffff20, 0xffffe9] {
                    for k in 1..=255u64 {
                        let a = edge as u64 + (k << 24);
                        c09_classify_range(ctx, a, a + 1, 1);
                    }
                }
                c09_classify_range(ctx, 0xffff_ff00, 0x1_0000_0000, 1);
            }
        }));
    }
    units.push(Unit::new(
        "aliasing",
        1,
        "complete aliasing check: three passes, in pass k every plain storage byte (about 2.1 M) is written through Bus::write with byte k of its own address and then all are read back — any two distinct addresses differ in some pass, so every aliasing pair or dropped write is caught",
        |ctx, _| {
            let regions = [(mach::VEC_LO, mach::VEC_HI), (mach::DRAM_LO, mach::DRAM_HI), (mach::IO1_LO, mach::IO1_HI), (mach::RAM_LO, mach::RAM_HI), (mach::IO2_LO, mach::IO2_HI)];
            for pass in 0..3u32 {
                for (lo, hi) in regions {
                    for a in lo..=hi {
                        if plain_storage(a) {
                            let v = (a >> (8 * pass)) as u8 ^ (0x5a * pass as u8);
                            if ctx.m.cpu.bus.write(a, v).is_err() {
                                ctx.custom_violation("c09", format!("aliasing pass {}: write {:06x} failed", pass, a), json!({"op": "alias", "addr": format!("{:x}", a)}), json!(null), json!(null));
                            }
                        }
                    }
                }
                for (lo, hi) in regions {
                    for a in lo..=hi {
                        if plain_storage(a) {
                            let v = (a >> (8 * pass)) as u8 ^ (0x5a * pass as u8);
                            let got = ctx.m.cpu.bus.read(a).ok();
                            ctx.st.cases += 1;
                            ctx.st.nontrivial += 1;
                            if got != Some(v) {
                                ctx.custom_violation("c09", format!("aliasing pass {}: [{:06x}] reads {:?}, {:02x} was written there last", pass, a, got, v), json!({"op": "alias", "addr": format!("{:x}", a), "pass": pass}), json!(v), json!(got));
                            }
                        }
                    }
                }
            }
            // port registers must not have been disturbed by any of those writes
            for a in (0xfee000u32..=0xfee00a).chain(0xffffd0..=0xffffda) {
                if ctx.m.cpu.bus.read(a).ok() != Some(0) {
                    ctx.custom_violation("c09", format!("port register {:06x} changed although it was never written", a), json!({"op": "alias", "addr": format!("{:x}", a)}), json!(0), json!(ctx.m.cpu.bus.read(a).ok()));
                }
            }
            // back to the pristine image
            ctx.m.fill_pristine();
            ctx.sample(json!({"op": "alias", "passes": 3, "bytes_per_pass": 2114122}));
        },
    ));
    // ---- every value into every I/O register: no register write changes what any other location reads or
    //      where any other location's writes go (control registers that re-map memory would show here)
    {
        let thorough = tier == Tier::Thorough;
        units.push(Unit::new(
            "register-values",
            64,
            "every I/O register address (H'FEE000-H'FEE0FF, H'FFFF20-H'FFFFE9: 458) x every byte value 0-255 written through Bus::write; afterwards every byte of the vector area and of both register blocks, on-chip RAM (quick: both ends, H'FFE000-H'FFE0FF and a stride; thorough: every byte) and DRAM samples are read through Bus::read and must be unchanged, a write-read round trip through 8 probe locations (one per region and per 256-byte alias candidate) must land in exactly that location, then the old register value is written back; port registers are only compared with non-port locations, timer registers with non-timer locations",
            move |ctx, chunk| {
                let regs: Vec<u32> = (mach::IO1_LO..=mach::IO1_HI).chain(mach::IO2_LO..=mach::IO2_HI).collect();
                let (lo, hi) = chunk_range(regs.len() as u64, 64, chunk);
                let probes = regsweep_probes(thorough);
                for i in lo..hi {
                    let a = regs[i as usize];
                    for v in 0..=255u8 {
                        ctx.st.cases += 1;
                        ctx.st.nontrivial += 1;
                        if let Some(msg) = regsweep_case(ctx, a, v, &probes) {
                            ctx.custom_violation("c09reg", msg, json!({"op": "register-value", "addr": format!("{:x}", a), "value": v}), json!(null), json!(null));
                            // put the machine back into a defined state
                            ctx.m.fill_pristine();
                            if ctx.stop {
                                return;
                            }
                        }
                    }
                }
                if ctx.m.full_compare().is_some() {
                    let at = ctx.m.full_compare().unwrap();
                    ctx.custom_violation("c09reg", format!("after the register sweep of this chunk memory differs from the image at {:06x}", at), json!({"op": "register-value", "addr": format!("{:x}", regs[lo as usize]), "value": 0}), json!(null), json!(null));
                    ctx.m.fill_pristine();
                }
            },
        ));
    }
    // ---- every 16-bit value as a word store into every plain word of the two register blocks (the byte sweep above
    //      cannot see a register pair that treats particular *words* specially)
    {
        units.push(Unit::new(
            "register-words",
            64,
            "every even address of both I/O register blocks whose two bytes are plain storage (port and timer registers excluded) x all 65536 word values, stored by MOV.W R0,@aa:24 and read back by MOV.W @aa:24,R1 on the real CPU in lock step with the reference (both bytes hold the big-endian halves, nothing else changes); plus MOV.L stores of 256 long values whose halves are the classic key bytes (a5, 5a, 96, 69, ...) at every long-aligned register address",
            move |ctx, chunk| {
                let words: Vec<u32> = (mach::IO1_LO..=mach::IO1_HI).chain(mach::IO2_LO..=mach::IO2_HI).filter(|a| a % 2 == 0 && (0..2).all(|k| plain_storage(a + k) && !sem::is_timer_reg(a + k) && mapped(a + k))).collect();
                let st = ctx.isa.row("MOV.W Rs,@aa:24");
                let ld = ctx.isa.row("MOV.W @aa:24,Rd");
                let stl = ctx.isa.row("MOV.L ERs,@aa:24");
                for (i, &a) in words.iter().enumerate() {
                    if i % 64 != chunk as usize {
                        continue;
                    }
                    let code_st = ctx.isa.encode(st, &crate::hv::isa::Fields { rs: 0, data: a, ..Default::default() });
                    let code_ld = ctx.isa.encode(ld, &crate::hv::isa::Fields { rd: 1, data: a, ..Default::default() });
                    let mut c = Case::new(crate::hv::dom::CODE_RAM, &code_st);
                    let mut c2 = Case::new(crate::hv::dom::CODE_RAM + 0x40, &code_ld);
                    c.er = crate::hv::dom::background_regs();
                    c2.er = c.er;
                    for v in 0..65536u32 {
                        c.er[0] = (c.er[0] & 0xffff_0000) | v;
                        c.ccr = v as u8;
                        ctx.run(&c);
                        // read path: the same word preset in memory
                        c2.patches = crate::hv::sem::Small::new();
                        c2.patch(a, (v >> 8) as u8);
                        c2.patch(a + 1, v as u8);
                        ctx.run(&c2);
                        if ctx.stop {
                            return;
                        }
                    }
                    if a % 4 == 0 && (0..4).all(|k| plain_storage(a + k) && !sem::is_timer_reg(a + k) && mapped(a + k)) {
                        let code = ctx.isa.encode(stl, &crate::hv::isa::Fields { rs: 0, data: a, ..Default::default() });
                        let mut cl = Case::new(crate::hv::dom::CODE_RAM + 0x80, &code);
                        cl.er = crate::hv::dom::background_regs();
                        let keys = [0xa5u32, 0x5a, 0x96, 0x69, 0xc3, 0x3c, 0xff, 0x00, 0x80, 0x01, 0x55, 0xaa, 0x12, 0xe7, 0x7e, 0xb4];
                        for &h in keys.iter() {
                            for &l in keys.iter() {
                                cl.er[0] = (h << 24) | (0x11 << 16) | (l << 8) | 0x22;
                                ctx.run(&cl);
                                cl.er[0] = (0x33 << 24) | (h << 16) | (0x44 << 8) | l;
                                ctx.run(&cl);
                            }
                        }
                    }
                }
            },
        ));
    }
    // ---- a machine that has been through the real ELF loader (read+execute-only and read+write segments): storage
    //      stays storage - the classification and the write-read round trip hold inside and around the loaded image
    units.push(Unit::new(
        "loaded-machine",
        8,
        "after the real elf::load of an image with a read+execute-only PT_LOAD (H'416900-H'4C0FFF) and a read+write one behind it: classification and write-read round trip through the bus for every 97th byte of DRAM, every byte within 64 of the load base, of the segment ends and of the DRAM ends, and every byte of on-chip RAM, the vector area and both register blocks",
        move |ctx, chunk| {
            if !super::longprog::load_loaded_machine(ctx, chunk) {
                return;
            }
            let mut ranges: Vec<(u64, u64, u64)> = vec![(mach::DRAM_LO as u64, mach::DRAM_HI as u64 + 1, 97)];
            for e in [0x416900u64, 0x4c1000, 0x4c2000, 0x4c2008, 0x400000, 0x600000, 0x480000, 0x420000] {
                ranges.push((e - 64, e + 64, 1));
            }
            ranges.push((mach::RAM_LO as u64, mach::RAM_HI as u64 + 1, 1));
            ranges.push((0, 0x100, 1));
            ranges.push((mach::IO1_LO as u64, mach::IO1_HI as u64 + 1, 1));
            ranges.push((mach::IO2_LO as u64, mach::IO2_HI as u64 + 1, 1));
            for (i, (lo, hi, step)) in ranges.into_iter().enumerate() {
                if i as u64 % 8 == chunk {
                    c09_classify_loaded(ctx, lo, hi.min(1 << 24), step);
                }
            }
            ctx.m = crate::hv::mach::Mach::new();
        },
    ));
    // ---- histories of B/W/L writes and reads through the CPU's absolute-address path
    let edges: [u32; 10] = [0x000000, 0x0000ff, 0x400000, 0x5fffff, 0xfee000, 0xfee0ff, 0xffbf20, 0xffff1f, 0xffff20, 0xffffe9];
    let maxlen = if tier == Tier::Thorough { 4 } else { 3 };
    for (wi, &edge) in edges.iter().enumerate() {
        // window of byte addresses around the edge (modulo 2^24 so that 0 - k wraps to the top of the space)
        let mut window: Vec<u32> = (-4i32..=4).map(|d| (edge as i64 + d as i64).rem_euclid(1 << 24) as u32).collect();
        window.retain(|a| !(0..4).any(|k| sem::is_port_reg(a.wrapping_add(k))));
        let nops = window.len() * 6;
        let total: u64 = (1..=maxlen).map(|l| (nops as u64).pow(l as u32)).sum();
        let chunks = (total / 20000).clamp(1, 256);
        let dom = format!("every history of length 1..{} over {{write,read}} x {{B,W,L}} x {} addresses within +-4 of region edge H'{:06x} = {} histories, executed as MOV @aa:24 instructions", maxlen, window.len(), edge, total);
        units.push(Unit::new(&format!("histories/edge{}", wi), chunks, &dom, move |ctx, chunk| {
            let (lo, hi) = chunk_range(total, chunks, chunk);
            for idx in lo..hi {
                // decode idx into (length, op sequence)
                let mut rest = idx;
                let mut len = 1usize;
                loop {
                    let c = (nops as u64).pow(len as u32);
                    if rest < c {
                        break;
                    }
                    rest -= c;
                    len += 1;
                }
                let mut code: Vec<u8> = Vec::new();
                let mut regs = dom::background_regs();
                for k in 0..len {
                    let op = (rest % nops as u64) as usize;
                    rest /= nops as u64;
                    let addr = window[op / 6];
                    let kind = op % 6;
                    let (name, reg): (&str, u8) = match kind {
                        0 => ("MOV.B Rs,@aa:24", 8 + k as u8),
                        1 => ("MOV.W Rs,@aa:24", k as u8),
                        2 => ("MOV.L ERs,@aa:24", k as u8),
                        3 => ("MOV.B @aa:24,Rd", 12 + k as u8 % 4),
                        4 => ("MOV.W @aa:24,Rd", 4 + k as u8 % 4),
                        _ => ("MOV.L @aa:24,ERd", 4 + k as u8 % 4),
                    };
                    // each write uses a value that names its position in the history
                    regs[k] = 0x1111_1111u32.wrapping_mul(k as u32 + 1) ^ 0xa0b0_c0d0;
                    let f = Fields { rs: reg, rd: reg, data: addr, ..Default::default() };
                    code.extend(ctx.isa.encode(ctx.isa.row(name), &f));
                }
                let mut init = Case::new(dom::CODE_DRAM + 0x4000, &[]);
                init.code_len = 0;
                let end = init.pc + code.len() as u32;
                init.image = vec![(init.pc, code)];
                init.er = regs;
                ctx.strict_odd = true;
                ctx.run_seq(&init, Act::Step, len, &mut |o: &StepObs| if o.post_pc == end { Next::Stop } else { Next::Continue(Act::Step) });
                ctx.strict_odd = false;
            }
        }));
    }
    units
}

pub fn c09(tier: Tier, _seed: u64) -> Prop {
    Prop {
        id: "C09",
        level: "model_checking",
        rule: "classification: every address of the declared range is one evaluation (read + write through the real Bus) against the five literal ranges of the statement; aliasing: complete three-pass own-address test over all plain storage; histories: every sequence up to the length bound over the declared operation alphabet is executed on the real CPU in lock step with the reference (W/L = big-endian composition of consecutive bytes, a failing access leaves everything outside the operand unchanged); non-trivial = every evaluation (each decides accessibility of a distinct address or is a distinct history step)".into(),
        assumptions: vec![
            "the five accessible ranges are literal constants from the property text".into(),
            "port DDR/DR registers are excluded from write-read and aliasing (peripheral side effects, C16)".into(),
            "history bound: length <= 3 (quick) / <= 4 (thorough), all operations of a history within +-4 of one region edge; W/L accesses at odd addresses are checked as the big-endian composition of the consecutive bytes A..A+n-1, as the statement says".into(),
            "quick tier classifies addresses above 2^24 on a covering set (strided, powers of two, aliases of region edges); thorough classifies all 2^32".into(),
        ],
        units: c09_units(tier),
        extra: Box::new(|m| {
            let mut steps = 0u64;
            for (k, st) in m.iter() {
                if k.starts_with("histories/") {
                    steps += st.cases;
                }
            }
            json!({"history_steps": steps})
        }),
        profiles: vec!["release"],
    }
}

pub fn regsweep_probes(thorough: bool) -> Vec<u32> {
    let mut p: Vec<u32> = Vec::new();
    p.extend(mach::VEC_LO..=mach::VEC_HI);
    p.extend(mach::IO1_LO..=mach::IO1_HI);
    p.extend(mach::IO2_LO..=mach::IO2_HI);
    if thorough {
        p.extend(mach::RAM_LO..=mach::RAM_HI);
    } else {
        p.extend(mach::RAM_LO..mach::RAM_LO + 64);
        p.extend(mach::RAM_HI - 63..=mach::RAM_HI);
        p.extend(0xffe000u32..0xffe100);
        p.extend((mach::RAM_LO..=mach::RAM_HI).step_by(251));
    }
    p.extend(mach::DRAM_LO..mach::DRAM_LO + 16);
    p.extend(mach::DRAM_HI - 15..=mach::DRAM_HI);
    p.extend(0x410000u32..0x410010);
    p.extend((mach::DRAM_LO..=mach::DRAM_HI).step_by(if thorough { 4093 } else { 65521 }));
    p.sort();
    p.dedup();
    p
}

/// One (register address, value) case of unit `register-values`.
pub fn regsweep_case(ctx: &mut Ctx, a: u32, v: u8, probes: &[u32]) -> Option<String> {
    let port = sem::is_port_reg(a);
    let timer = sem::is_timer_reg(a);
    let skip = |p: u32| -> bool { (port && sem::is_port_reg(p)) || (timer && sem::is_timer_reg(p)) };
    let old = ctx.m.cpu.bus.read(a).ok()?;
    if ctx.m.cpu.bus.write(a, v).is_err() {
        return Some(format!("write of {:02x} to register {:06x} failed", v, a));
    }
    let mut bad: Option<String> = None;
    for &p in probes {
        if skip(p) {
            continue;
        }
        let exp = if p == a { v } else { ctx.m.peek_shadow(p).unwrap() };
        let got = ctx.m.cpu.bus.read(p).ok();
        if got != Some(exp) {
            bad = Some(format!("after writing {:02x} to register {:06x}, [{:06x}] reads {:?}; it held {:02x} and was not written", v, a, p, got, exp));
            break;
        }
    }
    if bad.is_none() {
        // where do writes go now?  round trip through one location per region / alias candidate
        for &p in &[0x000010u32, 0x0000f0, 0x400010, 0x5ffff0, 0xffe010, 0xffbf30, 0xfee090, 0xffff30] {
            if skip(p) || p == a {
                continue;
            }
            let before = ctx.m.peek_shadow(p).unwrap();
            let x = !before;
            let w = ctx.m.cpu.bus.write(p, x);
            let back = ctx.m.cpu.bus.read(p).ok();
            let stored = ctx.m.peek(p);
            let _ = ctx.m.cpu.bus.write(p, before);
            if w.is_err() || back != Some(x) || stored != Some(x) {
                bad = Some(format!("after writing {:02x} to register {:06x}, a write of {:02x} to [{:06x}] reads back {:?} (storage byte {:?})", v, a, x, p, back, stored));
                break;
            }
            if ctx.m.peek(p) != Some(before) {
                bad = Some(format!("after writing {:02x} to register {:06x}, [{:06x}] cannot be restored through the bus", v, a, p));
                break;
            }
        }
    }
    // the old value goes back through the bus as well
    let _ = ctx.m.cpu.bus.write(a, old);
    bad
}

/// replay handler for engine "c09reg"
pub fn replay_c09reg(ctx: &mut Ctx, case: &Value) -> bool {
    let addr = u32::from_str_radix(case["addr"].as_str().unwrap_or("0"), 16).unwrap_or(0);
    let v = case["value"].as_u64().unwrap_or(0) as u8;
    let probes = regsweep_probes(true);
    match regsweep_case(ctx, addr, v, &probes) {
        Some(m) => {
            println!("FAILS: {}", m);
            false
        }
        None => true,
    }
}

/// replay handler for engine "c09"
pub fn replay_c09(ctx: &mut Ctx, case: &Value) -> bool {
    if case["op"].as_str() == Some("syscall_read") {
        super::mes::ensure_socket(ctx);
        let h = |k: &str| u32::from_str_radix(case[k].as_str().unwrap_or("0"), 16).unwrap_or(0);
        return match syscall_read_case(ctx, h("arg"), h("buf"), case["len"].as_u64().unwrap_or(1) as u32) {
            Some(m) => {
                println!("{}", m);
                false
            }
            None => {
                println!("the system call's reads behave as the address map says");
                true
            }
        };
    }
    let addr = u32::from_str_radix(case["addr"].as_str().unwrap_or("0"), 16).unwrap_or(0);
    let before = ctx.st.violations_total;
    if case["op"] == "loaded" {
        if !super::longprog::load_loaded_machine(ctx, 99) {
            println!("could not set up the loaded machine");
            return false;
        }
        c09_classify_loaded(ctx, addr as u64, addr as u64 + 1, 1);
        for v in ctx.st.violations.iter() {
            println!("  {}", v.what);
        }
        return ctx.st.violations_total == before;
    }
    c09_classify_range(ctx, addr as u64, addr as u64 + 1, 1);
    println!("address {:08x}: mapped per the statement = {}", addr, mapped(addr));
    for v in ctx.st.violations.iter() {
        println!("  {}", v.what);
    }
    ctx.st.violations_total == before
}
