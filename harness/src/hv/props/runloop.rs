//! C13 — the run loop: executes to the exit address on one consistent time base.
//!
//! The real `Cpu::run()` is driven in-process (channel-backed socket, run-loop hook).  A twin real
//! `Cpu`, stepped by the harness (`try_interrupt`; `step`; `update_modules`), follows one instruction
//! behind and supplies everything that is *not* the run loop's own business (instruction semantics,
//! charges, peripherals), so an ALU or timer defect cannot make this check fire.
use super::irq::{peek, poke, CODE};
use crate::cpu::verif_hooks;
use crate::cpu::Cpu;
use crate::hv::e1::Ctx;
use crate::hv::isa::{Fields, Isa};
use crate::hv::shard::{Prop, Tier, Unit};
use serde_json::{json, Value};
use std::cell::RefCell;
use std::rc::Rc;
use std::sync::mpsc::{channel, Receiver, Sender};

const STACK: u32 = 0x4f0000;
const DATA: u32 = 0x430200;
const SYNC: usize = 2_000_000;

pub struct Prog {
    pub code: Vec<u8>,
    pub exit_addr: u32,
    pub vectors: Vec<(u32, u32)>,
    pub desc: String,
}

fn asm(isa: &Isa, name: &str, f: Fields) -> Vec<u8> {
    isa.encode(isa.row(name), &f)
}

/// shape: 1 counted loop, 2 nested loop, 3 call in loop, 4 port write in loop, 5 console write around a loop,
///        6 timer with overflow handler, 0 straight line.
/// fail: 0 none, 1 unimplemented opcode first, 2 unmapped store after the loop, 3 unimplemented opcode last but one,
///       4 / 5 / 6 a failing instruction whose last word ends exactly at the exit address (NOP; the 4-byte
///       LDC.W @ER0,CCR; a 6-byte store to an unmapped address), so that PC == exit address when it fails
pub fn build(isa: &Isa, shape: usize, n: u32, fail: usize) -> Prog {
    build_pad(isa, shape, n, fail, 0)
}

/// Same, with `pad` extra `MOV.B @aa:8,R6L` instructions (a byte read from on-chip RAM: the cheapest step that
/// moves the running total by a different amount than a fetch from DRAM) in front of the loop.
pub fn build_pad(isa: &Isa, shape: usize, n: u32, fail: usize, pad: usize) -> Prog {
    let mut c: Vec<u8> = Vec::new();
    let f = |rd: u8, rs: u8, data: u32| Fields { rd, rs, data, ..Default::default() };
    let nop_unimpl: Vec<u8> = vec![0x00, 0x00]; // NOP: valid H8/300H, not implemented by the emulator
    let mut vectors = Vec::new();
    if fail == 1 {
        c.extend(&nop_unimpl);
    }
    c.extend(asm(isa, "MOV.L #xx:32,ERd", f(0, 0, 0x00c0_ffee)));
    for _ in 0..pad {
        c.extend(asm(isa, "MOV.B @aa:8,Rd", Fields { rd: 14, data: 0x10, ..Default::default() }));
    }
    let bne = |c: &mut Vec<u8>, top: usize| {
        let here = c.len() + 2;
        c.extend(asm(isa, "Bcc d:8", Fields { cc: 6, data: (top as i32 - here as i32) as u32 & 0xff, ..Default::default() }));
    };
    match shape {
        0 => {
            c.extend(asm(isa, "ADD.L ERs,ERd", f(1, 0, 0)));
            c.extend(asm(isa, "ROTL.L ERd", f(1, 0, 0)));
        }
        1 => {
            c.extend(asm(isa, "MOV.L #xx:32,ERd", f(1, 0, n)));
            let top = c.len();
            c.extend(asm(isa, "DEC.L #1,ERd", f(1, 0, 0)));
            bne(&mut c, top);
        }
        2 => {
            // outer count n, inner count 100
            c.extend(asm(isa, "MOV.L #xx:32,ERd", f(1, 0, n)));
            let outer = c.len();
            c.extend(asm(isa, "MOV.W #xx:16,Rd", f(2, 0, 100)));
            let inner = c.len();
            c.extend(asm(isa, "DEC.W #1,Rd", f(2, 0, 0)));
            bne(&mut c, inner);
            c.extend(asm(isa, "DEC.L #1,ERd", f(1, 0, 0)));
            bne(&mut c, outer);
        }
        3 => {
            c.extend(asm(isa, "MOV.L #xx:32,ERd", f(1, 0, n)));
            c.extend(asm(isa, "Bcc d:8", Fields { cc: 0, data: 4, ..Default::default() })); // BRA over f
            let fpos = c.len();
            c.extend(asm(isa, "ADD.W Rs,Rd", f(3, 0, 0))); // f:
            c.extend(asm(isa, "RTS", Fields::default()));
            let top = c.len();
            let here = c.len() + 2;
            c.extend(asm(isa, "BSR d:8", Fields { data: (fpos as i32 - here as i32) as u32 & 0xff, ..Default::default() }));
            c.extend(asm(isa, "DEC.L #1,ERd", f(1, 0, 0)));
            bne(&mut c, top);
        }
        4 => {
            c.extend(asm(isa, "MOV.B #xx:8,Rd", f(10, 0, 0xff))); // R2L
            c.extend(asm(isa, "MOV.B Rs,@aa:24", Fields { rs: 10, data: 0xfee003, ..Default::default() })); // P4DDR = ff
            c.extend(asm(isa, "MOV.L #xx:32,ERd", f(1, 0, n)));
            let top = c.len();
            c.extend(asm(isa, "NOT.B Rd", f(8, 0, 0))); // R0L
            c.extend(asm(isa, "MOV.B Rs,@aa:8", Fields { rs: 8, data: 0xd3, ..Default::default() })); // P4DR
            for _ in 0..40 {
                c.extend(asm(isa, "ADDS #1,ERd", f(3, 0, 0)));
            }
            c.extend(asm(isa, "DEC.L #1,ERd", f(1, 0, 0)));
            bne(&mut c, top);
        }
        5 => {
            // argument block {fd, buffer, length} at DATA, text at DATA+0x20 (set up by the harness image)
            c.extend(asm(isa, "MOV.L #xx:32,ERd", f(1, 0, DATA)));
            c.extend(asm(isa, "MOV.L #xx:32,ERd", f(0, 0, 104)));
            c.extend(asm(isa, "TRAPA #x:2", Fields { trap: 0, ..Default::default() }));
            c.extend(asm(isa, "MOV.L #xx:32,ERd", f(4, 0, n)));
            let top = c.len();
            c.extend(asm(isa, "DEC.L #1,ERd", f(4, 0, 0)));
            bne(&mut c, top);
            c.extend(asm(isa, "TRAPA #x:2", Fields { trap: 0, ..Default::default() }));
        }
        8 => {
            // recursion of depth n: f(k) { if (--k) f(k); }
            c.extend(asm(isa, "MOV.L #xx:32,ERd", f(1, 0, n)));
            c.extend(asm(isa, "BSR d:8", Fields { data: 2, ..Default::default() })); // call f
            c.extend(asm(isa, "Bcc d:8", Fields { cc: 0, data: 8, ..Default::default() })); // BRA done (over f: 8 bytes)
            // f:
            c.extend(asm(isa, "DEC.L #1,ERd", f(1, 0, 0))); // 2 bytes
            c.extend(asm(isa, "Bcc d:8", Fields { cc: 7, data: 2, ..Default::default() })); // BEQ ret
            c.extend(asm(isa, "BSR d:8", Fields { data: 0xfa, ..Default::default() })); // BSR f (-6)
            c.extend(asm(isa, "RTS", Fields::default())); // ret:
        }
        9 => {
            // one console write of text number n (the harness pokes text and length through `vectors`)
            let t = console_text(n as usize);
            let mut padded = t.clone();
            while padded.len() % 4 != 0 {
                padded.push(0);
            }
            for (k, w) in padded.chunks(4).enumerate() {
                vectors.push((DATA + 0x20 + 4 * k as u32, u32::from_be_bytes([w[0], w[1], w[2], w[3]])));
            }
            vectors.push((DATA + 8, t.len() as u32));
            c.extend(asm(isa, "MOV.L #xx:32,ERd", f(1, 0, DATA)));
            c.extend(asm(isa, "MOV.L #xx:32,ERd", f(0, 0, 104)));
            c.extend(asm(isa, "TRAPA #x:2", Fields { trap: 0, ..Default::default() }));
        }
        7 => {
            // slow bus: three wait states everywhere, then long-displacement long moves in DRAM space
            c.extend(asm(isa, "MOV.B #xx:8,Rd", f(8, 0, 0xff)));
            c.extend(asm(isa, "MOV.B Rs,@aa:24", Fields { rs: 8, data: 0xfee023, ..Default::default() })); // WCRL = ff
            c.extend(asm(isa, "MOV.L #xx:32,ERd", f(1, 0, DATA)));
            for _ in 0..n.min(8) {
                c.extend(asm(isa, "MOV.L ERs,@(d:24,ERd)", Fields { rs: 0, ra: 1, data: 0x000100, ..Default::default() }));
                c.extend(asm(isa, "MOV.L @(d:24,ERs),ERd", Fields { rd: 2, ra: 1, data: 0x000100, ..Default::default() }));
            }
        }
        _ => {
            // timer: TCORA irrelevant, TCR = OVIE | /8 ; handler counts overflows and clears OVF
            c.extend(asm(isa, "MOV.B #xx:8,Rd", f(10, 0, 0x21)));
            c.extend(asm(isa, "MOV.B Rs,@aa:8", Fields { rs: 10, data: 0x80, ..Default::default() }));
            c.extend(asm(isa, "MOV.L #xx:32,ERd", f(1, 0, n)));
            let top = c.len();
            c.extend(asm(isa, "DEC.L #1,ERd", f(1, 0, 0)));
            bne(&mut c, top);
        }
    }
    if fail == 2 {
        c.extend(asm(isa, "MOV.B Rs,@aa:24", Fields { rs: 8, data: 0x200000, ..Default::default() }));
    }
    c.extend(asm(isa, "MOV.L ERs,@aa:24", Fields { rs: 1, data: DATA + 0x100, ..Default::default() }));
    if fail == 3 {
        c.extend(&nop_unimpl);
    }
    c.extend(asm(isa, "ADDS #1,ERd", f(3, 0, 0)));
    match fail {
        4 => c.extend(&nop_unimpl),
        5 => c.extend(&[0x01u8, 0x40, 0x69, 0x00]),
        6 => c.extend(asm(isa, "MOV.B Rs,@aa:24", Fields { rs: 8, data: 0x200000, ..Default::default() })),
        _ => {}
    }
    let exit_addr = CODE + c.len() as u32;
    c.extend(asm(isa, "Bcc d:8", Fields { cc: 0, data: 0xfe, ..Default::default() }));
    if shape == 6 {
        let h = CODE + c.len() as u32;
        vectors.push((39 * 4, h));
        c.extend(asm(isa, "ADDS #1,ERd", f(5, 0, 0)));
        c.extend(asm(isa, "BCLR #xx:3,@aa:8", Fields { bitn: 5, data: 0x82, ..Default::default() }));
        c.extend(asm(isa, "RTE", Fields::default()));
    }
    Prog { code: c, exit_addr, vectors, desc: format!("shape{} n={} fail={} pad={}", shape, n, fail, pad) }
}

/// Texts of guest shape 9: an ASCII filler with one 3-byte character starting at offset k (k = index, 0..=200), so
/// that a text is cut inside a character by any fixed-size preview / column limit up to 200; index > 200: long lines.
pub fn console_text(i: usize) -> Vec<u8> {
    if i <= 200 {
        let mut t: Vec<u8> = (0..i).map(|k| b'a' + (k % 26) as u8).collect();
        t.extend_from_slice("€".as_bytes());
        while t.len() < 210 {
            t.push(b'A' + (t.len() % 26) as u8);
        }
        t.extend_from_slice("é💡\n".as_bytes());
        t
    } else {
        let n = [300usize, 1000, 1024, 1025, 1500][(i - 201) % 5];
        let mut t: Vec<u8> = b"status\n".to_vec();
        t.extend((0..n).map(|k| b'0' + (k % 10) as u8));
        t
    }
}

pub struct Pair {
    pub real: Cpu,
    pub twin: Cpu,
    pub real_rx: Receiver<String>,
    pub real_tx_in: Sender<String>,
    pub twin_rx: Receiver<String>,
    _twin_tx_in: Sender<String>,
    /// host stalls injected by the run-loop hook: (loop iteration, milliseconds the host "was descheduled")
    pub stalls: Vec<(u64, u64)>,
    /// host lines put into the incoming channel by the run-loop hook: (loop iteration, line)
    pub host_lines: Vec<(u64, String)>,
}

impl Pair {
    pub fn new() -> Pair {
        let mut real = Cpu::new();
        let mut twin = Cpu::new();
        let (out_tx, real_rx) = channel();
        let (real_tx_in, in_rx) = channel();
        real.vh_attach_channels(out_tx, in_rx);
        let (out_tx2, twin_rx) = channel();
        let (twin_tx_in, in_rx2) = channel();
        twin.vh_attach_channels(out_tx2, in_rx2);
        Pair { real, twin, real_rx, real_tx_in, twin_rx, _twin_tx_in: twin_tx_in, stalls: Vec::new(), host_lines: Vec::new() }
    }

    pub fn load(&mut self, p: &Prog) {
        for cpu in [&mut self.real, &mut self.twin] {
            // clear what an earlier program left behind
            for a in (CODE..CODE + 0x400).chain(DATA..DATA + 0x800).chain(STACK - 0x100..STACK) {
                let _ = cpu.bus.write(a, 0);
            }
            for k in 0..0x100usize {
                let _ = cpu.bus.write(k as u32, 0);
                cpu.bus.io_registrs1[k] = 0;
            }
            for k in 0..cpu.bus.io_registrs2.len() {
                cpu.bus.io_registrs2[k] = 0;
            }
            cpu.bus.io_port_in = [0; crate::bus::IO_PORT_SIZE];
            cpu.bus.io_port_latch = [0; crate::bus::IO_PORT_SIZE];
            cpu.vh_module_manager_restore(crate::modules::ModuleManager::new());
            poke(cpu, CODE, &p.code);
            // console-write argument block and text (a program may overwrite them through `vectors`)
            poke(cpu, DATA, &1u32.to_be_bytes());
            poke(cpu, DATA + 4, &(DATA + 0x20).to_be_bytes());
            poke(cpu, DATA + 8, &3u32.to_be_bytes());
            poke(cpu, DATA + 0x20, b"ok\n");
            for &(va, h) in p.vectors.iter() {
                poke(cpu, va, &h.to_be_bytes());
            }
            cpu.er = [0; 8];
            cpu.er[2] = CODE;
            cpu.er[7] = STACK;
            cpu.exit_addr = p.exit_addr;
            cpu.vh_set_ccr(0);
            cpu.vh_set_pc(0);
            cpu.vh_set_state_sum(0);
            cpu.bus.cpu_state_sum = 0;
            cpu.vh_clear_pending_interrupts();
        }
        while self.real_rx.try_recv().is_ok() {}
        while self.twin_rx.try_recv().is_ok() {}
    }
}

#[derive(Clone, Debug, Default)]
pub struct Outcome {
    pub result: String,
    pub instructions: u64,
    pub state_sum: usize,
    pub er: [u32; 8],
    pub pc: u32,
    pub ccr: u8,
    pub messages: Vec<String>,
    pub syncs: usize,
    pub factor: usize,
    pub exact_landings: usize,
}

struct Follow {
    twin: Cpu,
    twin_rx: Receiver<String>,
    expected_msgs: Vec<String>,
    factor: usize,
    count: u64,
    fail: Option<String>,
    exit_addr: u32,
    syncs: usize,
    /// instruction boundaries at which the total was exactly a multiple of the sync interval
    exact_landings: usize,
}

impl Follow {
    /// The real CPU has completed one more instruction and now shows `real_sum`; make the twin do the same.
    fn catch_up(&mut self, real: &Cpu) {
        if self.fail.is_some() {
            return;
        }
        let t = &mut self.twin;
        let before = t.vh_state_sum();
        let delta = real.vh_state_sum().wrapping_sub(before);
        if let Err(e) = t.vh_try_interrupt() {
            self.fail = Some(format!("instruction {}: the twin's interrupt acceptance failed ({:#}) but run() went on", self.count, e));
            return;
        }
        let s = match t.vh_step() {
            Ok(s) => s as usize,
            Err(e) => {
                self.fail = Some(format!("instruction {} at {:06x} fails when stepped ({:#}), but run() continued past it", self.count, t.vh_pc(), e));
                return;
            }
        };
        if self.factor == 0 {
            if s == 0 || delta == 0 || delta % s != 0 {
                self.fail = Some(format!("instruction {}: state count advanced by {} for an instruction charged {} states", self.count, delta, s));
                return;
            }
            self.factor = delta / s;
        }
        if delta != self.factor * s {
            self.fail = Some(format!("instruction {}: state count advanced by {}, the instruction was charged {} states (x{} so far)", self.count, delta, s, self.factor));
            return;
        }
        // messages the instruction itself emitted (stdout:, ioport:) come before the sync message
        for m in self.twin_rx.try_iter() {
            self.expected_msgs.push(m);
        }
        let total = before + delta;
        t.vh_set_state_sum(total);
        t.bus.cpu_state_sum = total;
        if total / SYNC != before / SYNC {
            self.expected_msgs.push(format!("sync:{}", total));
            self.syncs += 1;
            if total % SYNC == 0 {
                self.exact_landings += 1;
            }
        }
        if let Err(e) = t.vh_update_modules(delta as u16) {
            self.fail = Some(format!("update_modules failed on the twin: {:#}", e));
            return;
        }
        self.count += 1;
        // the two must now agree on everything architectural
        if t.vh_pc() != real.vh_pc() || t.er != real.er || t.vh_ccr() != real.vh_ccr() {
            self.fail = Some(format!(
                "after instruction {} run() shows PC {:06x} CCR {:02x} ER {:08x?}; stepping the same program gives PC {:06x} CCR {:02x} ER {:08x?}",
                self.count - 1, real.vh_pc(), real.vh_ccr(), real.er, t.vh_pc(), t.vh_ccr(), t.er
            ));
            return;
        }
        if t.vh_pending_interrupts() != real.vh_pending_interrupts() {
            self.fail = Some(format!("after instruction {} pending requests differ: run() {:?}, stepped {:?} (peripherals did not see the same elapsed states)", self.count - 1, real.vh_pending_interrupts(), t.vh_pending_interrupts()));
            return;
        }
        let io = |c: &Cpu| (c.bus.io_registrs2[0x68], c.bus.io_registrs2[0x62]); // TCNT0, TCSR0
        if io(t) != io(real) {
            self.fail = Some(format!("after instruction {} the timer differs: run() TCNT/TCSR {:02x?}, stepped {:02x?}", self.count - 1, io(real), io(t)));
        }
    }
}

/// Run `p` through the real `run()` with the twin following; returns the outcome and a violation text.
pub fn run_checked(pair: &mut Pair, p: &Prog, horizon: u64) -> (Outcome, Option<String>) {
    pair.load(p);
    let twin = std::mem::replace(&mut pair.twin, Cpu::new());
    let twin_rx = std::mem::replace(&mut pair.twin_rx, channel().1);
    let fol = Rc::new(RefCell::new(Follow { twin, twin_rx, expected_msgs: Vec::new(), factor: 0, count: 0, fail: None, exit_addr: p.exit_addr, syncs: 0, exact_landings: 0 }));
    let f2 = fol.clone();
    let mut iter = 0u64;
    let stalls = pair.stalls.clone();
    let host_lines = pair.host_lines.clone();
    let tx_in = pair.real_tx_in.clone();
    verif_hooks::set_run_loop_hook(Some(Box::new(move |cpu: &mut Cpu| {
        for (at, l) in host_lines.iter() {
            if *at == iter {
                // a line from the host arrives here (an environment choice the harness makes)
                let _ = tx_in.send(l.clone());
            }
        }
        for &(at, ms) in stalls.iter() {
            if at == iter {
                // the host is descheduled here for `ms` milliseconds (an environment choice the harness makes)
                std::thread::sleep(std::time::Duration::from_millis(ms));
            }
        }
        let mut f = f2.borrow_mut();
        if iter == 0 {
            // run() has set PC from ER2 and programmed the bus controller: the twin starts from the same point
            let pc = cpu.vh_pc();
            f.twin.vh_set_pc(pc);
            let _ = f.twin.vh_init_registers();
        } else {
            f.catch_up(cpu);
            // run() went on, so the instruction just completed cannot have ended at the exit address
            if f.fail.is_none() && f.twin.vh_pc() == f.exit_addr {
                f.fail = Some(format!("PC reached the exit address {:06x} after instruction {} but run() did not return", f.exit_addr, f.count - 1));
            }
        }
        iter += 1;
        f.fail.is_some() || iter > horizon
    })));
    let (r, panicked): (anyhow::Result<()>, Option<String>) = {
        let real = &mut pair.real;
        match std::panic::catch_unwind(std::panic::AssertUnwindSafe(|| real.run())) {
            Ok(r) => (r, None),
            Err(p) => {
                let msg = if let Some(s) = p.downcast_ref::<&str>() {
                    s.to_string()
                } else if let Some(s) = p.downcast_ref::<String>() {
                    s.clone()
                } else {
                    "panic".to_string()
                };
                (Err(anyhow::anyhow!("run() panicked")), Some(format!("{} @ {}", msg, crate::hv::panics::take_last_location())))
            }
        }
    };
    verif_hooks::set_run_loop_hook(None);
    let mut f = match Rc::try_unwrap(fol) {
        Ok(c) => c.into_inner(),
        Err(_) => panic!("follow state still shared"),
    };
    let mut out = Outcome::default();
    out.result = match &r {
        Ok(()) => "ok".into(),
        Err(e) => format!("err: {:#}", e).chars().take(200).collect(),
    };
    let mut verdict = f.fail.take();
    if let Some(p) = &panicked {
        verdict = Some(format!("run() panicked instead of returning: {}", p));
    }
    if verdict.is_none() {
        match &r {
            Ok(()) => {
                // the last instruction (the one that reached the exit address)
                f.catch_up(&pair.real);
                verdict = f.fail.take();
                if verdict.is_none() && f.twin.vh_pc() != p.exit_addr {
                    verdict = Some(format!("run() reported success although PC {:06x} is not the exit address {:06x}", f.twin.vh_pc(), p.exit_addr));
                }
            }
            Err(e) => {
                let msg = format!("{:#}", e);
                if msg.contains(verif_hooks::HORIZON_MESSAGE) {
                    verdict = Some(format!("run() did not end within {} loop iterations", horizon));
                } else {
                    // the failing instruction: the twin must fail on it too, with the same error, nothing charged
                    let before = f.twin.vh_state_sum();
                    let _ = f.twin.vh_try_interrupt();
                    match f.twin.vh_step() {
                        Ok(_) => verdict = Some(format!("run() returned an error ({}) although instruction {} executes when stepped", msg, f.count)),
                        Err(e2) => {
                            if format!("{:#}", e2) != msg {
                                verdict = Some(format!("run() returned '{}', the failing instruction's own error is '{:#}'", msg, e2));
                            } else if pair.real.vh_state_sum() != before {
                                verdict = Some(format!("the state count advanced ({} -> {}) for an instruction that failed", before, pair.real.vh_state_sum()));
                            }
                        }
                    }
                }
            }
        }
    }
    out.instructions = f.count;
    out.state_sum = pair.real.vh_state_sum();
    out.er = pair.real.er;
    out.pc = pair.real.vh_pc();
    out.ccr = pair.real.vh_ccr();
    out.messages = pair.real_rx.try_iter().collect();
    out.syncs = f.syncs;
    out.factor = f.factor;
    out.exact_landings = f.exact_landings;
    if verdict.is_none() {
        if out.messages != f.expected_msgs {
            let k = out.messages.iter().zip(f.expected_msgs.iter()).position(|(a, b)| a != b).unwrap_or(out.messages.len().min(f.expected_msgs.len()));
            verdict = Some(format!(
                "message sequence differs at index {}: run() emitted {:?}, expected {:?} ({} vs {} messages)",
                k,
                out.messages.get(k),
                f.expected_msgs.get(k),
                out.messages.len(),
                f.expected_msgs.len()
            ));
        } else if pair.real.bus.dram[..] != f.twin.bus.dram[..] || pair.real.bus.memory[..] != f.twin.bus.memory[..] || pair.real.bus.io_registrs2[..] != f.twin.bus.io_registrs2[..] || pair.real.bus.io_registrs1[..] != f.twin.bus.io_registrs1[..] {
            verdict = Some("final memory differs between run() and the stepped twin".into());
        } else if pair.real.bus.cpu_state_sum != pair.real.vh_state_sum() && r.is_ok() {
            verdict = Some(format!("the bus sees state count {} but the CPU's total is {}", pair.real.bus.cpu_state_sum, pair.real.vh_state_sum()));
        }
    }
    // hand the twin back
    pair.twin = f.twin;
    pair.twin_rx = f.twin_rx;
    (out, verdict)
}

/// states per loop iteration and fixed overhead of a shape, measured on the implementation (run() with small counts)
fn measure(pair: &mut Pair, isa: &Isa, shape: usize) -> (usize, usize) {
    let (o1, _) = run_checked(pair, &build(isa, shape, 10, 0), 1_000_000);
    let (o2, _) = run_checked(pair, &build(isa, shape, 20, 0), 1_000_000);
    let b = (o2.state_sum - o1.state_sum) / 10;
    let a = o1.state_sum - 10 * b;
    (a, b.max(1))
}

fn c13_units(tier: Tier) -> Vec<Unit> {
    let mut units = Vec::new();
    let thresholds: Vec<usize> = if tier == Tier::Thorough { vec![1, 2, 3, 5] } else { vec![1, 2] };
    let win: u64 = if tier == Tier::Thorough { 17 } else { 7 };
    for shape in 1..=6usize {
        for &m in thresholds.iter() {
            let dom = format!(
                "guest shape {1} (1 counted loop, 2 nested loop, 3 call in loop, 4 port write in loop, 5 console writes around a loop, 6 timer with overflow handler): all loop counts within +-{0} of the count whose total reaches {2} x 2,000,000 states (threshold-1 charge, exactly on, just past), each through the real run() with the twin following; one count run twice (determinism)",
                win / 2, shape, m
            );
            units.push(Unit::new(&format!("shape{}/sync{}", shape, m), win, &dom, move |ctx, chunk| {
                let mut pair = Pair::new();
                let (a, b) = measure(&mut pair, &ctx.isa, shape);
                let nstar = ((m * SYNC).saturating_sub(a) + b - 1) / b;
                let n = (nstar as i64 + chunk as i64 - (win as i64 / 2)).max(1) as u32;
                let p = build(&ctx.isa, shape, n, 0);
                let (o, v) = run_checked(&mut pair, &p, 50_000_000);
                ctx.st.cases += 1;
                ctx.st.nontrivial += 1;
                *ctx.st.notes.entry("instructions executed through run()".into()).or_insert(0) += o.instructions;
                *ctx.st.notes.entry("sync messages checked".into()).or_insert(0) += o.syncs as u64;
                let bit = (o.state_sum % 65536) as usize;
                ctx.st.outcome_bits[bit / 64] |= 1 << (bit % 64);
                let case = json!({"shape": shape, "n": n, "fail": 0});
                if let Some(msg) = v {
                    ctx.custom_violation("c13", msg, case.clone(), json!(null), json!({"result": o.result, "state_sum": o.state_sum, "messages": o.messages.iter().take(6).collect::<Vec<_>>()}));
                } else if o.result != "ok" {
                    ctx.custom_violation("c13", format!("terminating guest did not finish: {}", o.result), case.clone(), json!(null), json!(null));
                }
                if chunk == win / 2 {
                    // determinism: same program again, everything identical
                    let (o2, _) = run_checked(&mut pair, &p, 50_000_000);
                    ctx.st.cases += 1;
                    if o2.state_sum != o.state_sum || o2.er != o.er || o2.messages != o.messages || o2.pc != o.pc || o2.result != o.result {
                        ctx.custom_violation("c13", format!("two runs of the same program differ: state count {} vs {}, {} vs {} messages", o.state_sum, o2.state_sum, o.messages.len(), o2.messages.len()), case.clone(), json!(null), json!(null));
                    }
                    ctx.sample(json!({"shape": shape, "n": n, "state_sum": o.state_sum, "instructions": o.instructions, "syncs": o.syncs, "factor": o.factor, "last_messages": o.messages.iter().rev().take(3).collect::<Vec<_>>()}));
                }
            }));
        }
    }
    // ---- totals that land exactly on a multiple of the sync interval (every charge is a multiple of 3, so
    //      6,000,000 is the first multiple that can be hit exactly)
    units.push(Unit::new(
        "sync-exact",
        16,
        "guest shape 1 with 0-15 padding instructions in front of the loop (each shifts every later total by the cost of one byte read from on-chip RAM) and a loop count that carries the total past 6,000,000 states: among the 16 programs are ones whose total is exactly 6,000,000 at an instruction boundary (counted in the evidence); the sync for that multiple must be emitted once, as for any other crossing",
        move |ctx, chunk| {
            let mut pair = Pair::new();
            let (a, b) = measure(&mut pair, &ctx.isa, 1);
            let n = ((3 * SYNC + 3 * b) / b) as u32 + 2;
            let _ = a;
            let p = build_pad(&ctx.isa, 1, n, 0, chunk as usize);
            let (o, v) = run_checked(&mut pair, &p, 50_000_000);
            ctx.st.cases += 1;
            ctx.st.nontrivial += 1;
            *ctx.st.notes.entry("instructions executed through run()".into()).or_insert(0) += o.instructions;
            *ctx.st.notes.entry("sync messages checked".into()).or_insert(0) += o.syncs as u64;
            *ctx.st.notes.entry("totals exactly on a sync multiple at an instruction boundary".into()).or_insert(0) += o.exact_landings as u64;
            let case = json!({"shape": 1, "n": n, "fail": 0, "pad": chunk});
            if let Some(msg) = v {
                ctx.custom_violation("c13", msg, case, json!(null), json!({"result": o.result, "state_sum": o.state_sum, "messages": o.messages.iter().take(6).collect::<Vec<_>>()}));
            } else if o.result != "ok" {
                ctx.custom_violation("c13", format!("terminating guest did not finish: {}", o.result), case, json!(null), json!(null));
            }
        },
    ));
    // ---- the host falls behind: stalls injected at loop iterations (deviation bound 1, plus one run with three)
    units.push(Unit::new(
        "host-stall",
        14,
        "guest shape 1 and 3 with about 130,000 states (6 pacing periods): the run-loop hook stalls the host for 3 ms at one loop iteration (13 positions spread over the run, and one run with three stalls); the result, state count and message sequence must be those of the undisturbed run and run() must return normally",
        move |ctx, chunk| {
            for shape in [1usize, 3] {
                let mut pair = Pair::new();
                let (a, b) = measure(&mut pair, &ctx.isa, shape);
                let n = ((130_000usize.saturating_sub(a)) / b).max(10) as u32;
                let p = build(&ctx.isa, shape, n, 0);
                let (base, v0) = run_checked(&mut pair, &p, 5_000_000);
                if v0.is_some() || base.result != "ok" {
                    ctx.custom_violation("c13", format!("undisturbed run: {:?} {}", v0, base.result), json!({"shape": shape, "n": n, "fail": 0}), json!(null), json!(null));
                    continue;
                }
                let step = (base.instructions / 13).max(1);
                pair.stalls = if chunk < 13 { vec![(1 + chunk * step, 3)] } else { vec![(2, 3), (base.instructions / 2, 3), (base.instructions - 2, 3)] };
                let stalls = pair.stalls.clone();
                let (o, v) = run_checked(&mut pair, &p, 5_000_000);
                pair.stalls.clear();
                ctx.st.cases += 1;
                ctx.st.nontrivial += 1;
                *ctx.st.notes.entry("instructions executed through run()".into()).or_insert(0) += o.instructions;
                let case = json!({"shape": shape, "n": n, "fail": 0, "stalls": stalls.iter().map(|x| json!([x.0, x.1])).collect::<Vec<_>>()});
                if let Some(msg) = v {
                    ctx.custom_violation("c13", format!("with the host stalled at {:?}: {}", stalls, msg), case, json!(null), json!({"result": o.result}));
                } else if o.result != base.result || o.state_sum != base.state_sum || o.er != base.er || o.messages != base.messages || o.pc != base.pc {
                    ctx.custom_violation("c13", format!("with the host stalled at {:?} the run differs from the undisturbed one: result {} vs {}, state count {} vs {}, {} vs {} messages", stalls, o.result, base.result, o.state_sum, base.state_sum, o.messages.len(), base.messages.len()), case, json!(null), json!(null));
                }
            }
        },
    ));
    // ---- host lines that change nothing arrive while the program runs (deviation bound 1, plus one run with three)
    units.push(Unit::new(
        "host-lines-during-run",
        12,
        "guest shape 1 and 4 with loop counts that cross two sync thresholds (about 4,100,000 states): one host line without architectural effect {a redundant cmd:start, cmd:bogus, a malformed line, an empty line} arrives at one of 3 loop iterations (early, just before the first threshold, between the thresholds), and one run with three lines: result, state count and the complete message sequence (sync messages exactly at the crossings of multiples of 2,000,000) must be those of the undisturbed run",
        move |ctx, chunk| {
            let lines = ["cmd:start", "cmd:bogus", "u8:zz:1", ""];
            for shape in [1usize, 4] {
                let mut pair = Pair::new();
                let (a, b) = measure(&mut pair, &ctx.isa, shape);
                let n = ((4_100_000usize.saturating_sub(a)) / b).max(10) as u32;
                let p = build(&ctx.isa, shape, n, 0);
                let (base, v0) = run_checked(&mut pair, &p, 50_000_000);
                if v0.is_some() || base.result != "ok" {
                    ctx.custom_violation("c13", format!("undisturbed run: {:?} {}", v0, base.result), json!({"shape": shape, "n": n, "fail": 0}), json!(null), json!(null));
                    continue;
                }
                let per = (base.instructions as usize / n.max(1) as usize).max(1) as u64; // loop iterations of run() per guest loop round
                let first = ((2_000_000usize.saturating_sub(a)) / b) as u64 * per;
                let positions = [3u64, first.saturating_sub(5), first + (base.instructions - first) / 3];
                let line = lines[(chunk % 4) as usize];
                pair.host_lines = if chunk < 12 && (chunk / 4) < 3 { vec![(positions[(chunk / 4) as usize], line.to_string())] } else { vec![] };
                if chunk % 4 == 0 && chunk / 4 == 2 {
                    // the run with three lines
                    pair.host_lines = vec![(positions[0], "cmd:start".into()), (positions[1], "cmd:start".into()), (positions[2], "cmd:bogus".into())];
                }
                let hl = pair.host_lines.clone();
                let (o, v) = run_checked(&mut pair, &p, 50_000_000);
                pair.host_lines.clear();
                ctx.st.cases += 1;
                ctx.st.nontrivial += 1;
                *ctx.st.notes.entry("instructions executed through run()".into()).or_insert(0) += o.instructions;
                let case = json!({"shape": shape, "n": n, "fail": 0, "host_lines": hl.iter().map(|x| json!([x.0, x.1])).collect::<Vec<_>>()});
                if let Some(msg) = v {
                    ctx.custom_violation("c13", format!("with host lines {:?}: {}", hl, msg), case, json!(null), json!({"result": o.result}));
                } else if o.result != base.result || o.state_sum != base.state_sum || o.er != base.er || o.messages != base.messages || o.pc != base.pc {
                    let k = o.messages.iter().zip(base.messages.iter()).position(|(x, y)| x != y).unwrap_or(o.messages.len().min(base.messages.len()));
                    ctx.custom_violation("c13", format!("with host lines {:?} the run differs from the undisturbed one: result {} vs {}, state count {} vs {}, {} vs {} messages, first differing message {:?} vs {:?}", hl, o.result, base.result, o.state_sum, base.state_sum, o.messages.len(), base.messages.len(), o.messages.get(k), base.messages.get(k)), case, json!(null), json!(null));
                }
            }
        },
    ));
    // ---- deep recursion and console texts through run()
    units.push(Unit::new(
        "recursion-and-console",
        16,
        "guest shape 8 (recursion f(k) { if (--k) f(k); }) with depths 1, 2, 100, 200, 254, 255, 256, 257, 300, 1000, 4000; guest shape 9 (one console write) with 206 texts: a 3-byte character starting at every offset 0-200 of a 214-byte text, and a status line followed by 300-1500 bytes without newline; each through the real run() with the twin following (run() must reach the exit address and emit the stdout: message)",
        move |ctx, chunk| {
            let mut pair = Pair::new();
            let mut progs: Vec<(usize, u32)> = [1u32, 2, 100, 200, 254, 255, 256, 257, 300, 1000, 4000].iter().map(|&d| (8usize, d)).collect();
            progs.extend((0..206u32).map(|i| (9usize, i)));
            for (i, &(shape, n)) in progs.iter().enumerate() {
                if i % 16 != chunk as usize {
                    continue;
                }
                let p = build(&ctx.isa, shape, n, 0);
                let (o, v) = run_checked(&mut pair, &p, 1_000_000);
                ctx.st.cases += 1;
                ctx.st.nontrivial += 1;
                *ctx.st.notes.entry("instructions executed through run()".into()).or_insert(0) += o.instructions;
                let case = json!({"shape": shape, "n": n, "fail": 0});
                if let Some(msg) = v {
                    ctx.custom_violation("c13", msg, case, json!(null), json!({"result": o.result}));
                } else if o.result != "ok" {
                    ctx.custom_violation("c13", format!("terminating guest did not finish: {}", o.result), case, json!(null), json!(null));
                } else if shape == 9 {
                    let want = format!("stdout:{}", String::from_utf8_lossy(&console_text(n as usize)));
                    if !o.messages.iter().any(|m| *m == want) {
                        ctx.custom_violation("c13", format!("console write of text {}: the stdout: message is missing or differs (messages: {:?})", n, o.messages.iter().map(|m| m.chars().take(40).collect::<String>()).collect::<Vec<_>>()), case, json!(null), json!(null));
                    }
                }
                if ctx.stop {
                    return;
                }
            }
        },
    ));
    units.push(Unit::new(
        "failing-instruction",
        1,
        "every guest shape 0-6 x failing instruction at {first, after the loop (unmapped store), near the end (unimplemented opcode), directly in front of the exit address so that PC equals the exit address when it fails (2-byte and 4-byte unimplemented opcodes, 6-byte unmapped store)} x loop counts {1, 50}: run() must return exactly that instruction's error, charge nothing for it and execute nothing after it; plus the fault-free straight-line program",
        move |ctx, _| {
            let mut pair = Pair::new();
            for shape in 0..=6usize {
                for fail in 0..=6usize {
                    for n in [1u32, 50] {
                        let p = build(&ctx.isa, shape, n, fail);
                        let (o, v) = run_checked(&mut pair, &p, 5_000_000);
                        ctx.st.cases += 1;
                        ctx.st.nontrivial += 1;
                        *ctx.st.notes.entry("instructions executed through run()".into()).or_insert(0) += o.instructions;
                        let case = json!({"shape": shape, "n": n, "fail": fail});
                        if let Some(msg) = v {
                            ctx.custom_violation("c13", msg, case, json!(null), json!({"result": o.result}));
                        } else if (fail == 0) != (o.result == "ok") {
                            ctx.custom_violation("c13", format!("fail={} but run() returned {}", fail, o.result), case, json!(null), json!(null));
                        }
                    }
                }
            }
        },
    ));
    units.push(Unit::new(
        "slow-bus",
        1,
        "guests that first reprogram the wait-state registers so that single instructions are charged 86 states or more (charge x3 no longer fits 8 bits): accounting must still add exactly the charged amount",
        move |ctx, _| {
            let mut pair = Pair::new();
            let p = build(&ctx.isa, 7, 4, 0);
            let (o, v) = run_checked(&mut pair, &p, 1000);
            ctx.st.cases += 1;
            ctx.st.nontrivial += 1;
            let case = json!({"shape": 7, "n": 4, "fail": 0});
            if let Some(msg) = v {
                ctx.custom_violation("c13", msg, case, json!(null), json!({"result": o.result, "state_sum": o.state_sum}));
            } else if o.result != "ok" {
                ctx.custom_violation("c13", format!("slow-bus guest did not finish: {}", o.result), case, json!(null), json!(null));
            }
        },
    ));
    units
}

pub fn c13(tier: Tier, _seed: u64) -> Prop {
    Prop {
        id: "C13",
        level: "model_checking",
        rule: "every generated terminating guest is run to completion through the real Cpu::run(); at every loop iteration the run-loop hook compares run()'s state with a twin real CPU stepped by the harness (try_interrupt; fetch+exec; update_modules) and with the accounting reference (total += charged states x constant factor; one sync message per crossing of a multiple of 2,000,000; success exactly when PC equals the exit address; the failing instruction's own error otherwise); loop counts are enumerated completely in a window of +-3 around every threshold; non-trivial = every run".into(),
        assumptions: vec![
            "the speed factor between charged states and the cumulative count is taken from the first instruction of each run and must then be constant (the property does not fix its value)".into(),
            "host-speed independence cannot be enumerated without a clock seam (none is added: it would rewrite existing lines); what is shown per program is that run()'s result equals a computation with no clock in it, plus a repeated run under whatever load the 16 parallel shards create (supplementary sampling)".into(),
            "thresholds: 1-2 (quick) / 1,2,3,5 (thorough) multiples of 2,000,000 states per shape".into(),
        ],
        units: {
            let mut u = c13_units(tier);
            u.push(super::realbin::c13_unit());
            u.push(super::realbin::c13_socket_unit(tier == Tier::Thorough));
            u
        },
        extra: Box::new(|m| {
            let mut ins = 0u64;
            let mut runs = 0u64;
            for (_, st) in m.iter() {
                ins += st.notes.get("instructions executed through run()").copied().unwrap_or(0);
                runs += st.cases;
            }
            json!({"states": ins.max(1), "transitions": ins.max(1), "traces_validated_against_impl": runs, "complete_runs": runs})
        }),
        profiles: vec!["release"],
    }
}

pub fn replay_c13(case: &Value) -> bool {
    let isa = Isa::new();
    let mut pair = Pair::new();
    let shape = case["shape"].as_u64().unwrap_or(1) as usize;
    let p = build_pad(&isa, shape, case["n"].as_u64().unwrap_or(1) as u32, case["fail"].as_u64().unwrap_or(0) as usize, case["pad"].as_u64().unwrap_or(0) as usize);
    if let Some(hl) = case["host_lines"].as_array() {
        pair.host_lines = hl.iter().map(|x| (x[0].as_u64().unwrap_or(0), x[1].as_str().unwrap_or("").to_string())).collect();
    }
    if let Some(st) = case["stalls"].as_array() {
        pair.stalls = st.iter().map(|x| (x[0].as_u64().unwrap_or(0), x[1].as_u64().unwrap_or(0))).collect();
    }
    let (o, v) = run_checked(&mut pair, &p, 50_000_000);
    println!("{}: result {} state_sum {} instructions {} syncs {}", p.desc, o.result, o.state_sum, o.instructions, o.syncs);
    match v {
        Some(m) => {
            println!("FAILS: {}", m);
            false
        }
        None => true,
    }
}
