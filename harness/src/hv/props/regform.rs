//! Generic enumeration of register / immediate instruction forms (C01 reg+imm rows, C02, C03):
//! shape V (fixed registers x all / covering operand values x CCR) and
//! shape R (all register numbers in every field x covering values x K16).

use crate::hv::dom::{self, K16, K4};
use crate::hv::e1::{Case, Ctx};
use crate::hv::isa::{Fields, Isa, Sem, Sz, ROWS};
use crate::hv::sem::{get_r, set_r};
use crate::hv::shard::{chunk_range, Tier, Unit};

#[derive(Clone, Copy, PartialEq, Eq, Debug)]
enum Src {
    None,
    Reg(Sz),
    Imm(Sz),
}

fn shape(sem: Sem) -> Option<(Sz, Src)> {
    Some(match sem {
        Sem::Alu2 { sz, imm, .. } => (sz, if imm { Src::Imm(sz) } else { Src::Reg(sz) }),
        Sem::Alu1 { sz, .. } => (sz, Src::None),
        Sem::Adds(_) | Sem::Subs(_) => (Sz::L, Src::None),
        Sem::Mulxu(Sz::B) | Sem::Divxu(Sz::B) => (Sz::W, Src::Reg(Sz::B)),
        Sem::Mulxu(_) | Sem::Divxu(_) => (Sz::L, Src::Reg(Sz::W)),
        Sem::StcB => (Sz::B, Src::None),
        Sem::Mov { sz, mode: crate::hv::isa::Mode::Reg, .. } => (sz, Src::Reg(sz)),
        Sem::Mov { sz, mode: crate::hv::isa::Mode::Imm, .. } => (sz, Src::Imm(sz)),
        _ => return None,
    })
}

fn all_vals(sz: Sz, seed: u64) -> Vec<u32> {
    match sz {
        Sz::B => (0..256).collect(),
        Sz::W => (0..65536).collect(),
        Sz::L => {
            let mut v = dom::v32(seed);
            v.extend(dom::v32_shifted());
            v.sort();
            v.dedup();
            v
        }
    }
}

fn cov_vals(sz: Sz, seed: u64) -> Vec<u32> {
    match sz {
        Sz::B => dom::v8cov(),
        Sz::W => dom::v16cov(seed),
        Sz::L => dom::v32(seed),
    }
}

/// default (non-overlapping) register fields for shape V
fn default_fields(dsz: Sz, src: Src) -> Fields {
    let mut f = Fields::default();
    f.rd = match dsz {
        Sz::B => 2,  // R2H
        Sz::W => 10, // E2
        Sz::L => 2,
    };
    f.rs = match src {
        Src::Reg(Sz::B) => 9, // R1L
        Src::Reg(Sz::W) => 9, // E1
        Src::Reg(Sz::L) => 1,
        _ => 0,
    };
    f
}

fn sticky_code(ctx: &mut Ctx, pc: u32, code: &[u8]) -> Case {
    let c0 = Case::new(pc, code);
    ctx.m.end_sticky();
    let bytes = c0.code;
    ctx.m.poke_bytes_sticky(pc, &bytes);
    let mut c = c0;
    c.code_sticky = true;
    c
}

/// Units for one row.  `big` = thorough tier.
pub fn units_for_row(name: &'static str, tier: Tier, seed: u64) -> Vec<Unit> {
    let isa = Isa::new();
    let row = isa.row(name);
    let sem = ROWS[row].sem;
    let (dsz, src) = shape(sem).unwrap_or_else(|| panic!("regform: unsupported row {}", name));
    let mut units = Vec::new();
    let thorough = tier == Tier::Thorough;

    // ------------------------------------------------------------ shape V
    match src {
        Src::None => {
            if thorough && dsz == Sz::L {
                units.push(Unit::new(&format!("{}/Vfull32", name), 4096, "all 2^32 destination values (CCR 00 for even, ff for odd values) (complete)", move |ctx, chunk| {
                    let f = default_fields(dsz, src);
                    let code = ctx.isa.encode(row, &f);
                    let mut c = sticky_code(ctx, dom::CODE_RAM, &code);
                    let mut er = dom::background_regs();
                    ctx.count_forms = false;
                    let lo = (chunk as u32) << 20;
                    for k in 0..(1u32 << 20) {
                        set_r(&mut er, dsz, f.rd, lo | k);
                        c.er = er;
                        c.ccr = if k & 1 == 0 { 0x00 } else { 0xff };
                        ctx.run(&c);
                    }
                    ctx.count_forms = true;
                }));
            }
            let vals = all_vals(dsz, seed);
            let n = vals.len() as u64;
            let chunks = (n / 1024).clamp(1, 64);
            let dom = format!("{} destination values (size {:?}: {}) x all 256 CCR, fixed register", n, dsz, if dsz == Sz::L { "covering set V32 + x<<k family" } else { "all" });
            units.push(Unit::new(&format!("{}/V", name), chunks, &dom, move |ctx, chunk| {
                let f = default_fields(dsz, src);
                let code = ctx.isa.encode(row, &f);
                let mut c = sticky_code(ctx, dom::CODE_RAM, &code);
                let base = dom::background_regs();
                let (lo, hi) = chunk_range(n, chunks, chunk);
                for i in lo..hi {
                    let mut er = base;
                    set_r(&mut er, dsz, f.rd, vals[i as usize]);
                    c.er = er;
                    for ccr in 0..=255u8 {
                        c.ccr = ccr;
                        ctx.run(&c);
                    }
                }
            }));
        }
        Src::Reg(ssz) | Src::Imm(ssz) => {
            let is_imm = matches!(src, Src::Imm(_));
            if thorough && ssz == Sz::L && dsz == Sz::L && !is_imm {
                // every 32-bit value of one operand against four fixed values of the other, in both roles
                units.push(Unit::new(&format!("{}/Vfull32", name), 4096, "all 2^32 values of one operand x the other operand in {1, 0xffffffff}, in both roles x CCR 00 (complete sweep of one operand; register forms)", move |ctx, chunk| {
                    let mut f = default_fields(dsz, src);
                    let base = dom::background_regs();
                    ctx.count_forms = false;
                    let fixed = [1u32, 0xffff_ffff];
                    let lo = (chunk as u32) << 20;
                    // role 1: source / immediate fixed, destination sweeps
                    for &a in fixed.iter() {
                        if is_imm {
                            f.data = a;
                        }
                        let code = ctx.isa.encode(row, &f);
                        let mut c = sticky_code(ctx, dom::CODE_RAM, &code);
                        let mut er = base;
                        if !is_imm {
                            set_r(&mut er, ssz, f.rs, a);
                        }
                        c.ccr = 0;
                        for k in 0..(1u32 << 20) {
                            set_r(&mut er, dsz, f.rd, lo | k);
                            c.er = er;
                            ctx.run(&c);
                        }
                    }
                    // role 2: destination fixed, source sweeps (register forms: all; immediate forms re-encode per value: stride 4096)
                    if !is_imm {
                        let code = ctx.isa.encode(row, &f);
                        let mut c = sticky_code(ctx, dom::CODE_RAM, &code);
                        c.ccr = 0;
                        for &b in fixed.iter() {
                            let mut er = base;
                            set_r(&mut er, dsz, f.rd, b);
                            for k in 0..(1u32 << 20) {
                                set_r(&mut er, ssz, f.rs, lo | k);
                                c.er = er;
                                ctx.run(&c);
                            }
                        }
                    } else {
                        for k in (0..(1u32 << 20)).step_by(4096) {
                            f.data = lo | k | (chunk as u32 & 0xfff);
                            let code = ctx.isa.encode(row, &f);
                            let mut c = sticky_code(ctx, dom::CODE_RAM, &code);
                            c.ccr = 0;
                            for &b in fixed.iter() {
                                let mut er = base;
                                set_r(&mut er, dsz, f.rd, b);
                                c.er = er;
                                ctx.run(&c);
                            }
                        }
                    }
                    ctx.count_forms = true;
                }));
            }
            let small = ssz == Sz::B && (dsz == Sz::B);
            if small {
                // every pair x all 256 CCR
                units.push(Unit::new(&format!("{}/V", name), 256, "all 256 x 256 operand pairs x all 256 CCR values (complete)", move |ctx, chunk| {
                    let mut f = default_fields(dsz, src);
                    let base = dom::background_regs();
                    let a = chunk as u32; // source / immediate value
                    if is_imm {
                        f.data = a;
                    }
                    let code = ctx.isa.encode(row, &f);
                    let mut c = sticky_code(ctx, dom::CODE_RAM, &code);
                    for b in 0..256u32 {
                        let mut er = base;
                        set_r(&mut er, dsz, f.rd, b);
                        if !is_imm {
                            set_r(&mut er, ssz, f.rs, a);
                        }
                        c.er = er;
                        for ccr in 0..=255u8 {
                            c.ccr = ccr;
                            ctx.run(&c);
                        }
                    }
                }));
            } else if ssz == Sz::B && dsz == Sz::W {
                // MULXU.B / DIVXU.B: all 65536 x 256
                let ccrs: Vec<u8> = if thorough { K16.to_vec() } else { vec![0x00, 0xff] };
                let dom = format!("all 65536 destination words x all 256 source bytes x CCR in {:02x?} (complete)", ccrs);
                units.push(Unit::new(&format!("{}/V", name), 256, &dom, move |ctx, chunk| {
                    let f = default_fields(dsz, src);
                    let code = ctx.isa.encode(row, &f);
                    let mut c = sticky_code(ctx, dom::CODE_RAM, &code);
                    let base = dom::background_regs();
                    let a = chunk as u32;
                    for b in 0..65536u32 {
                        let mut er = base;
                        set_r(&mut er, dsz, f.rd, b);
                        set_r(&mut er, ssz, f.rs, a);
                        c.er = er;
                        for &ccr in &ccrs {
                            c.ccr = ccr;
                            ctx.run(&c);
                        }
                    }
                }));
            } else if ssz == Sz::W && dsz == Sz::W {
                let cov = dom::v16cov(seed);
                if thorough {
                    units.push(Unit::new(&format!("{}/Vfull", name), 4096, "all 2^32 16-bit operand pairs x CCR in {00,ff} (complete)", move |ctx, chunk| {
                        let mut f = default_fields(dsz, src);
                        let base = dom::background_regs();
                        ctx.count_forms = false;
                        for a in (chunk as u32 * 16)..(chunk as u32 * 16 + 16) {
                            if is_imm {
                                f.data = a;
                            }
                            let code = ctx.isa.encode(row, &f);
                            let mut c = sticky_code(ctx, dom::CODE_RAM, &code);
                            let mut er = base;
                            if !is_imm {
                                set_r(&mut er, ssz, f.rs, a);
                            }
                            for b in 0..65536u32 {
                                set_r(&mut er, dsz, f.rd, b);
                                c.er = er;
                                c.ccr = 0x00;
                                ctx.run(&c);
                                c.ccr = 0xff;
                                ctx.run(&c);
                            }
                        }
                        ctx.count_forms = true;
                    }));
                }
                let ncov = cov.len();
                let dom = format!("(all 65536 a x {} covering b) and (covering a x all b) x K16 CCR", ncov);
                let cov2 = cov.clone();
                units.push(Unit::new(&format!("{}/V", name), 64, &dom, move |ctx, chunk| {
                    let mut f = default_fields(dsz, src);
                    let base = dom::background_regs();
                    // part 1: source/immediate from the covering set, destination all values
                    for (k, &a) in cov2.iter().enumerate() {
                        if k as u64 % 64 != chunk {
                            continue;
                        }
                        if is_imm {
                            f.data = a;
                        }
                        let code = ctx.isa.encode(row, &f);
                        let mut c = sticky_code(ctx, dom::CODE_RAM, &code);
                        let mut er = base;
                        if !is_imm {
                            set_r(&mut er, ssz, f.rs, a);
                        }
                        for b in 0..65536u32 {
                            set_r(&mut er, dsz, f.rd, b);
                            c.er = er;
                            for &ccr in &K16 {
                                c.ccr = ccr;
                                ctx.run(&c);
                            }
                        }
                    }
                    // part 2: source/immediate all values, destination from the covering set
                    let (lo, hi) = chunk_range(65536, 64, chunk);
                    for a in lo as u32..hi as u32 {
                        if is_imm {
                            f.data = a;
                        }
                        let code = ctx.isa.encode(row, &f);
                        let mut c = sticky_code(ctx, dom::CODE_RAM, &code);
                        let mut er = base;
                        if !is_imm {
                            set_r(&mut er, ssz, f.rs, a);
                        }
                        for &b in cov2.iter() {
                            set_r(&mut er, dsz, f.rd, b);
                            c.er = er;
                            for &ccr in &K4 {
                                c.ccr = ccr;
                                ctx.run(&c);
                            }
                        }
                    }
                }));
            } else if ssz == Sz::W && dsz == Sz::L {
                // MULXU.W / DIVXU.W: V32 x all 16-bit sources
                let v = dom::v32(seed);
                let nv = v.len() as u64;
                let dom = format!("{} covering 32-bit destinations x all 65536 source words x CCR in {{00,ff}}", nv);
                units.push(Unit::new(&format!("{}/V", name), nv, &dom, move |ctx, chunk| {
                    let f = default_fields(dsz, src);
                    let code = ctx.isa.encode(row, &f);
                    let mut c = sticky_code(ctx, dom::CODE_RAM, &code);
                    let base = dom::background_regs();
                    let b = v[chunk as usize];
                    for a in 0..65536u32 {
                        let mut er = base;
                        set_r(&mut er, dsz, f.rd, b);
                        set_r(&mut er, ssz, f.rs, a);
                        c.er = er;
                        c.ccr = 0;
                        ctx.run(&c);
                        c.ccr = 0xff;
                        ctx.run(&c);
                    }
                }));
            } else {
                // L x L
                let v = dom::v32(seed);
                let nv = v.len() as u64;
                let dom = format!("{0} x {0} covering 32-bit operand pairs (carry-chain boundaries, single bits, seed-rotated) x K16 CCR", nv);
                units.push(Unit::new(&format!("{}/V", name), nv.min(16), &dom, move |ctx, chunk| {
                    let mut f = default_fields(dsz, src);
                    let base = dom::background_regs();
                    let chunks = nv.min(16);
                    let (lo, hi) = chunk_range(nv, chunks, chunk);
                    for ai in lo..hi {
                        let a = v[ai as usize];
                        if is_imm {
                            f.data = a;
                        }
                        let code = ctx.isa.encode(row, &f);
                        let mut c = sticky_code(ctx, dom::CODE_RAM, &code);
                        for &b in v.iter() {
                            let mut er = base;
                            set_r(&mut er, dsz, f.rd, b);
                            if !is_imm {
                                set_r(&mut er, ssz, f.rs, a);
                            }
                            c.er = er;
                            for &ccr in &K16 {
                                c.ccr = ccr;
                                ctx.run(&c);
                            }
                        }
                    }
                }));
            }
        }
    }

    // ------------------------------------------------------------ shape R: all register numbers
    {
        let nd: u32 = if dsz == Sz::L { 8 } else { 16 };
        let ns: u32 = match src {
            Src::Reg(Sz::L) => 8,
            Src::Reg(_) => 16,
            _ => 1,
        };
        let dcov = cov_vals(dsz, seed);
        let scov: Vec<u32> = match src {
            Src::Reg(s) | Src::Imm(s) => {
                let mut v = cov_vals(s, seed);
                v.truncate(24);
                v
            }
            Src::None => vec![0],
        };
        let mut dcov = dcov;
        dcov.truncate(24);
        let dom = format!("all {} x {} register numbers (incl. RnH/RnL, Rn/En, overlapping pairs) x {} x {} covering values x K16 CCR", ns, nd, scov.len(), dcov.len());
        units.push(Unit::new(&format!("{}/R", name), nd as u64, &dom, move |ctx, chunk| {
            let base = dom::background_regs();
            let rd = chunk as u8;
            for rs in 0..ns as u8 {
                for &a in scov.iter() {
                    let mut f = Fields::default();
                    f.rd = rd;
                    f.rs = rs;
                    if matches!(src, Src::Imm(_)) {
                        f.data = a;
                    }
                    let code = ctx.isa.encode(row, &f);
                    let mut c = sticky_code(ctx, dom::CODE_RAM, &code);
                    for &b in dcov.iter() {
                        let mut er = base;
                        set_r(&mut er, dsz, rd, b);
                        if let Src::Reg(ssz) = src {
                            set_r(&mut er, ssz, rs, a);
                        }
                        c.er = er;
                        for &ccr in &K16 {
                            c.ccr = ccr;
                            ctx.run(&c);
                        }
                    }
                }
            }
        }));
    }
    units
}
