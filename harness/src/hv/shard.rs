//! Units of enumeration, process-level sharding, merging, evidence and verdict.
//!
//! A property check is a list of *units* (named finite sub-domains); a unit is split
//! into chunks; chunks are dealt round-robin to N single-threaded worker *processes*
//! (threads do not scale: `Cpu::fetch` takes a global RwLock, DESIGN.md §3.4).
//! Results are merged in a fixed order, so reports do not depend on N.

use super::e1::{Case, Ctx, Stats, Violation};
use super::known::{self, Known};
use serde_json::{json, Value};
use std::collections::BTreeMap;
use std::io::Write;
use std::path::PathBuf;
use std::process::{Command, Stdio};
use std::time::{Duration, Instant};

pub struct Unit {
    pub name: String,
    pub chunks: u64,
    /// what the unit enumerates, in words (goes to the evidence)
    pub domain: String,
    /// is the declared domain enumerated completely (when no cap is hit)
    pub exhaustive: bool,
    pub run: Box<dyn Fn(&mut Ctx, u64)>,
}

impl Unit {
    pub fn new(name: &str, chunks: u64, domain: &str, run: impl Fn(&mut Ctx, u64) + 'static) -> Unit {
        Unit { name: name.to_string(), chunks: chunks.max(1), domain: domain.to_string(), exhaustive: true, run: Box::new(run) }
    }
}

pub struct Prop {
    pub id: &'static str,
    pub level: &'static str,
    pub rule: String,
    pub assumptions: Vec<String>,
    pub units: Vec<Unit>,
    /// extra coverage keys computed by the parent after merging (states / transitions for explorers)
    pub extra: Box<dyn Fn(&BTreeMap<String, Stats>) -> Value>,
    /// build profiles the units are run under (C15: release and ovf)
    pub profiles: Vec<&'static str>,
}

#[derive(Clone, Copy, PartialEq, Eq, Debug)]
pub enum Tier {
    Quick,
    Thorough,
}
impl Tier {
    pub fn name(self) -> &'static str {
        match self {
            Tier::Quick => "quick",
            Tier::Thorough => "thorough",
        }
    }
    pub fn parse(s: &str) -> Tier {
        if s == "thorough" {
            Tier::Thorough
        } else {
            Tier::Quick
        }
    }
}

pub fn verif_dir() -> PathBuf {
    PathBuf::from(std::env::var("VERIF_DIR").unwrap_or_else(|_| "/verif".to_string()))
}

pub fn seed() -> u64 {
    std::env::var("VERIF_SEED").ok().and_then(|s| s.parse::<i64>().ok()).map(|x| x as u64).unwrap_or(0)
}

pub fn jobs() -> usize {
    std::env::var("VERIF_JOBS").ok().and_then(|s| s.parse().ok()).unwrap_or_else(|| std::thread::available_parallelism().map(|n| n.get()).unwrap_or(4)).max(1)
}

fn wall_cap(tier: Tier) -> Duration {
    let default = match tier {
        Tier::Quick => 600,
        Tier::Thorough => 7200,
    };
    Duration::from_secs(std::env::var("VERIF_WALL_CAP").ok().and_then(|s| s.parse().ok()).unwrap_or(default))
}

/// Worker process: run every task whose index is congruent to `shard` modulo `n`.
pub fn run_shard(prop: &Prop, tier: Tier, shard: usize, n: usize, out: &PathBuf, known: &[Known]) -> i32 {
    super::panics::install_quiet_hook();
    *crate::setting::ENABLE_PRINT_OPCODE.write().unwrap() = false;
    let deadline = Instant::now() + wall_cap(tier);
    // watchdog: a shard that is stuck (e.g. in a blocking read of an E6 unit) ends as a machinery error
    {
        let cap = wall_cap(tier) + Duration::from_secs(120);
        std::thread::spawn(move || {
            std::thread::sleep(cap);
            eprintln!("shard watchdog: wall cap exceeded, giving up");
            std::process::exit(3);
        });
    }
    let mut ctx = Ctx::new();
    ctx.known_keys = known.iter().filter(|k| k.is_known).map(|k| k.key.clone()).collect();
    ctx.known_keys.sort();
    ctx.known_keys.dedup();
    ctx.foreign_keys = std::env::var("H8V_FOREIGN_KEYS").unwrap_or_default().split(',').filter(|x| !x.is_empty()).map(|x| x.to_string()).collect();
    // canary (DESIGN.md §4.3): the comparison itself must be able to fail.  For the ISA-level properties
    // shard 0 perturbs the reference of three fixed cases in three ways and requires nine mismatches.
    if shard == 0 && matches!(prop.id, "C01" | "C02" | "C03" | "C04" | "C05" | "C06" | "C07" | "C08") {
        use super::e1::Canary;
        let cases: [(&[u8], u32); 3] = [(&[0xf8, 0x5a], 0), (&[0x08, 0x92], 0), (&[0x68, 0x9a], 0x00ffd000)];
        let mut fired = 0;
        for cn in [Canary::FlipCcrBit(3), Canary::BumpPc, Canary::FlipErBit(0)] {
            for (code, er1) in cases.iter() {
                let mut c = Case::new(0xffc000, code);
                c.er = super::dom::background_regs();
                c.er[1] = if *er1 != 0 { *er1 } else { c.er[1] };
                ctx.canary = Some(cn);
                ctx.frozen = true;
                let before = ctx.canary_fired;
                ctx.run(&c);
                fired += ctx.canary_fired - before;
            }
        }
        ctx.canary = None;
        ctx.frozen = false;
        ctx.st = Stats::new();
        if fired != 9 {
            eprintln!("canary: only {} of 9 perturbed references were noticed by the comparison", fired);
            return 4;
        }
    }
    let mut results: BTreeMap<String, Value> = BTreeMap::new();
    let mut task = 0usize;
    // developer aid (never a verdict: the parent turns the note into exit 2): run only units whose name contains the text
    let only = std::env::var("VERIF_DEV_ONLY_UNITS").ok().filter(|s| !s.is_empty());
    for u in &prop.units {
        let mut st = Stats::new();
        if let Some(o) = &only {
            if !u.name.contains(o.as_str()) {
                *st.notes.entry("MACHINERY: developer unit filter VERIF_DEV_ONLY_UNITS is set; this run is not a verdict".into()).or_insert(0) += 1;
                let mut j = st.to_json();
                j["chunks_run"] = json!(0);
                j["capped"] = json!(false);
                j["stopped_early"] = json!(false);
                results.insert(u.name.clone(), j);
                task += u.chunks as usize;
                continue;
            }
        }
        let mut capped = false;
        let mut ran = 0u64;
        ctx.unit = u.name.clone();
        ctx.stop = false;
        for chunk in 0..u.chunks {
            let mine = task % n == shard;
            task += 1;
            if !mine {
                continue;
            }
            if Instant::now() > deadline {
                capped = true;
                continue;
            }
            ctx.st = Stats::new();
            ctx.paranoid = false;
            ctx.frozen = false;
            ctx.stray_detected = false;
            (u.run)(&mut ctx, chunk);
            ctx.checkpoint();
            ctx.m.end_sticky();
            if ctx.stray_detected {
                // locate the offending case exactly: same chunk again, full comparison after every case
                ctx.st.paranoid_reruns += 1;
                ctx.paranoid = true;
                ctx.frozen = true;
                ctx.stray_detected = false;
                let was_stopped = ctx.stop;
                ctx.stop = false;
                (u.run)(&mut ctx, chunk);
                ctx.m.end_sticky();
                ctx.paranoid = false;
                ctx.frozen = false;
                ctx.stop = ctx.stop || was_stopped;
                if let Some(a) = ctx.m.full_compare() {
                    ctx.m.resync_from_shadow();
                    *ctx.st.notes.entry(format!("residual memory difference after locating re-run at {:06x}", a)).or_insert(0) += 1;
                }
            }
            ran += 1;
            ctx.st.fold();
            st.merge(&ctx.st);
        }
        let mut j = st.to_json();
        j["chunks_run"] = json!(ran);
        j["capped"] = json!(capped);
        j["stopped_early"] = json!(ctx.stop);
        results.insert(u.name.clone(), j);
    }
    let doc = json!({"shard": shard, "n": n, "units": results});
    let tmp = out.with_extension("tmp");
    if std::fs::write(&tmp, serde_json::to_vec(&doc).unwrap()).is_err() {
        return 2;
    }
    if std::fs::rename(&tmp, out).is_err() {
        return 2;
    }
    0
}

pub struct Outcome {
    pub exit: i32,
}

/// Parent: witnesses, canary, spawn shards, merge, evidence, verdict lines.
pub fn run_check(prop: &Prop, tier: Tier) -> i32 {
    let t0 = Instant::now();
    let vd = verif_dir();
    let work = vd.join(".work");
    let _ = std::fs::create_dir_all(&work);
    let _ = std::fs::create_dir_all(vd.join("evidence"));
    let _ = std::fs::create_dir_all(vd.join("replays"));
    let seed = seed();
    let all_known = match known::load(&vd.join("KNOWN_FINDINGS.txt")) {
        Ok(k) => k,
        Err(e) => {
            println!("MACHINERY-ERROR: {}", e);
            return 2;
        }
    };
    let known: Vec<Known> = all_known.into_iter().filter(|k| k.property == prop.id).collect();
    for k in &known {
        if k.is_known && !known::has_explainer(&k.key) {
            println!("MACHINERY-ERROR: known finding key '{}' has no explainer compiled into the harness", k.key);
            return 2;
        }
    }

    // stale counterexamples of earlier runs of this property must not be mistaken for current ones
    if let Ok(rd) = std::fs::read_dir(vd.join("replays")) {
        for e in rd.flatten() {
            let name = e.file_name().to_string_lossy().to_string();
            if name.starts_with(&format!("{}-", prop.id)) && name.ends_with(".json") {
                let _ = std::fs::remove_file(e.path());
            }
        }
    }

    // ---- spawn shards (once per build profile)
    let n = jobs();
    let this_exe = std::env::current_exe().expect("current_exe");
    let mut merged: BTreeMap<String, Stats> = BTreeMap::new();
    let mut chunks_run: BTreeMap<String, u64> = BTreeMap::new();
    let mut capped_units: Vec<String> = Vec::new();
    let mut stopped_units: Vec<String> = Vec::new();
    let multi = prop.profiles.len() > 1;
    let key_of = |profile: &str, unit: &str| if multi { format!("{}:{}", profile, unit) } else { unit.to_string() };
    for profile in prop.profiles.iter() {
        let exe = if *profile == "release" { this_exe.clone() } else { PathBuf::from(this_exe.display().to_string().replace("/release/", &format!("/{}/", profile))) };
        if !exe.exists() {
            println!("MACHINERY-ERROR: harness binary for profile {} not built: {}", profile, exe.display());
            return 2;
        }
        let mut children = Vec::new();
        for i in 0..n {
            let out = work.join(format!("{}.{}.{}.{}.json", prop.id, tier.name(), profile, i));
            let _ = std::fs::remove_file(&out);
            let child = Command::new(&exe)
                .args(["shard", prop.id, tier.name(), &i.to_string(), &n.to_string(), out.to_str().unwrap_or("")])
                .env("RUST_BACKTRACE", "0")
                .env("RUST_LIB_BACKTRACE", "0")
                .env("VERIF_SEED", (seed as i64).to_string())
                .stdin(Stdio::null())
                // guest console output (TRAPA #0 write) goes to the shard's stdout: nobody needs it, and a pipe that is
                // only read after the shard has ended would block a shard that prints more than the pipe holds
                .stdout(Stdio::null())
                .stderr(Stdio::piped())
                .spawn();
            match child {
                Ok(c) => children.push((i, out, c)),
                Err(e) => {
                    println!("MACHINERY-ERROR: cannot spawn shard {}: {}", i, e);
                    return 2;
                }
            }
        }
        let mut machinery_error = false;
        let mut shard_docs: Vec<(usize, Value)> = Vec::new();
        for (i, out, c) in children {
            let o = c.wait_with_output();
            let ok = matches!(&o, Ok(o) if o.status.success());
            if !ok {
                machinery_error = true;
                if let Ok(o) = &o {
                    println!("MACHINERY-ERROR: shard {} ({}) failed: status {:?}\n{}", i, profile, o.status, String::from_utf8_lossy(&o.stderr).chars().take(2000).collect::<String>());
                }
                continue;
            }
            match std::fs::read(&out).ok().and_then(|b| serde_json::from_slice::<Value>(&b).ok()) {
                Some(doc) => shard_docs.push((i, doc)),
                None => {
                    machinery_error = true;
                    println!("MACHINERY-ERROR: shard {} ({}) produced no result file", i, profile);
                }
            }
            let _ = std::fs::remove_file(&out);
        }
        if machinery_error {
            return 2;
        }
        shard_docs.sort_by_key(|(i, _)| *i);
        for u in &prop.units {
            let mut st = Stats::new();
            let mut ran = 0;
            let key = key_of(profile, &u.name);
            for (_, doc) in &shard_docs {
                let j = &doc["units"][&u.name];
                if j.is_null() {
                    continue;
                }
                st.merge(&Stats::from_json(j));
                ran += j["chunks_run"].as_u64().unwrap_or(0);
                if j["capped"].as_bool().unwrap_or(false) && !capped_units.contains(&key) {
                    capped_units.push(key.clone());
                }
                if j["stopped_early"].as_bool().unwrap_or(false) && !stopped_units.contains(&key) {
                    stopped_units.push(key.clone());
                }
            }
            for v in st.violations.iter_mut() {
                if multi {
                    v.unit = key.clone();
                }
            }
            chunks_run.insert(key.clone(), ran);
            merged.insert(key, st);
        }
    }
    // unit list in report order: (key, unit)
    let mut report: Vec<(String, &Unit)> = Vec::new();
    for profile in prop.profiles.iter() {
        for u in &prop.units {
            report.push((key_of(profile, &u.name), u));
        }
    }

    // ---- verdict
    let mut total = Stats::new();
    for (_, st) in &merged {
        total.merge(st);
    }
    let mach: Vec<String> = total.notes.keys().filter(|k| k.starts_with("MACHINERY")).cloned().collect();
    if !mach.is_empty() {
        for m in mach.iter() {
            println!("MACHINERY-ERROR: {}", m);
        }
        if mach.iter().all(|m| m.contains("VERIF_DEV_ONLY_UNITS")) {
            // developer aid: show what the selected units found, still exit 2 (never a verdict, no evidence written)
            for (name, st) in &merged {
                if st.cases > 0 || st.violations_total > 0 {
                    println!("  dev unit={} cases={} violations={} notes={:?}", name, st.cases, st.violations_total, st.notes.iter().filter(|(k, _)| !k.starts_with("MACHINERY")).collect::<Vec<_>>());
                    for v in st.violations.iter().take(3) {
                        println!("    what={} case={} sequence={}", v.what, compact(&v.case), v.case.get("sequence").map(|x| compact(x)).unwrap_or_default());
                    }
                }
            }
        }
        return 2;
    }
    let mut exit = 0;
    // known findings: one line per key
    let mut known_lines = Vec::new();
    for (k, (nn, first)) in &total.known {
        let desc = known.iter().find(|x| x.is_known && k.split('+').any(|p| p == x.key)).map(|x| x.text.clone()).unwrap_or_default();
        known_lines.push(format!("KNOWN-FINDING: property={} key={} {} ({} cases, first: {})", prop.id, k, desc, nn, compact(first)));
    }
    for k in known.iter().filter(|k| k.is_known) {
        if !total.known.keys().any(|x| x.split('+').any(|p| p == k.key)) {
            println!("NOTE known finding not observed: property={} key={}", prop.id, k.key);
        }
    }
    for l in &known_lines {
        println!("{}", l);
    }
    let mut replay_paths = Vec::new();
    if total.violations_total > 0 {
        exit = 1;
        // stable order: by unit order
        let mut nfile = 0;
        for (key, _u) in report.iter() {
            if merged[key].violations_total > 0 {
                let first = merged[key].violations.first().map(|v| v.what.clone()).unwrap_or_default();
                println!("  unit-summary unit={} violations={} first={}", key, merged[key].violations_total, first);
            }
            for v in merged[key].violations.iter().take(1) {
                if nfile >= 60 {
                    break;
                }
                let path = vd.join("replays").join(format!("{}-{}.json", prop.id, nfile));
                let doc = json!({"property": prop.id, "engine": v.engine, "violation": v.to_json()});
                let _ = std::fs::write(&path, serde_json::to_vec_pretty(&doc).unwrap());
                println!("VIOLATION property={} replay={}", prop.id, path.display());
                println!("  unit={} what={}", v.unit, v.what);
                replay_paths.push(path.display().to_string());
                nfile += 1;
            }
        }
    }

    // ---- evidence
    let exhaustive = capped_units.is_empty() && stopped_units.is_empty() && prop.units.iter().all(|u| u.exhaustive);
    let mut units_json = serde_json::Map::new();
    for (key, u) in report.iter() {
        let st = &merged[key];
        units_json.insert(
            key.clone(),
            json!({
                "domain": u.domain, "chunks": u.chunks, "chunks_run": chunks_run[key],
                "cases": st.cases, "nontrivial": st.nontrivial,
                "expected_ok": st.exp_ok, "expected_err": st.exp_err, "left_open": st.exp_any, "left_open_but_executed_by_impl": st.any_executed,
                "impl_ok": st.act_ok, "impl_err": st.act_err, "impl_panic": st.act_panic,
                "distinct_outcomes_lower_bound": st.distinct_outcomes(),
                "cycles_checked": st.cycles_checked,
                "full_memory_compares": st.full_compares, "locating_reruns": st.paranoid_reruns,
                "violations": st.violations_total,
                "complete": u.exhaustive && !capped_units.contains(key) && !stopped_units.contains(key),
                "notes": st.notes,
            }),
        );
    }
    let mut samples = total.samples.clone();
    if samples.is_empty() {
        samples.push(json!({"note": "no sample collected"}));
    }
    let mut coverage = json!({
        "evaluations": total.cases,
        "distinct_nontrivial": total.nontrivial,
        "rule": prop.rule,
        "samples": samples,
        "states": total.cases.max(1),
        "transitions": total.cases.max(1),
        "traces_validated_against_impl": total.cases,
        "exhaustive": exhaustive,
        "distinct_outcomes_lower_bound": total.distinct_outcomes(),
        "forms": total.forms,
        "units": units_json,
        "capped_units": capped_units,
        "stopped_early_units": stopped_units,
        "known_findings": total.known.iter().map(|(k, (n, _))| (k.clone(), json!(n))).collect::<BTreeMap<_, _>>(),
        "shards": n,
        "build_profiles": prop.profiles,
        "explanation": "every case is executed by the production code compiled from /repo's working tree and compared with the reference model",
    });
    let extra = (prop.extra)(&merged);
    if let (Some(c), Some(e)) = (coverage.as_object_mut(), extra.as_object()) {
        for (k, v) in e {
            c.insert(k.clone(), v.clone());
        }
    }
    let ev = json!({
        "property_id": prop.id,
        "tier": tier.name(),
        "seed": seed as i64,
        "level": prop.level,
        "coverage": coverage,
        "assumptions": prop.assumptions,
        "wall_s": t0.elapsed().as_secs_f64(),
        "violations": total.violations_total,
        "replays": replay_paths,
    });
    let evp = vd.join("evidence").join(format!("{}.json", prop.id));
    if let Err(e) = std::fs::write(&evp, serde_json::to_vec_pretty(&ev).unwrap()) {
        println!("MACHINERY-ERROR: cannot write evidence {}: {}", evp.display(), e);
        return 2;
    }
    println!(
        "{} {} tier={} cases={} nontrivial={} distinct_outcomes>={} known={} violations={} exhaustive={} wall={:.1}s",
        if exit == 0 { "PASS" } else { "FAIL" },
        prop.id,
        tier.name(),
        total.cases,
        total.nontrivial,
        total.distinct_outcomes(),
        total.known.values().map(|x| x.0).sum::<u64>(),
        total.violations_total,
        exhaustive,
        t0.elapsed().as_secs_f64()
    );
    let _ = std::io::stdout().flush();
    exit
}

pub fn compact(v: &Value) -> String {
    let s = v.to_string();
    if s.len() > 300 {
        format!("{}…", &s[..300])
    } else {
        s
    }
}

/// Helper for units: split `total` items into `chunks` contiguous ranges.
pub fn chunk_range(total: u64, chunks: u64, chunk: u64) -> (u64, u64) {
    let per = (total + chunks - 1) / chunks;
    let lo = (chunk * per).min(total);
    let hi = ((chunk + 1) * per).min(total);
    (lo, hi)
}

pub fn no_extra() -> Box<dyn Fn(&BTreeMap<String, Stats>) -> Value> {
    Box::new(|_| json!({}))
}
