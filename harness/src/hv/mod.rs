//! h8verif — model-checking harness for the Koge29 H8/3069F emulator (see /verif/DESIGN.md).
pub mod cli;
pub mod dom;
pub mod e1;
pub mod explainers;
pub mod isa;
pub mod known;
pub mod mach;
pub mod panics;
pub mod props;
pub mod sem;
pub mod shard;
