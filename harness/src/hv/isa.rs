//! Reference description of the H8/300H instruction encodings (DESIGN.md Appendix A).
//!
//! One table is the single source for (a) the assembler used by all case
//! generators and (b) the independent decoder used as C07's oracle.
//!
//! Pattern DSL, one character per nibble (blanks ignored):
//!   0-9A-F  fixed nibble
//!   s  4-bit source register field (byte: 0-7 RnH, 8-F RnL; word: 0-7 Rn, 8-F En)
//!   d  4-bit destination register field
//!   S  `0sss` 3-bit source ER, bit 3 must be 0        Z  `1sss` 3-bit source ER, bit 3 must be 1
//!   G  `0ddd` 3-bit destination ER, bit 3 must be 0
//!   a  `0aaa` address register, bit 3 must be 0       H  `1aaa` address register, bit 3 must be 1
//!   b  `0iii` bit number, bit 3 must be 0             J  `1iii` bit number, bit 3 must be 1
//!   n  4-bit bit-number register field (byte register)
//!   c  condition nibble
//!   t  `00ii` trap number
//!   x  data nibble (immediate / displacement / absolute address), collected MSB first

#[derive(Clone, Copy, PartialEq, Eq, Debug, Hash)]
pub enum Sz {
    B,
    W,
    L,
}
impl Sz {
    pub fn bytes(self) -> u32 {
        match self {
            Sz::B => 1,
            Sz::W => 2,
            Sz::L => 4,
        }
    }
    pub fn bits(self) -> u32 {
        self.bytes() * 8
    }
    pub fn mask(self) -> u32 {
        match self {
            Sz::B => 0xff,
            Sz::W => 0xffff,
            Sz::L => 0xffff_ffff,
        }
    }
    pub fn msb(self) -> u32 {
        1u32 << (self.bits() - 1)
    }
}

#[derive(Clone, Copy, PartialEq, Eq, Debug, Hash)]
pub enum Mode {
    Reg,
    Imm,
    Ind,
    D16,
    D24,
    Inc, // @ERn+  (load) / @-ERn (store)
    A8,
    A16,
    A24,
    Mind, // @@aa:8
}

#[derive(Clone, Copy, PartialEq, Eq, Debug, Hash)]
pub enum Alu2 {
    Add,
    Sub,
    Cmp,
    And,
    Or,
    Xor,
    Addx,
}

#[derive(Clone, Copy, PartialEq, Eq, Debug, Hash)]
pub enum Alu1 {
    Neg,
    Not,
    Extu,
    Inc1,
    Inc2,
    Dec1,
    Dec2,
    Shll,
    Shal,
    Shlr,
    Shar,
    Rotxl,
    Rotl,
    Rotxr,
    Rotr,
}

#[derive(Clone, Copy, PartialEq, Eq, Debug, Hash)]
pub enum BitOp {
    Bset,
    Bnot,
    Bclr,
    Btst,
    Bor,
    Bxor,
    Band,
    Bld,
    Bst,
}

#[derive(Clone, Copy, PartialEq, Eq, Debug, Hash)]
pub enum Sem {
    Mov { sz: Sz, mode: Mode, store: bool },
    Alu2 { op: Alu2, sz: Sz, imm: bool },
    Alu1 { op: Alu1, sz: Sz },
    Adds(u32),
    Subs(u32),
    Mulxu(Sz),
    Divxu(Sz),
    /// bit op; `by_reg`: bit number from register `n` (else immediate); `inv`: B I xx form; loc: Reg | Ind | A8
    Bit { op: BitOp, by_reg: bool, inv: bool, loc: Mode },
    Bcc { wide: bool },
    Jmp(Mode),
    Bsr { wide: bool },
    Jsr(Mode),
    Rts,
    Rte,
    Trapa,
    StcB,
    StcW(Mode), // Ind, D16, D24, Inc (= @-ERd), A16, A24
    Unimpl,
}

#[derive(Clone, Copy, Debug)]
pub struct Row {
    pub name: &'static str,
    pub pat: &'static str,
    pub imp: bool,
    pub sem: Sem,
}

use Alu1::*;
use BitOp::*;
use Mode::*;
use Sz::*;

const fn mov(sz: Sz, mode: Mode, store: bool) -> Sem {
    Sem::Mov { sz, mode, store }
}
const fn a2(op: Alu2, sz: Sz, imm: bool) -> Sem {
    Sem::Alu2 { op, sz, imm }
}
const fn a1(op: Alu1, sz: Sz) -> Sem {
    Sem::Alu1 { op, sz }
}
const fn bit(op: BitOp, by_reg: bool, inv: bool, loc: Mode) -> Sem {
    Sem::Bit { op, by_reg, inv, loc }
}
const fn r(name: &'static str, pat: &'static str, sem: Sem) -> Row {
    Row { name, pat, imp: true, sem }
}
const fn u(name: &'static str, pat: &'static str) -> Row {
    Row { name, pat, imp: false, sem: Sem::Unimpl }
}

pub static ROWS: &[Row] = &[
    // ---- MOV.B
    r("MOV.B Rs,Rd", "0C sd", mov(B, Reg, false)),
    r("MOV.B #xx:8,Rd", "Fd xx", mov(B, Imm, false)),
    r("MOV.B @ERs,Rd", "68 ad", mov(B, Ind, false)),
    r("MOV.B Rs,@ERd", "68 Hs", mov(B, Ind, true)),
    r("MOV.B @(d:16,ERs),Rd", "6E ad xxxx", mov(B, D16, false)),
    r("MOV.B Rs,@(d:16,ERd)", "6E Hs xxxx", mov(B, D16, true)),
    r("MOV.B @(d:24,ERs),Rd", "78 a0 6A 2d 00 xxxxxx", mov(B, D24, false)),
    r("MOV.B Rs,@(d:24,ERd)", "78 a0 6A As 00 xxxxxx", mov(B, D24, true)),
    r("MOV.B @ERs+,Rd", "6C ad", mov(B, Inc, false)),
    r("MOV.B Rs,@-ERd", "6C Hs", mov(B, Inc, true)),
    r("MOV.B @aa:8,Rd", "2d xx", mov(B, A8, false)),
    r("MOV.B Rs,@aa:8", "3s xx", mov(B, A8, true)),
    r("MOV.B @aa:16,Rd", "6A 0d xxxx", mov(B, A16, false)),
    r("MOV.B Rs,@aa:16", "6A 8s xxxx", mov(B, A16, true)),
    r("MOV.B @aa:24,Rd", "6A 2d 00 xxxxxx", mov(B, A24, false)),
    r("MOV.B Rs,@aa:24", "6A As 00 xxxxxx", mov(B, A24, true)),
    // ---- MOV.W
    r("MOV.W Rs,Rd", "0D sd", mov(W, Reg, false)),
    r("MOV.W #xx:16,Rd", "79 0d xxxx", mov(W, Imm, false)),
    r("MOV.W @ERs,Rd", "69 ad", mov(W, Ind, false)),
    r("MOV.W Rs,@ERd", "69 Hs", mov(W, Ind, true)),
    r("MOV.W @(d:16,ERs),Rd", "6F ad xxxx", mov(W, D16, false)),
    r("MOV.W Rs,@(d:16,ERd)", "6F Hs xxxx", mov(W, D16, true)),
    r("MOV.W @(d:24,ERs),Rd", "78 a0 6B 2d 00 xxxxxx", mov(W, D24, false)),
    r("MOV.W Rs,@(d:24,ERd)", "78 a0 6B As 00 xxxxxx", mov(W, D24, true)),
    r("MOV.W @ERs+,Rd", "6D ad", mov(W, Inc, false)),
    r("MOV.W Rs,@-ERd", "6D Hs", mov(W, Inc, true)),
    r("MOV.W @aa:16,Rd", "6B 0d xxxx", mov(W, A16, false)),
    r("MOV.W Rs,@aa:16", "6B 8s xxxx", mov(W, A16, true)),
    r("MOV.W @aa:24,Rd", "6B 2d 00 xxxxxx", mov(W, A24, false)),
    r("MOV.W Rs,@aa:24", "6B As 00 xxxxxx", mov(W, A24, true)),
    // ---- MOV.L
    r("MOV.L ERs,ERd", "0F ZG", mov(L, Reg, false)),
    r("MOV.L #xx:32,ERd", "7A 0G xxxxxxxx", mov(L, Imm, false)),
    r("MOV.L @ERs,ERd", "0100 69 aG", mov(L, Ind, false)),
    r("MOV.L ERs,@ERd", "0100 69 HS", mov(L, Ind, true)),
    r("MOV.L @(d:16,ERs),ERd", "0100 6F aG xxxx", mov(L, D16, false)),
    r("MOV.L ERs,@(d:16,ERd)", "0100 6F HS xxxx", mov(L, D16, true)),
    r("MOV.L @(d:24,ERs),ERd", "0100 78 a0 6B 2G 00 xxxxxx", mov(L, D24, false)),
    r("MOV.L ERs,@(d:24,ERd)", "0100 78 H0 6B AS 00 xxxxxx", mov(L, D24, true)),
    r("MOV.L @ERs+,ERd", "0100 6D aG", mov(L, Inc, false)),
    r("MOV.L ERs,@-ERd", "0100 6D HS", mov(L, Inc, true)),
    r("MOV.L @aa:16,ERd", "0100 6B 0G xxxx", mov(L, A16, false)),
    r("MOV.L ERs,@aa:16", "0100 6B 8S xxxx", mov(L, A16, true)),
    r("MOV.L @aa:24,ERd", "0100 6B 2G 00 xxxxxx", mov(L, A24, false)),
    r("MOV.L ERs,@aa:24", "0100 6B AS 00 xxxxxx", mov(L, A24, true)),
    // ---- arithmetic
    r("ADD.B #xx:8,Rd", "8d xx", a2(Alu2::Add, B, true)),
    r("ADD.B Rs,Rd", "08 sd", a2(Alu2::Add, B, false)),
    r("ADD.W #xx:16,Rd", "79 1d xxxx", a2(Alu2::Add, W, true)),
    r("ADD.W Rs,Rd", "09 sd", a2(Alu2::Add, W, false)),
    r("ADD.L #xx:32,ERd", "7A 1G xxxxxxxx", a2(Alu2::Add, L, true)),
    r("ADD.L ERs,ERd", "0A ZG", a2(Alu2::Add, L, false)),
    r("ADDX #xx:8,Rd", "9d xx", a2(Alu2::Addx, B, true)),
    r("ADDX Rs,Rd", "0E sd", a2(Alu2::Addx, B, false)),
    r("ADDS #1,ERd", "0B 0G", Sem::Adds(1)),
    r("ADDS #2,ERd", "0B 8G", Sem::Adds(2)),
    r("ADDS #4,ERd", "0B 9G", Sem::Adds(4)),
    r("INC.B Rd", "0A 0d", a1(Inc1, B)),
    r("INC.W #1,Rd", "0B 5d", a1(Inc1, W)),
    r("INC.W #2,Rd", "0B Dd", a1(Inc2, W)),
    r("INC.L #1,ERd", "0B 7G", a1(Inc1, L)),
    r("INC.L #2,ERd", "0B FG", a1(Inc2, L)),
    r("SUB.B Rs,Rd", "18 sd", a2(Alu2::Sub, B, false)),
    r("SUB.W #xx:16,Rd", "79 3d xxxx", a2(Alu2::Sub, W, true)),
    r("SUB.W Rs,Rd", "19 sd", a2(Alu2::Sub, W, false)),
    r("SUB.L #xx:32,ERd", "7A 3G xxxxxxxx", a2(Alu2::Sub, L, true)),
    r("SUB.L ERs,ERd", "1A ZG", a2(Alu2::Sub, L, false)),
    r("SUBS #1,ERd", "1B 0G", Sem::Subs(1)),
    r("SUBS #2,ERd", "1B 8G", Sem::Subs(2)),
    r("SUBS #4,ERd", "1B 9G", Sem::Subs(4)),
    r("DEC.B Rd", "1A 0d", a1(Dec1, B)),
    r("DEC.W #1,Rd", "1B 5d", a1(Dec1, W)),
    r("DEC.W #2,Rd", "1B Dd", a1(Dec2, W)),
    r("DEC.L #1,ERd", "1B 7G", a1(Dec1, L)),
    r("DEC.L #2,ERd", "1B FG", a1(Dec2, L)),
    r("CMP.B #xx:8,Rd", "Ad xx", a2(Alu2::Cmp, B, true)),
    r("CMP.B Rs,Rd", "1C sd", a2(Alu2::Cmp, B, false)),
    r("CMP.W #xx:16,Rd", "79 2d xxxx", a2(Alu2::Cmp, W, true)),
    r("CMP.W Rs,Rd", "1D sd", a2(Alu2::Cmp, W, false)),
    r("CMP.L #xx:32,ERd", "7A 2G xxxxxxxx", a2(Alu2::Cmp, L, true)),
    r("CMP.L ERs,ERd", "1F ZG", a2(Alu2::Cmp, L, false)),
    r("NEG.B Rd", "17 8d", a1(Neg, B)),
    r("NEG.W Rd", "17 9d", a1(Neg, W)),
    r("NEG.L ERd", "17 BG", a1(Neg, L)),
    r("MULXU.B Rs,Rd", "50 sd", Sem::Mulxu(B)),
    r("MULXU.W Rs,ERd", "52 sG", Sem::Mulxu(W)),
    r("DIVXU.B Rs,Rd", "51 sd", Sem::Divxu(B)),
    r("DIVXU.W Rs,ERd", "53 sG", Sem::Divxu(W)),
    // ---- logic
    r("OR.B #xx:8,Rd", "Cd xx", a2(Alu2::Or, B, true)),
    r("OR.B Rs,Rd", "14 sd", a2(Alu2::Or, B, false)),
    r("OR.W #xx:16,Rd", "79 4d xxxx", a2(Alu2::Or, W, true)),
    r("OR.W Rs,Rd", "64 sd", a2(Alu2::Or, W, false)),
    r("OR.L #xx:32,ERd", "7A 4G xxxxxxxx", a2(Alu2::Or, L, true)),
    r("OR.L ERs,ERd", "01F0 64 SG", a2(Alu2::Or, L, false)),
    r("XOR.B #xx:8,Rd", "Dd xx", a2(Alu2::Xor, B, true)),
    r("XOR.B Rs,Rd", "15 sd", a2(Alu2::Xor, B, false)),
    r("XOR.W #xx:16,Rd", "79 5d xxxx", a2(Alu2::Xor, W, true)),
    r("XOR.W Rs,Rd", "65 sd", a2(Alu2::Xor, W, false)),
    r("XOR.L #xx:32,ERd", "7A 5G xxxxxxxx", a2(Alu2::Xor, L, true)),
    r("XOR.L ERs,ERd", "01F0 65 SG", a2(Alu2::Xor, L, false)),
    r("AND.B #xx:8,Rd", "Ed xx", a2(Alu2::And, B, true)),
    r("AND.B Rs,Rd", "16 sd", a2(Alu2::And, B, false)),
    r("AND.W #xx:16,Rd", "79 6d xxxx", a2(Alu2::And, W, true)),
    r("AND.W Rs,Rd", "66 sd", a2(Alu2::And, W, false)),
    r("AND.L #xx:32,ERd", "7A 6G xxxxxxxx", a2(Alu2::And, L, true)),
    r("AND.L ERs,ERd", "01F0 66 SG", a2(Alu2::And, L, false)),
    r("NOT.B Rd", "17 0d", a1(Not, B)),
    r("NOT.W Rd", "17 1d", a1(Not, W)),
    r("NOT.L ERd", "17 3G", a1(Not, L)),
    r("EXTU.W Rd", "17 5d", a1(Extu, W)),
    r("EXTU.L ERd", "17 7G", a1(Extu, L)),
    // ---- shifts / rotates
    r("SHLL.B Rd", "10 0d", a1(Shll, B)),
    r("SHLL.W Rd", "10 1d", a1(Shll, W)),
    r("SHLL.L ERd", "10 3G", a1(Shll, L)),
    r("SHAL.B Rd", "10 8d", a1(Shal, B)),
    r("SHAL.W Rd", "10 9d", a1(Shal, W)),
    r("SHAL.L ERd", "10 BG", a1(Shal, L)),
    r("SHLR.B Rd", "11 0d", a1(Shlr, B)),
    r("SHLR.W Rd", "11 1d", a1(Shlr, W)),
    r("SHLR.L ERd", "11 3G", a1(Shlr, L)),
    r("SHAR.B Rd", "11 8d", a1(Shar, B)),
    r("SHAR.W Rd", "11 9d", a1(Shar, W)),
    r("SHAR.L ERd", "11 BG", a1(Shar, L)),
    r("ROTXL.B Rd", "12 0d", a1(Rotxl, B)),
    r("ROTXL.W Rd", "12 1d", a1(Rotxl, W)),
    r("ROTXL.L ERd", "12 3G", a1(Rotxl, L)),
    r("ROTL.B Rd", "12 8d", a1(Rotl, B)),
    r("ROTL.W Rd", "12 9d", a1(Rotl, W)),
    r("ROTL.L ERd", "12 BG", a1(Rotl, L)),
    r("ROTXR.B Rd", "13 0d", a1(Rotxr, B)),
    r("ROTXR.W Rd", "13 1d", a1(Rotxr, W)),
    r("ROTXR.L ERd", "13 3G", a1(Rotxr, L)),
    r("ROTR.B Rd", "13 8d", a1(Rotr, B)),
    r("ROTR.W Rd", "13 9d", a1(Rotr, W)),
    r("ROTR.L ERd", "13 BG", a1(Rotr, L)),
    // ---- bit manipulation
    r("BSET #xx:3,Rd", "70 bd", bit(Bset, false, false, Reg)),
    r("BSET #xx:3,@ERd", "7D a0 70 b0", bit(Bset, false, false, Ind)),
    r("BSET #xx:3,@aa:8", "7F xx 70 b0", bit(Bset, false, false, A8)),
    r("BSET Rn,Rd", "60 nd", bit(Bset, true, false, Reg)),
    r("BSET Rn,@ERd", "7D a0 60 n0", bit(Bset, true, false, Ind)),
    r("BSET Rn,@aa:8", "7F xx 60 n0", bit(Bset, true, false, A8)),
    r("BNOT #xx:3,Rd", "71 bd", bit(Bnot, false, false, Reg)),
    r("BNOT #xx:3,@ERd", "7D a0 71 b0", bit(Bnot, false, false, Ind)),
    r("BNOT #xx:3,@aa:8", "7F xx 71 b0", bit(Bnot, false, false, A8)),
    r("BNOT Rn,Rd", "61 nd", bit(Bnot, true, false, Reg)),
    r("BNOT Rn,@ERd", "7D a0 61 n0", bit(Bnot, true, false, Ind)),
    r("BNOT Rn,@aa:8", "7F xx 61 n0", bit(Bnot, true, false, A8)),
    r("BCLR #xx:3,Rd", "72 bd", bit(Bclr, false, false, Reg)),
    r("BCLR #xx:3,@ERd", "7D a0 72 b0", bit(Bclr, false, false, Ind)),
    r("BCLR #xx:3,@aa:8", "7F xx 72 b0", bit(Bclr, false, false, A8)),
    r("BCLR Rn,Rd", "62 nd", bit(Bclr, true, false, Reg)),
    r("BCLR Rn,@ERd", "7D a0 62 n0", bit(Bclr, true, false, Ind)),
    r("BCLR Rn,@aa:8", "7F xx 62 n0", bit(Bclr, true, false, A8)),
    r("BTST #xx:3,Rd", "73 bd", bit(Btst, false, false, Reg)),
    r("BTST #xx:3,@ERd", "7C a0 73 b0", bit(Btst, false, false, Ind)),
    r("BTST #xx:3,@aa:8", "7E xx 73 b0", bit(Btst, false, false, A8)),
    r("BTST Rn,Rd", "63 nd", bit(Btst, true, false, Reg)),
    r("BTST Rn,@ERd", "7C a0 63 n0", bit(Btst, true, false, Ind)),
    r("BTST Rn,@aa:8", "7E xx 63 n0", bit(Btst, true, false, A8)),
    r("BOR #xx:3,Rd", "74 bd", bit(Bor, false, false, Reg)),
    r("BOR #xx:3,@ERd", "7C a0 74 b0", bit(Bor, false, false, Ind)),
    r("BOR #xx:3,@aa:8", "7E xx 74 b0", bit(Bor, false, false, A8)),
    r("BIOR #xx:3,Rd", "74 Jd", bit(Bor, false, true, Reg)),
    r("BIOR #xx:3,@ERd", "7C a0 74 J0", bit(Bor, false, true, Ind)),
    r("BIOR #xx:3,@aa:8", "7E xx 74 J0", bit(Bor, false, true, A8)),
    r("BXOR #xx:3,Rd", "75 bd", bit(Bxor, false, false, Reg)),
    r("BXOR #xx:3,@ERd", "7C a0 75 b0", bit(Bxor, false, false, Ind)),
    r("BXOR #xx:3,@aa:8", "7E xx 75 b0", bit(Bxor, false, false, A8)),
    r("BIXOR #xx:3,Rd", "75 Jd", bit(Bxor, false, true, Reg)),
    r("BIXOR #xx:3,@ERd", "7C a0 75 J0", bit(Bxor, false, true, Ind)),
    r("BIXOR #xx:3,@aa:8", "7E xx 75 J0", bit(Bxor, false, true, A8)),
    r("BAND #xx:3,Rd", "76 bd", bit(Band, false, false, Reg)),
    r("BAND #xx:3,@ERd", "7C a0 76 b0", bit(Band, false, false, Ind)),
    r("BAND #xx:3,@aa:8", "7E xx 76 b0", bit(Band, false, false, A8)),
    r("BIAND #xx:3,Rd", "76 Jd", bit(Band, false, true, Reg)),
    r("BIAND #xx:3,@ERd", "7C a0 76 J0", bit(Band, false, true, Ind)),
    r("BIAND #xx:3,@aa:8", "7E xx 76 J0", bit(Band, false, true, A8)),
    r("BLD #xx:3,Rd", "77 bd", bit(Bld, false, false, Reg)),
    r("BLD #xx:3,@ERd", "7C a0 77 b0", bit(Bld, false, false, Ind)),
    r("BLD #xx:3,@aa:8", "7E xx 77 b0", bit(Bld, false, false, A8)),
    r("BILD #xx:3,Rd", "77 Jd", bit(Bld, false, true, Reg)),
    r("BILD #xx:3,@ERd", "7C a0 77 J0", bit(Bld, false, true, Ind)),
    r("BILD #xx:3,@aa:8", "7E xx 77 J0", bit(Bld, false, true, A8)),
    r("BST #xx:3,Rd", "67 bd", bit(Bst, false, false, Reg)),
    r("BST #xx:3,@ERd", "7D a0 67 b0", bit(Bst, false, false, Ind)),
    r("BST #xx:3,@aa:8", "7F xx 67 b0", bit(Bst, false, false, A8)),
    r("BIST #xx:3,Rd", "67 Jd", bit(Bst, false, true, Reg)),
    r("BIST #xx:3,@ERd", "7D a0 67 J0", bit(Bst, false, true, Ind)),
    r("BIST #xx:3,@aa:8", "7F xx 67 J0", bit(Bst, false, true, A8)),
    // ---- control flow
    r("Bcc d:8", "4c xx", Sem::Bcc { wide: false }),
    r("Bcc d:16", "58 c0 xxxx", Sem::Bcc { wide: true }),
    r("JMP @ERn", "59 a0", Sem::Jmp(Ind)),
    r("JMP @aa:24", "5A xxxxxx", Sem::Jmp(A24)),
    r("JMP @@aa:8", "5B xx", Sem::Jmp(Mind)),
    r("BSR d:8", "55 xx", Sem::Bsr { wide: false }),
    r("BSR d:16", "5C 00 xxxx", Sem::Bsr { wide: true }),
    r("JSR @ERn", "5D a0", Sem::Jsr(Ind)),
    r("JSR @aa:24", "5E xxxxxx", Sem::Jsr(A24)),
    r("JSR @@aa:8", "5F xx", Sem::Jsr(Mind)),
    r("RTS", "54 70", Sem::Rts),
    r("RTE", "56 70", Sem::Rte),
    r("TRAPA #x:2", "57 t0", Sem::Trapa),
    // ---- STC
    r("STC.B CCR,Rd", "02 0d", Sem::StcB),
    r("STC.W CCR,@ERd", "0140 69 H0", Sem::StcW(Ind)),
    r("STC.W CCR,@(d:16,ERd)", "0140 6F H0 xxxx", Sem::StcW(D16)),
    r("STC.W CCR,@(d:24,ERd)", "0140 78 a0 6B A0 00 xxxxxx", Sem::StcW(D24)),
    r("STC.W CCR,@-ERd", "0140 6D H0", Sem::StcW(Inc)),
    r("STC.W CCR,@aa:16", "0140 6B 80 xxxx", Sem::StcW(A16)),
    r("STC.W CCR,@aa:24", "0140 6B A0 00 xxxxxx", Sem::StcW(A24)),
    // ---- valid H8/300H instructions the emulator does not implement (must be rejected, C07)
    u("NOP", "00 00"),
    u("SLEEP", "01 80"),
    u("LDC.B #xx:8,CCR", "07 xx"),
    u("LDC.B Rs,CCR", "03 0s"),
    u("LDC.W @ERs,CCR", "0140 69 a0"),
    u("LDC.W @(d:16,ERs),CCR", "0140 6F a0 xxxx"),
    u("LDC.W @(d:24,ERs),CCR", "0140 78 a0 6B 20 00 xxxxxx"),
    u("LDC.W @ERs+,CCR", "0140 6D a0"),
    u("LDC.W @aa:16,CCR", "0140 6B 00 xxxx"),
    u("LDC.W @aa:24,CCR", "0140 6B 20 00 xxxxxx"),
    u("ORC #xx:8,CCR", "04 xx"),
    u("XORC #xx:8,CCR", "05 xx"),
    u("ANDC #xx:8,CCR", "06 xx"),
    u("SUBX #xx:8,Rd", "Bd xx"),
    u("SUBX Rs,Rd", "1E sd"),
    u("DAA Rd", "0F 0d"),
    u("DAS Rd", "1F 0d"),
    u("EXTS.W Rd", "17 Dd"),
    u("EXTS.L ERd", "17 FG"),
    u("MULXS.B Rs,Rd", "01C0 50 sd"),
    u("MULXS.W Rs,ERd", "01C0 52 sG"),
    u("DIVXS.B Rs,Rd", "01D0 51 sd"),
    u("DIVXS.W Rs,ERd", "01D0 53 sG"),
    u("EEPMOV.B", "7B 5C 59 8F"),
    u("EEPMOV.W", "7B D4 59 8F"),
    u("MOVFPE @aa:16,Rd", "6A 4d xxxx"),
    u("MOVTPE Rs,@aa:16", "6A Cs xxxx"),
];

/// Decoded / to-be-encoded field values.
#[derive(Clone, Copy, Default, PartialEq, Eq, Debug, Hash)]
pub struct Fields {
    pub rs: u8,   // s / S / Z
    pub rd: u8,   // d / D
    pub ra: u8,   // a / A (3 bits)
    pub bitn: u8, // b / B (3 bits)
    pub rn: u8,   // n
    pub cc: u8,   // c
    pub trap: u8, // t
    pub data: u32, // x nibbles, MSB first
}

#[derive(Clone, Debug)]
pub struct CompiledRow {
    pub idx: usize,
    pub nibbles: Vec<u8>, // pattern characters, one per nibble
    pub len: usize,       // bytes
    pub mask: [u8; 10],
    pub value: [u8; 10],
    pub data_nibbles: u32,
}

pub struct Isa {
    pub rows: Vec<CompiledRow>,
    by_first: Vec<Vec<usize>>, // candidates per first byte
}

#[derive(Clone, Copy, PartialEq, Eq, Debug)]
pub enum Decoded {
    Impl { row: usize, f: Fields, len: usize },
    ValidUnimpl { row: usize, len: usize },
    Undefined,
}

fn hexval(c: u8) -> Option<u8> {
    match c {
        b'0'..=b'9' => Some(c - b'0'),
        b'A'..=b'F' => Some(c - b'A' + 10),
        _ => None,
    }
}

impl Isa {
    pub fn new() -> Isa {
        let mut rows = Vec::new();
        for (idx, row) in ROWS.iter().enumerate() {
            let nibbles: Vec<u8> = row.pat.bytes().filter(|c| !c.is_ascii_whitespace()).collect();
            assert!(nibbles.len() % 4 == 0 && nibbles.len() <= 20, "bad pattern length: {}", row.name);
            let len = nibbles.len() / 2;
            let mut mask = [0u8; 10];
            let mut value = [0u8; 10];
            let mut data_nibbles = 0;
            for (i, &c) in nibbles.iter().enumerate() {
                let (m, v): (u8, u8) = if let Some(h) = hexval(c) {
                    (0xf, h)
                } else {
                    match c {
                        b'S' | b'G' | b'a' | b'b' => (0x8, 0x0),
                        b'Z' | b'H' | b'J' => (0x8, 0x8),
                        b't' => (0xc, 0x0),
                        b's' | b'd' | b'n' | b'c' => (0, 0),
                        b'x' => {
                            data_nibbles += 1;
                            (0, 0)
                        }
                        _ => panic!("bad pattern char {} in {}", c as char, row.name),
                    }
                };
                if i % 2 == 0 {
                    mask[i / 2] |= m << 4;
                    value[i / 2] |= v << 4;
                } else {
                    mask[i / 2] |= m;
                    value[i / 2] |= v;
                }
            }
            rows.push(CompiledRow { idx, nibbles, len, mask, value, data_nibbles });
        }
        let mut by_first = vec![Vec::new(); 256];
        for r in &rows {
            for b in 0..256usize {
                if (b as u8) & r.mask[0] == r.value[0] {
                    by_first[b].push(r.idx);
                }
            }
        }
        Isa { rows, by_first }
    }

    pub fn row(&self, name: &str) -> usize {
        ROWS.iter().position(|r| r.name == name).unwrap_or_else(|| panic!("no such row: {}", name))
    }

    pub fn matches(&self, row: usize, bytes: &[u8]) -> bool {
        let r = &self.rows[row];
        if bytes.len() < r.len {
            return false;
        }
        for i in 0..r.len {
            if bytes[i] & r.mask[i] != r.value[i] {
                return false;
            }
        }
        true
    }

    pub fn extract(&self, row: usize, bytes: &[u8]) -> Fields {
        let r = &self.rows[row];
        let mut f = Fields::default();
        for (i, &c) in r.nibbles.iter().enumerate() {
            let nib = if i % 2 == 0 { bytes[i / 2] >> 4 } else { bytes[i / 2] & 0xf };
            match c {
                b's' => f.rs = nib,
                b'S' | b'Z' => f.rs = nib & 7,
                b'd' => f.rd = nib,
                b'G' => f.rd = nib & 7,
                b'a' | b'H' => f.ra = nib & 7,
                b'b' | b'J' => f.bitn = nib & 7,
                b'n' => f.rn = nib,
                b'c' => f.cc = nib,
                b't' => f.trap = nib & 3,
                b'x' => f.data = (f.data << 4) | nib as u32,
                _ => {}
            }
        }
        f
    }

    /// Independent decode of an instruction byte string (at least 10 bytes should be supplied).
    pub fn decode(&self, bytes: &[u8]) -> Decoded {
        for &ri in &self.by_first[bytes[0] as usize] {
            if self.matches(ri, bytes) {
                let len = self.rows[ri].len;
                if ROWS[ri].imp {
                    return Decoded::Impl { row: ri, f: self.extract(ri, bytes), len };
                } else {
                    return Decoded::ValidUnimpl { row: ri, len };
                }
            }
        }
        Decoded::Undefined
    }

    /// All rows matching (used by the table self-check: must never be more than one).
    pub fn decode_all(&self, bytes: &[u8]) -> Vec<usize> {
        self.by_first[bytes[0] as usize].iter().copied().filter(|&ri| self.matches(ri, bytes)).collect()
    }

    /// Assemble one instruction.
    pub fn encode(&self, row: usize, f: &Fields) -> Vec<u8> {
        let r = &self.rows[row];
        let mut out = vec![0u8; r.len];
        let mut data_left = r.data_nibbles;
        for (i, &c) in r.nibbles.iter().enumerate() {
            let nib: u8 = if let Some(h) = hexval(c) {
                h
            } else {
                match c {
                    b's' => f.rs & 0xf,
                    b'S' => f.rs & 7,
                    b'Z' => 8 | (f.rs & 7),
                    b'd' => f.rd & 0xf,
                    b'G' => f.rd & 7,
                    b'a' => f.ra & 7,
                    b'H' => 8 | (f.ra & 7),
                    b'b' => f.bitn & 7,
                    b'J' => 8 | (f.bitn & 7),
                    b'n' => f.rn & 0xf,
                    b'c' => f.cc & 0xf,
                    b't' => f.trap & 3,
                    b'x' => {
                        data_left -= 1;
                        ((f.data >> (4 * data_left)) & 0xf) as u8
                    }
                    _ => unreachable!(),
                }
            };
            if i % 2 == 0 {
                out[i / 2] |= nib << 4;
            } else {
                out[i / 2] |= nib;
            }
        }
        out
    }

    pub fn has_field(&self, row: usize, c: u8) -> bool {
        self.rows[row].nibbles.iter().any(|&x| x == c || (c == b's' && (x == b'S' || x == b'Z')) || (c == b'd' && x == b'G') || (c == b'a' && x == b'H') || (c == b'b' && x == b'J'))
    }

    /// Exhaustive self-consistency of the table: no two rows overlap, and
    /// decode(encode(x)) == x over a field grid.  Returns number of checks made.
    pub fn self_check(&self) -> Result<u64, String> {
        let mut n = 0u64;
        // pairwise overlap: two rows overlap iff on the common prefix all fixed bits agree.
        for a in &self.rows {
            for b in &self.rows {
                if a.idx >= b.idx {
                    continue;
                }
                let l = a.len.min(b.len);
                let mut disjoint = false;
                for i in 0..l {
                    let m = a.mask[i] & b.mask[i];
                    if a.value[i] & m != b.value[i] & m {
                        disjoint = true;
                        break;
                    }
                }
                n += 1;
                if !disjoint {
                    return Err(format!("rows overlap: '{}' and '{}'", ROWS[a.idx].name, ROWS[b.idx].name));
                }
            }
        }
        // round trip
        for r in &self.rows {
            for rs in 0..16u8 {
                for rd in [0u8, 5, 8, 15] {
                    for data in [0u32, 0x1234_5678, 0xffff_ffff, 0x00be_96ff] {
                        let f = Fields { rs, rd, ra: rs & 7, bitn: rd & 7, rn: rs, cc: rs, trap: rd & 3, data };
                        let bytes = self.encode(r.idx, &f);
                        let mut padded = bytes.clone();
                        padded.resize(10, 0);
                        let all = self.decode_all(&padded);
                        n += 1;
                        if all != vec![r.idx] {
                            return Err(format!("round trip of '{}' decodes to rows {:?}", ROWS[r.idx].name, all));
                        }
                        let g = self.extract(r.idx, &padded);
                        let h = self.encode(r.idx, &g);
                        if h != bytes {
                            return Err(format!("re-encode mismatch for '{}'", ROWS[r.idx].name));
                        }
                    }
                }
            }
        }
        Ok(n)
    }
}
