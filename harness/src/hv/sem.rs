//! Reference semantics of the H8/300H instructions the properties talk about
//! (DESIGN.md §4.1, Appendix B).  Written from the programming manual / the
//! property statements; never calls into the emulator.

use super::isa::{Alu1, Alu2, BitOp, Fields, Mode, Sem, Sz, ROWS};

pub const M24: u32 = 0x00ff_ffff;

pub const CCR_C: u8 = 0x01;
pub const CCR_V: u8 = 0x02;
pub const CCR_Z: u8 = 0x04;
pub const CCR_N: u8 = 0x08;
pub const CCR_U: u8 = 0x10;
pub const CCR_H: u8 = 0x20;
pub const CCR_UI: u8 = 0x40;
pub const CCR_I: u8 = 0x80;

/// The guest address map exactly as property C09 states it.
#[inline]
pub fn mapped(a: u32) -> bool {
    matches!(a, 0x000000..=0x0000ff | 0x400000..=0x5fffff | 0xfee000..=0xfee0ff | 0xffbf20..=0xffff1f | 0xffff20..=0xffffe9)
}

/// Port DDR / DR registers: writes have peripheral side effects (C16), excluded elsewhere.
#[inline]
pub fn is_port_reg(a: u32) -> bool {
    matches!(a, 0xfee000..=0xfee00a | 0xffffd0..=0xffffda)
}

/// Timer registers of 8-bit timer channel 0..3 (excluded from C04's @aa:8 sweep).
#[inline]
pub fn is_timer_reg(a: u32) -> bool {
    matches!(a, 0xffff80..=0xffff89 | 0xffff90..=0xffff99)
}

pub trait MemRead {
    /// Pre-state content of a mapped address (caller guarantees `mapped(a)`).
    fn rd(&self, a: u32) -> u8;
}

#[derive(Clone, Copy, PartialEq, Eq, Debug, Hash)]
pub enum Class {
    Ok,
    Err,
    /// The properties deliberately leave this case open: nothing is compared (panics are still C15's business).
    Any,
}

#[derive(Clone, Copy, PartialEq, Eq, Debug, Hash)]
pub enum Cyc {
    I,
    J,
    K,
    L,
    M,
    N,
}

#[derive(Clone, Copy, Debug)]
pub struct Small<T: Copy, const N: usize> {
    pub n: usize,
    pub v: [T; N],
}
impl<T: Copy + Default, const N: usize> Small<T, N> {
    pub fn new() -> Self {
        Small { n: 0, v: [T::default(); N] }
    }
    #[inline]
    pub fn push(&mut self, x: T) {
        self.v[self.n] = x;
        self.n += 1;
    }
    #[inline]
    pub fn as_slice(&self) -> &[T] {
        &self.v[..self.n]
    }
}

#[derive(Clone, Copy, Debug, Default)]
pub struct Wr {
    pub addr: u32,
    pub val: u8,
    pub care: bool,
}

#[derive(Clone, Copy, Debug)]
pub struct CycEnt {
    pub kind: Cyc,
    pub count: u8,
    pub addr: u32,
}
impl Default for CycEnt {
    fn default() -> Self {
        CycEnt { kind: Cyc::N, count: 0, addr: 0 }
    }
}

#[derive(Clone, Copy, Debug)]
pub struct RefIn {
    pub er: [u32; 8],
    pub ccr: u8,
    pub pc: u32, // address of the instruction
}

#[derive(Clone, Debug)]
pub struct RefOut {
    pub class: Class,
    pub er: [u32; 8],
    pub er_care: [u32; 8],
    pub ccr: u8,
    pub ccr_care: u8,
    pub pc: u32,
    pub writes: Small<Wr, 8>,
    /// (start address, length) of data reads, for the windows compared around them
    pub reads: Small<(u32, u8), 4>,
    pub cyc: Small<CycEnt, 6>,
    pub note: &'static str,
    /// did the step change architectural state other than PC (anti-vacuity statistic)
    pub taken: bool,
    /// class Any only: may the implementation write memory outside `writes`? (undefined encodings, TRAPA #0)
    pub mem_open: bool,
    /// class Any only: the cycle list is nevertheless complete (C20 checks the charge of such cases)
    pub cyc_valid: bool,
    /// a second PC value the statement equally allows (JSR @ER7: the target is SP before or after the push)
    pub pc_alt: Option<u32>,
}

impl RefOut {
    pub fn start(i: &RefIn) -> RefOut {
        RefOut {
            class: Class::Ok,
            er: i.er,
            er_care: [0xffff_ffff; 8],
            ccr: i.ccr,
            ccr_care: 0xff,
            pc: i.pc,
            writes: Small::new(),
            reads: Small::new(),
            cyc: Small::new(),
            note: "",
            taken: false,
            mem_open: false,
            cyc_valid: false,
            pc_alt: None,
        }
    }
    /// left open by the properties; memory outside `writes` must still not change
    fn any(mut self, note: &'static str) -> RefOut {
        self.class = Class::Any;
        self.note = note;
        self
    }
    /// left open including arbitrary memory effects
    fn any_open(mut self, note: &'static str) -> RefOut {
        self.class = Class::Any;
        self.note = note;
        self.mem_open = true;
        self
    }
    fn err(mut self, note: &'static str) -> RefOut {
        self.class = Class::Err;
        self.note = note;
        self
    }
    fn cy(&mut self, kind: Cyc, count: u8, addr: u32) {
        self.cyc.push(CycEnt { kind, count, addr });
    }
}

// ---------------------------------------------------------------- register file helpers

#[inline]
pub fn get_b(er: &[u32; 8], f: u8) -> u32 {
    if f < 8 {
        (er[f as usize] >> 8) & 0xff
    } else {
        er[(f - 8) as usize] & 0xff
    }
}
#[inline]
pub fn set_b(er: &mut [u32; 8], f: u8, v: u32) {
    if f < 8 {
        er[f as usize] = (er[f as usize] & 0xffff_00ff) | ((v & 0xff) << 8);
    } else {
        er[(f - 8) as usize] = (er[(f - 8) as usize] & 0xffff_ff00) | (v & 0xff);
    }
}
#[inline]
pub fn get_w(er: &[u32; 8], f: u8) -> u32 {
    if f < 8 {
        er[f as usize] & 0xffff
    } else {
        er[(f - 8) as usize] >> 16
    }
}
#[inline]
pub fn set_w(er: &mut [u32; 8], f: u8, v: u32) {
    if f < 8 {
        er[f as usize] = (er[f as usize] & 0xffff_0000) | (v & 0xffff);
    } else {
        er[(f - 8) as usize] = (er[(f - 8) as usize] & 0x0000_ffff) | ((v & 0xffff) << 16);
    }
}
#[inline]
pub fn get_r(er: &[u32; 8], sz: Sz, f: u8) -> u32 {
    match sz {
        Sz::B => get_b(er, f),
        Sz::W => get_w(er, f),
        Sz::L => er[(f & 7) as usize],
    }
}
#[inline]
pub fn set_r(er: &mut [u32; 8], sz: Sz, f: u8, v: u32) {
    match sz {
        Sz::B => set_b(er, f, v),
        Sz::W => set_w(er, f, v),
        Sz::L => er[(f & 7) as usize] = v,
    }
}

#[inline]
fn sext(v: u32, bits: u32) -> u32 {
    let sh = 32 - bits;
    (((v << sh) as i32) >> sh) as u32
}

#[inline]
fn set_flag(ccr: &mut u8, f: u8, on: bool) {
    if on {
        *ccr |= f
    } else {
        *ccr &= !f
    }
}

fn nz(ccr: &mut u8, sz: Sz, v: u32) {
    set_flag(ccr, CCR_N, v & sz.msb() != 0);
    set_flag(ccr, CCR_Z, v & sz.mask() == 0);
}

// ---------------------------------------------------------------- ALU

/// a + b + cin with H N Z V C (Z handling left to the caller through the returned result)
pub fn alu_add(sz: Sz, a: u32, b: u32, cin: u32, ccr: &mut u8) -> u32 {
    let m = sz.mask() as u64;
    let r = (a as u64 & m) + (b as u64 & m) + cin as u64;
    let res = (r & m) as u32;
    let hm = m >> 4; // bits below the half-carry position (3 / 11 / 27)
    set_flag(ccr, CCR_C, r > m);
    set_flag(ccr, CCR_H, (a as u64 & hm) + (b as u64 & hm) + cin as u64 > hm);
    set_flag(ccr, CCR_V, (a ^ res) & (b ^ res) & sz.msb() != 0);
    set_flag(ccr, CCR_N, res & sz.msb() != 0);
    res
}

/// a - b - bin with H N V C
pub fn alu_sub(sz: Sz, a: u32, b: u32, bin: u32, ccr: &mut u8) -> u32 {
    let m = sz.mask() as u64;
    let (a64, b64) = (a as u64 & m, b as u64 & m);
    let res = (a64.wrapping_sub(b64).wrapping_sub(bin as u64) & m) as u32;
    let hm = m >> 4;
    set_flag(ccr, CCR_C, a64 < b64 + bin as u64);
    set_flag(ccr, CCR_H, (a64 & hm) < (b64 & hm) + bin as u64);
    set_flag(ccr, CCR_V, (a ^ b) & (a ^ res) & sz.msb() != 0);
    set_flag(ccr, CCR_N, res & sz.msb() != 0);
    res
}

pub fn alu2(op: Alu2, sz: Sz, dst: u32, src: u32, ccr: &mut u8) -> Option<u32> {
    let m = sz.mask();
    match op {
        Alu2::Add => {
            let r = alu_add(sz, dst, src, 0, ccr);
            set_flag(ccr, CCR_Z, r == 0);
            Some(r)
        }
        Alu2::Sub => {
            let r = alu_sub(sz, dst, src, 0, ccr);
            set_flag(ccr, CCR_Z, r == 0);
            Some(r)
        }
        Alu2::Cmp => {
            let r = alu_sub(sz, dst, src, 0, ccr);
            set_flag(ccr, CCR_Z, r == 0);
            None
        }
        Alu2::Addx => {
            let cin = (*ccr & CCR_C) as u32;
            let r = alu_add(sz, dst, src, cin, ccr);
            if r != 0 {
                *ccr &= !CCR_Z; // only ever cleared
            }
            Some(r)
        }
        Alu2::And | Alu2::Or | Alu2::Xor => {
            let r = match op {
                Alu2::And => dst & src,
                Alu2::Or => dst | src,
                _ => dst ^ src,
            } & m;
            nz(ccr, sz, r);
            *ccr &= !CCR_V;
            Some(r)
        }
    }
}

pub fn alu1(op: Alu1, sz: Sz, a: u32, ccr: &mut u8) -> u32 {
    let m = sz.mask();
    let msb = sz.msb();
    let a = a & m;
    let cin = (*ccr & CCR_C) as u32;
    match op {
        Alu1::Neg => {
            let r = alu_sub(sz, 0, a, 0, ccr);
            set_flag(ccr, CCR_Z, r == 0);
            r
        }
        Alu1::Not => {
            let r = !a & m;
            nz(ccr, sz, r);
            *ccr &= !CCR_V;
            r
        }
        Alu1::Extu => {
            // zero-extend the lower half
            let r = a & (m >> (sz.bits() / 2));
            *ccr &= !(CCR_N | CCR_V);
            set_flag(ccr, CCR_Z, r == 0);
            r
        }
        Alu1::Inc1 | Alu1::Inc2 => {
            let k = if op == Alu1::Inc1 { 1 } else { 2 };
            let r = a.wrapping_add(k) & m;
            nz(ccr, sz, r);
            set_flag(ccr, CCR_V, a & msb == 0 && r & msb != 0);
            r
        }
        Alu1::Dec1 | Alu1::Dec2 => {
            let k = if op == Alu1::Dec1 { 1 } else { 2 };
            let r = a.wrapping_sub(k) & m;
            nz(ccr, sz, r);
            set_flag(ccr, CCR_V, a & msb != 0 && r & msb == 0);
            r
        }
        Alu1::Shll | Alu1::Shal => {
            let r = (a << 1) & m;
            set_flag(ccr, CCR_C, a & msb != 0);
            nz(ccr, sz, r);
            if op == Alu1::Shal {
                set_flag(ccr, CCR_V, (a ^ r) & msb != 0);
            } else {
                *ccr &= !CCR_V;
            }
            r
        }
        Alu1::Shlr => {
            let r = a >> 1;
            set_flag(ccr, CCR_C, a & 1 != 0);
            nz(ccr, sz, r);
            *ccr &= !CCR_V;
            r
        }
        Alu1::Shar => {
            let r = (a >> 1) | (a & msb);
            set_flag(ccr, CCR_C, a & 1 != 0);
            nz(ccr, sz, r);
            *ccr &= !CCR_V;
            r
        }
        Alu1::Rotl => {
            let r = ((a << 1) | (a >> (sz.bits() - 1))) & m;
            set_flag(ccr, CCR_C, a & msb != 0);
            nz(ccr, sz, r);
            *ccr &= !CCR_V;
            r
        }
        Alu1::Rotr => {
            let r = (a >> 1) | ((a & 1) << (sz.bits() - 1));
            set_flag(ccr, CCR_C, a & 1 != 0);
            nz(ccr, sz, r);
            *ccr &= !CCR_V;
            r
        }
        Alu1::Rotxl => {
            let r = ((a << 1) | cin) & m;
            set_flag(ccr, CCR_C, a & msb != 0);
            nz(ccr, sz, r);
            *ccr &= !CCR_V;
            r
        }
        Alu1::Rotxr => {
            let r = (a >> 1) | (cin << (sz.bits() - 1));
            set_flag(ccr, CCR_C, a & 1 != 0);
            nz(ccr, sz, r);
            *ccr &= !CCR_V;
            r
        }
    }
}

/// The manual's Bcc condition table.
pub fn cond(cc: u8, ccr: u8) -> bool {
    let c = ccr & CCR_C != 0;
    let v = ccr & CCR_V != 0;
    let z = ccr & CCR_Z != 0;
    let n = ccr & CCR_N != 0;
    match cc & 0xf {
        0x0 => true,
        0x1 => false,
        0x2 => !(c | z),
        0x3 => c | z,
        0x4 => !c,
        0x5 => c,
        0x6 => !z,
        0x7 => z,
        0x8 => !v,
        0x9 => v,
        0xa => !n,
        0xb => n,
        0xc => !(n ^ v),
        0xd => n ^ v,
        0xe => !(z | (n ^ v)),
        _ => z | (n ^ v),
    }
}

// ---------------------------------------------------------------- memory helpers

fn all_mapped(ea: u32, n: u32) -> bool {
    (0..n).all(|i| mapped(ea.wrapping_add(i)))
}

fn rd_n<M: MemRead>(mem: &M, ea: u32, n: u32) -> u32 {
    let mut v = 0u32;
    for i in 0..n {
        v = (v << 8) | mem.rd(ea + i) as u32;
    }
    v
}

fn wr_n(o: &mut RefOut, ea: u32, n: u32, v: u32) {
    for i in 0..n {
        let a = ea + i;
        let byte = (v >> (8 * (n - 1 - i))) as u8;
        o.writes.push(Wr { addr: a, val: byte, care: !is_port_reg(a) });
    }
}

/// number of I cycles = instruction length in words
fn len_words(len: usize) -> u8 {
    (len / 2) as u8
}

// ---------------------------------------------------------------- defect models (known findings, DESIGN.md §7.3)

/// Switches that make the reference reproduce *exactly* one documented wrong behaviour.
/// A mismatch is a known finding only if the actual behaviour equals the reference under
/// a listed switch; anything else is still a violation.
#[derive(Clone, Copy, Default, Debug, PartialEq, Eq)]
pub struct Defects {
    /// SHAL sets V to the operand's old MSB instead of "MSB changes"
    pub shal_v_is_msb: bool,
    /// STC.W CCR,@-ERd is executed as a post-increment store (@ERd+)
    pub stc_predec_is_postinc: bool,
    /// instruction fetch from outside the address map panics (`fetch()` unwraps the bus result)
    pub fetch_unwrap: bool,
    /// not a defect model but an oracle option (C09): a W/L MOV operand at an odd address is the
    /// big-endian composition of the consecutive bytes A..A+n-1 (C01 leaves odd addresses open)
    pub strict_odd: bool,
}

pub const DEFECT_KEYS: &[&str] = &["shal-v-is-msb", "stc-predec-is-postinc", "fetch-unwrap"];

impl Defects {
    pub fn from_keys(keys: &[&str]) -> Defects {
        let mut d = Defects::default();
        for k in keys {
            match *k {
                "shal-v-is-msb" => d.shal_v_is_msb = true,
                "stc-predec-is-postinc" => d.stc_predec_is_postinc = true,
                "fetch-unwrap" => d.fetch_unwrap = true,
                _ => {}
            }
        }
        d
    }
    pub fn known_key(k: &str) -> bool {
        DEFECT_KEYS.contains(&k)
    }
}

// ---------------------------------------------------------------- the step function

/// Reference outcome of executing the (already decoded, implemented) instruction `row`/`f`
/// of encoded length `len` located at `i.pc`.
pub fn exec<M: MemRead>(row: usize, f: &Fields, len: usize, i: &RefIn, mem: &M, d: &Defects) -> RefOut {
    let mut o = exec_inner(row, f, len, i, mem, d);
    // a store into a port DDR/DR register has peripheral side effects (other bytes change, messages):
    // that is C16's subject, left open everywhere else
    if o.writes.as_slice().iter().any(|w| is_port_reg(w.addr)) {
        o.class = Class::Any;
        o.mem_open = true;
        o.note = "store into a port DDR/DR register (C16)";
    }
    o
}

fn exec_inner<M: MemRead>(row: usize, f: &Fields, len: usize, i: &RefIn, mem: &M, d: &Defects) -> RefOut {
    let sem = ROWS[row].sem;
    let mut o = RefOut::start(i);
    // instruction fetch must lie inside the map
    if !all_mapped(i.pc, len as u32) || i.pc & 1 != 0 {
        return o.err("fetch outside the address map");
    }
    let next = i.pc.wrapping_add(len as u32);
    o.pc = next;
    let iw = len_words(len);
    match sem {
        Sem::Mov { sz, mode, store } => {
            let n = sz.bytes();
            let (data_reg, addr_reg) = if store { (f.rs, f.ra) } else { (f.rd, f.ra) };
            match mode {
                Mode::Reg => {
                    let v = get_r(&i.er, sz, f.rs);
                    set_r(&mut o.er, sz, f.rd, v);
                    nz(&mut o.ccr, sz, v);
                    o.ccr &= !CCR_V;
                    o.cy(Cyc::I, iw, i.pc);
                    o.taken = true;
                    return o;
                }
                Mode::Imm => {
                    let v = f.data & sz.mask();
                    set_r(&mut o.er, sz, f.rd, v);
                    nz(&mut o.ccr, sz, v);
                    o.ccr &= !CCR_V;
                    o.cy(Cyc::I, iw, i.pc);
                    o.taken = true;
                    return o;
                }
                _ => {}
            }
            // memory forms
            let base = i.er[addr_reg as usize];
            let mut inc_internal = false;
            let ea = match mode {
                Mode::Ind => base & M24,
                Mode::D16 => base.wrapping_add(sext(f.data, 16)) & M24,
                Mode::D24 => base.wrapping_add(sext(f.data, 24)) & M24,
                Mode::Inc => {
                    inc_internal = true;
                    // data register overlapping the address register: left open by the quantifier
                    let overlap = match sz {
                        Sz::L => (data_reg & 7) == addr_reg,
                        _ => (data_reg & 7) == addr_reg,
                    };
                    if overlap {
                        // the result is left open, the charge is not: I + data cycles at the operand + N2
                        let ea_o = if store { base.wrapping_sub(n) & M24 } else { base & M24 };
                        if store {
                            wr_n_dontcare(&mut o, ea_o, n, true);
                        }
                        if all_mapped(ea_o, n) && !(n > 1 && ea_o & 1 != 0) {
                            o.cy(Cyc::I, iw, i.pc);
                            match sz {
                                Sz::B => o.cy(Cyc::L, 1, ea_o),
                                Sz::W => o.cy(Cyc::M, 1, ea_o),
                                Sz::L => o.cy(Cyc::M, 2, ea_o),
                            }
                            o.cy(Cyc::N, 2, 0);
                            o.cyc_valid = true;
                        }
                        return o.any("data register overlaps the +/- address register");
                    }
                    if store {
                        let nb = base.wrapping_sub(n);
                        o.er[addr_reg as usize] = nb;
                        nb & M24
                    } else {
                        o.er[addr_reg as usize] = base.wrapping_add(n);
                        base & M24
                    }
                }
                Mode::A8 => 0xffff00 | (f.data & 0xff),
                Mode::A16 => sext(f.data, 16) & M24,
                Mode::A24 => f.data & M24,
                _ => unreachable!(),
            };
            if n > 1 && ea & 1 != 0 && !d.strict_odd {
                wr_n_dontcare(&mut o, ea, n, store);
                return o.any("word/long operand at an odd address");
            }
            o.cy(Cyc::I, iw, i.pc);
            match sz {
                Sz::B => o.cy(Cyc::L, 1, ea),
                Sz::W => o.cy(Cyc::M, 1, ea),
                Sz::L => o.cy(Cyc::M, 2, ea),
            }
            if inc_internal {
                o.cy(Cyc::N, 2, 0);
            }
            if !all_mapped(ea, n) {
                // a failing access: registers are left open, memory outside the operand must not change
                wr_n_dontcare(&mut o, ea, n, store);
                return o.err("operand outside the address map");
            }
            if store {
                let v = get_r(&i.er, sz, f.rs);
                wr_n(&mut o, ea, n, v);
                nz(&mut o.ccr, sz, v);
                o.ccr &= !CCR_V;
            } else {
                let v = rd_n(mem, ea, n);
                o.reads.push((ea, n as u8));
                set_r(&mut o.er, sz, f.rd, v);
                nz(&mut o.ccr, sz, v);
                o.ccr &= !CCR_V;
            }
            o.taken = true;
            o
        }
        Sem::Alu2 { op, sz, imm } => {
            let src = if imm { f.data & sz.mask() } else { get_r(&i.er, sz, f.rs) };
            let dst = get_r(&i.er, sz, f.rd);
            if let Some(r) = alu2(op, sz, dst, src, &mut o.ccr) {
                set_r(&mut o.er, sz, f.rd, r);
            }
            o.cy(Cyc::I, iw, i.pc);
            o.taken = true;
            o
        }
        Sem::Alu1 { op, sz } => {
            let a = get_r(&i.er, sz, f.rd);
            let r = alu1(op, sz, a, &mut o.ccr);
            if op == Alu1::Shal && d.shal_v_is_msb {
                set_flag(&mut o.ccr, CCR_V, a & sz.msb() != 0);
            }
            set_r(&mut o.er, sz, f.rd, r);
            o.cy(Cyc::I, iw, i.pc);
            o.taken = true;
            o
        }
        Sem::Adds(k) => {
            o.er[f.rd as usize] = i.er[f.rd as usize].wrapping_add(k);
            o.cy(Cyc::I, iw, i.pc);
            o.taken = true;
            o
        }
        Sem::Subs(k) => {
            o.er[f.rd as usize] = i.er[f.rd as usize].wrapping_sub(k);
            o.cy(Cyc::I, iw, i.pc);
            o.taken = true;
            o
        }
        Sem::Mulxu(sz) => {
            match sz {
                Sz::B => {
                    let a = get_w(&i.er, f.rd) & 0xff;
                    let b = get_b(&i.er, f.rs);
                    set_w(&mut o.er, f.rd, a * b);
                    o.cy(Cyc::I, iw, i.pc);
                    o.cy(Cyc::N, 12, 0);
                }
                _ => {
                    let a = i.er[f.rd as usize] & 0xffff;
                    let b = get_w(&i.er, f.rs);
                    o.er[f.rd as usize] = a * b;
                    o.cy(Cyc::I, iw, i.pc);
                    o.cy(Cyc::N, 20, 0);
                }
            }
            o.taken = true;
            o
        }
        Sem::Divxu(sz) => {
            match sz {
                Sz::B => {
                    let a = get_w(&i.er, f.rd);
                    let b = get_b(&i.er, f.rs);
                    o.cy(Cyc::I, iw, i.pc);
                    o.cy(Cyc::N, 12, 0);
                    if b == 0 || a / b > 0xff {
                        return o.any("DIVXU with zero divisor or overflowing quotient");
                    }
                    set_w(&mut o.er, f.rd, ((a % b) << 8) | (a / b));
                    set_flag(&mut o.ccr, CCR_N, b & 0x80 != 0);
                    set_flag(&mut o.ccr, CCR_Z, b == 0);
                }
                _ => {
                    let a = i.er[f.rd as usize];
                    let b = get_w(&i.er, f.rs);
                    o.cy(Cyc::I, iw, i.pc);
                    o.cy(Cyc::N, 20, 0);
                    if b == 0 || a / b > 0xffff {
                        return o.any("DIVXU with zero divisor or overflowing quotient");
                    }
                    o.er[f.rd as usize] = ((a % b) << 16) | (a / b);
                    set_flag(&mut o.ccr, CCR_N, b & 0x8000 != 0);
                    set_flag(&mut o.ccr, CCR_Z, b == 0);
                }
            }
            o.taken = true;
            o
        }
        Sem::Bit { op, by_reg, inv, loc } => {
            let bn = if by_reg { get_b(&i.er, f.rn) & 7 } else { f.bitn as u32 };
            let writes_back = matches!(op, BitOp::Bset | BitOp::Bnot | BitOp::Bclr | BitOp::Bst);
            let (val, ea) = match loc {
                Mode::Reg => (get_b(&i.er, f.rd), 0),
                Mode::Ind | Mode::A8 => {
                    let ea = if loc == Mode::Ind { i.er[f.ra as usize] & M24 } else { 0xffff00 | (f.data & 0xff) };
                    o.cy(Cyc::I, iw, i.pc);
                    o.cy(Cyc::L, if writes_back { 2 } else { 1 }, ea);
                    if !mapped(ea) {
                        wr_n_dontcare(&mut o, ea, 1, writes_back);
                        return o.err("operand outside the address map");
                    }
                    o.reads.push((ea, 1));
                    (mem.rd(ea) as u32, ea)
                }
                _ => unreachable!(),
            };
            if loc == Mode::Reg {
                o.cy(Cyc::I, iw, i.pc);
            }
            let bitv = (val >> bn) & 1 != 0;
            let eff = bitv ^ inv; // (possibly inverted) bit for the C-combining group
            let c = i.ccr & CCR_C != 0;
            let mut newval = val;
            match op {
                BitOp::Bset => newval = val | (1 << bn),
                BitOp::Bclr => newval = val & !(1 << bn),
                BitOp::Bnot => newval = val ^ (1 << bn),
                BitOp::Bst => {
                    let b = c ^ inv;
                    newval = (val & !(1 << bn)) | ((b as u32) << bn);
                }
                BitOp::Btst => set_flag(&mut o.ccr, CCR_Z, !bitv),
                BitOp::Bld => set_flag(&mut o.ccr, CCR_C, eff),
                BitOp::Band => set_flag(&mut o.ccr, CCR_C, c & eff),
                BitOp::Bor => set_flag(&mut o.ccr, CCR_C, c | eff),
                BitOp::Bxor => set_flag(&mut o.ccr, CCR_C, c ^ eff),
            }
            if writes_back {
                match loc {
                    Mode::Reg => set_b(&mut o.er, f.rd, newval),
                    _ => wr_n(&mut o, ea, 1, newval),
                }
            }
            o.taken = true;
            o
        }
        Sem::Bcc { wide } => {
            o.cy(Cyc::I, 2, i.pc);
            if wide {
                o.cy(Cyc::N, 2, 0);
            }
            if cond(f.cc, i.ccr) {
                let d = if wide { sext(f.data, 16) } else { sext(f.data, 8) };
                let t = next.wrapping_add(d);
                if t & 1 != 0 {
                    return o.any("odd branch target");
                }
                if t > M24 {
                    return o.any("branch target outside 24 bits");
                }
                o.pc = t;
                o.taken = true;
            }
            o
        }
        Sem::Jmp(mode) => {
            o.cy(Cyc::I, 2, i.pc);
            let t = match mode {
                Mode::Ind => i.er[f.ra as usize] & M24,
                Mode::A24 => {
                    o.cy(Cyc::N, 2, 0);
                    f.data & M24
                }
                Mode::Mind => {
                    let va = f.data & 0xff;
                    o.cy(Cyc::J, 2, va);
                    o.cy(Cyc::N, 2, 0);
                    if va & 1 != 0 {
                        return o.any("memory-indirect vector at an odd address");
                    }
                    if !all_mapped(va, 4) {
                        return o.err("vector outside the address map");
                    }
                    o.reads.push((va, 4));
                    rd_n(mem, va, 4) & M24
                }
                _ => unreachable!(),
            };
            if t & 1 != 0 {
                return o.any("odd jump target");
            }
            o.pc = t;
            o.taken = true;
            o
        }
        Sem::Bsr { .. } | Sem::Jsr(_) => {
            o.cy(Cyc::I, 2, i.pc);
            let sp = i.er[7];
            let fa = sp.wrapping_sub(4) & M24;
            let mut vec_read = false;
            let t = match sem {
                Sem::Bsr { wide } => {
                    let d = if wide { sext(f.data, 16) } else { sext(f.data, 8) };
                    o.cy(Cyc::K, 2, fa);
                    if wide {
                        o.cy(Cyc::N, 2, 0);
                    }
                    let t = next.wrapping_add(d);
                    if t > M24 {
                        wr_n_dontcare(&mut o, fa, 4, true);
                        return o.any("branch target outside 24 bits");
                    }
                    t
                }
                Sem::Jsr(Mode::Ind) => {
                    o.cy(Cyc::K, 2, fa);
                    if f.ra == 7 {
                        // the target is SP itself: the value before or the value after the push, either way 24 bits
                        o.pc_alt = Some(i.er[7] & M24);
                        i.er[7].wrapping_sub(4) & M24
                    } else {
                        i.er[f.ra as usize] & M24
                    }
                }
                Sem::Jsr(Mode::A24) => {
                    o.cy(Cyc::K, 2, fa);
                    o.cy(Cyc::N, 2, 0);
                    f.data & M24
                }
                Sem::Jsr(Mode::Mind) => {
                    let va = f.data & 0xff;
                    o.cy(Cyc::J, 2, va);
                    o.cy(Cyc::K, 2, fa);
                    if va & 1 != 0 {
                        wr_n_dontcare(&mut o, fa, 4, true);
                        return o.any("memory-indirect vector at an odd address");
                    }
                    if !all_mapped(va, 4) {
                        // the frame may already have been pushed when the vector read fails
                        wr_n_dontcare(&mut o, fa, 4, true);
                        return o.err("vector outside the address map");
                    }
                    vec_read = true;
                    o.reads.push((va, 4));
                    rd_n(mem, va, 4) & M24
                }
                _ => unreachable!(),
            };
            if sp & 1 != 0 {
                wr_n_dontcare(&mut o, fa, 4, true);
                return o.any("odd stack pointer");
            }
            if !all_mapped(fa, 4) {
                wr_n_dontcare(&mut o, fa, 4, true);
                return o.err("stack frame outside the address map");
            }
            if vec_read && overlaps(fa, 4, f.data & 0xff, 4) {
                wr_n_dontcare(&mut o, fa, 4, true);
                return o.any("stack frame overlaps the vector being read");
            }
            if t & 1 != 0 {
                wr_n_dontcare(&mut o, fa, 4, true);
                return o.any("odd call target");
            }
            // frame: top byte open (reserved), low 24 bits = return address
            o.writes.push(Wr { addr: fa, val: 0, care: false });
            o.writes.push(Wr { addr: fa + 1, val: (next >> 16) as u8, care: true });
            o.writes.push(Wr { addr: fa + 2, val: (next >> 8) as u8, care: true });
            o.writes.push(Wr { addr: fa + 3, val: next as u8, care: true });
            o.er[7] = sp.wrapping_sub(4);
            o.pc = t;
            o.taken = true;
            o
        }
        Sem::Rts | Sem::Rte => {
            let sp = i.er[7];
            let fa = sp & M24;
            o.cy(Cyc::I, 2, i.pc);
            o.cy(Cyc::K, 2, fa);
            o.cy(Cyc::N, 2, 0);
            if sp & 1 != 0 {
                return o.any("odd stack pointer");
            }
            if !all_mapped(fa, 4) {
                return o.err("stack frame outside the address map");
            }
            o.reads.push((fa, 4));
            let v = rd_n(mem, fa, 4);
            if v & 1 != 0 {
                return o.any("odd return address");
            }
            o.pc = v & M24;
            if sem == Sem::Rte {
                o.ccr = (v >> 24) as u8;
            }
            o.er[7] = sp.wrapping_add(4);
            o.taken = true;
            o
        }
        Sem::Trapa => {
            if f.trap == 0 {
                return o.any_open("TRAPA #0 is the MES system-call gate (C14)");
            }
            exception_entry(o, i, mem, 8 + f.trap as u32, next, true)
        }
        Sem::StcB => {
            set_b(&mut o.er, f.rd, i.ccr as u32);
            o.cy(Cyc::I, iw, i.pc);
            o.taken = true;
            o
        }
        Sem::StcW(mode) => {
            let base = i.er[f.ra as usize];
            let ea = match mode {
                Mode::Ind => base & M24,
                Mode::D16 => base.wrapping_add(sext(f.data, 16)) & M24,
                Mode::D24 => base.wrapping_add(sext(f.data, 24)) & M24,
                Mode::Inc => {
                    if d.stc_predec_is_postinc {
                        o.er[f.ra as usize] = base.wrapping_add(2);
                        base & M24
                    } else {
                        let nb = base.wrapping_sub(2);
                        o.er[f.ra as usize] = nb;
                        nb & M24
                    }
                }
                Mode::A16 => sext(f.data, 16) & M24,
                Mode::A24 => f.data & M24,
                _ => unreachable!(),
            };
            o.cy(Cyc::I, iw, i.pc);
            o.cy(Cyc::M, 1, ea);
            if mode == Mode::Inc {
                o.cy(Cyc::N, 2, 0);
            }
            if ea & 1 != 0 {
                wr_n_dontcare(&mut o, ea, 2, true);
                return o.any("word operand at an odd address");
            }
            if !all_mapped(ea, 2) {
                wr_n_dontcare(&mut o, ea, 2, true);
                return o.err("operand outside the address map");
            }
            // which byte of the word carries CCR is left open (manual: even address; the
            // repository's tests pin the odd one) -- the property only fixes the location.
            o.writes.push(Wr { addr: ea, val: i.ccr, care: false });
            o.writes.push(Wr { addr: ea + 1, val: i.ccr, care: false });
            o.taken = true;
            o
        }
        Sem::Unimpl => o.err("valid but unimplemented instruction"),
    }
}

fn overlaps(a: u32, an: u32, b: u32, bn: u32) -> bool {
    a < b + bn && b < a + an
}

fn wr_n_dontcare(o: &mut RefOut, ea: u32, n: u32, store: bool) {
    if store {
        for k in 0..n {
            let a = ea.wrapping_add(k);
            if mapped(a) {
                o.writes.push(Wr { addr: a, val: 0, care: false });
            }
        }
    }
}

/// TRAPA #1-3 / interrupt acceptance: push CCR:PC at SP-4, SP -= 4, set I, load PC from vector.
/// `ret` is the address pushed (the next instruction).
pub fn exception_entry<M: MemRead>(mut o: RefOut, i: &RefIn, mem: &M, vector: u32, ret: u32, trapa: bool) -> RefOut {
    let sp = i.er[7];
    let fa = sp.wrapping_sub(4) & M24;
    let va = vector * 4;
    if trapa {
        o.cy(Cyc::I, 2, i.pc);
        o.cy(Cyc::J, 2, va);
        o.cy(Cyc::K, 2, fa);
        o.cy(Cyc::N, 4, 0);
    }
    if sp & 1 != 0 {
        wr_n_dontcare(&mut o, fa, 4, true);
        return o.any("odd stack pointer");
    }
    if !all_mapped(fa, 4) {
        wr_n_dontcare(&mut o, fa, 4, true);
        return o.err("stack frame outside the address map");
    }
    if !all_mapped(va, 4) {
        wr_n_dontcare(&mut o, fa, 4, true);
        return o.err("vector outside the address map");
    }
    if overlaps(fa, 4, va, 4) {
        wr_n_dontcare(&mut o, fa, 4, true);
        return o.any("stack frame overlaps the vector being read");
    }
    o.reads.push((va, 4));
    let v = rd_n(mem, va, 4);
    if v & 1 != 0 {
        wr_n_dontcare(&mut o, fa, 4, true);
        return o.any("odd handler address");
    }
    o.writes.push(Wr { addr: fa, val: i.ccr, care: true });
    o.writes.push(Wr { addr: fa + 1, val: (ret >> 16) as u8, care: true });
    o.writes.push(Wr { addr: fa + 2, val: (ret >> 8) as u8, care: true });
    o.writes.push(Wr { addr: fa + 3, val: ret as u8, care: true });
    o.er[7] = sp.wrapping_sub(4);
    o.ccr = i.ccr | CCR_I;
    o.ccr_care = !CCR_UI;
    o.pc = v & M24;
    o.taken = true;
    o
}

/// Reference for accepting interrupt `vector` at an instruction boundary with PC = `i.pc`.
pub fn interrupt_entry<M: MemRead>(i: &RefIn, mem: &M, vector: u32) -> RefOut {
    let o = RefOut::start(i);
    exception_entry(o, i, mem, vector, i.pc & M24, false)
}

/// Reference outcome for a valid H8/300H instruction the emulator does not implement: an error.
pub fn exec_unimpl(i: &RefIn, len: usize) -> RefOut {
    let o = RefOut::start(i);
    if !all_mapped(i.pc, len as u32) {
        return o.err("fetch outside the address map");
    }
    o.err("valid but unimplemented instruction")
}

/// Reference outcome for an undefined encoding: the properties say nothing.
pub fn exec_undefined(i: &RefIn) -> RefOut {
    RefOut::start(i).any_open("undefined encoding")
}
