//! Explainer keys of known findings that are not ISA defect models (sequence engines, C15 site classes).
pub const EXTRA_KEYS: &[&str] = &[];
