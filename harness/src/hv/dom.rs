//! Finite value / address domains used by the enumerations (DESIGN.md §5-E1).
//! `VERIF_SEED` only rotates which extra members are appended to covering sets;
//! every set is then enumerated completely.

pub const K16: [u8; 16] = [0x00, 0xff, 0x55, 0xaa, 0x0f, 0xf0, 0xfe, 0x7f, 0x01, 0x02, 0x04, 0x08, 0x10, 0x20, 0x40, 0x80];
pub const K4: [u8; 4] = [0x00, 0xff, 0x55, 0xaa];

pub fn mix(seed: u64, k: u64) -> u64 {
    let mut x = seed.wrapping_add(0x9E3779B97F4A7C15u64.wrapping_mul(k + 1));
    x = (x ^ (x >> 30)).wrapping_mul(0xBF58476D1CE4E5B9);
    x = (x ^ (x >> 27)).wrapping_mul(0x94D049BB133111EB);
    x ^ (x >> 31)
}

fn dedup<T: Ord + Copy>(mut v: Vec<T>) -> Vec<T> {
    let mut seen = std::collections::BTreeSet::new();
    v.retain(|x| seen.insert(*x));
    v
}

pub fn v8cov() -> Vec<u32> {
    dedup(vec![0, 1, 2, 0x0f, 0x10, 0x7e, 0x7f, 0x80, 0x81, 0xf0, 0xfe, 0xff, 0x55, 0xaa])
}

pub fn v16cov(seed: u64) -> Vec<u32> {
    let mut v: Vec<u32> = vec![
        0, 1, 2, 0x7f, 0x80, 0x81, 0xff, 0x100, 0x101, 0x7ff, 0x800, 0xfff, 0x1000, 0x7ffe, 0x7fff, 0x8000, 0x8001, 0xfffe, 0xffff, 0x5555, 0xaaaa, 0x00ff, 0xff00,
        0x0f0f, 0xf0f0, 0x1234, 0xfedc,
    ];
    for b in 0..16 {
        v.push(1 << b);
        v.push(0xffff ^ (1 << b));
    }
    for k in 0..8 {
        v.push((mix(seed, 100 + k) & 0xffff) as u32);
    }
    dedup(v)
}

pub fn v32(seed: u64) -> Vec<u32> {
    let mut v: Vec<u32> = vec![0, 1, 2, 0x55555555, 0xaaaaaaaa, 0x11223344, 0x01020304, 0x00ff00ff, 0xff00ff00, 0x0000ffff, 0xffff0000, 0x7fffffff, 0x80000000, 0xfffffffe, 0xffffffff];
    for p in [7u32, 8, 15, 16, 23, 24, 27, 28, 31] {
        let x = 1u32 << p;
        v.push(x.wrapping_sub(1));
        v.push(x);
        v.push(x.wrapping_add(1));
    }
    for b in 0..32 {
        v.push(1u32 << b);
        v.push(!(1u32 << b));
        // low and high masks: every carry-chain length
        v.push((1u32 << b).wrapping_sub(1));
        v.push(!((1u32 << b).wrapping_sub(1)));
    }
    for k in 0..16 {
        v.push(mix(seed, 200 + k) as u32);
    }
    dedup(v)
}

/// 32-bit values of the forms x<<k and !(x<<k), x in 0..256 (shift/rotate one-operand sweeps)
pub fn v32_shifted() -> Vec<u32> {
    let mut v = Vec::new();
    for k in [0u32, 4, 8, 12, 16, 20, 24] {
        for x in 0..256u32 {
            v.push(x << k);
            v.push(!(x << k));
        }
    }
    dedup(v)
}

/// Distinct, lane-tagged background register file: a wrong-register read is visible in the data.
pub fn background_regs() -> [u32; 8] {
    let mut er = [0u32; 8];
    for k in 0..8u32 {
        er[k as usize] = ((0x11 + 0x10 * k) << 24) | ((0x92 + 0x0d * k) << 16) | ((0x23 + 0x19 * k) << 8) | (0xa4 + 0x07 * k);
    }
    er
}

pub const CODE_RAM: u32 = 0xffc000; // on-chip RAM
pub const CODE_DRAM: u32 = 0x410000; // DRAM
pub const DATA_RAM: u32 = 0xffd000;
pub const DATA_DRAM: u32 = 0x480000;
pub const STACK_RAM: u32 = 0xffe000;
pub const STACK_DRAM: u32 = 0x4c0000;

/// Operand-address covering set over the three storage regions (even addresses where `even`).
pub fn addr_cov(even: bool, span: u32) -> Vec<u32> {
    let mut v = Vec::new();
    let regions = [(0x000000u32, 0x0000ffu32), (0x400000, 0x5fffff), (0xffbf20, 0xffff1f)];
    for (lo, hi) in regions {
        let last = hi + 1 - span;
        for a in [lo, lo + 1, lo + 2, lo + 3, lo + 4, last, last - 1, last - 2, last - 3, last - 4, (lo + hi) / 2, (lo + hi) / 2 + 1] {
            v.push(a);
        }
        // bit-walk from the region base
        let mut k = 0;
        while lo + (1 << k) <= last {
            v.push(lo + (1 << k));
            v.push(lo + (1 << k) - 1);
            k += 1;
        }
        // interior grid
        let step = ((hi - lo) / 13).max(1);
        let mut a = lo + step;
        while a < last {
            v.push(a);
            a += step;
        }
    }
    let mut v: Vec<u32> = v.into_iter().filter(|a| !even || a % 2 == 0).collect();
    v = dedup(v);
    v
}
