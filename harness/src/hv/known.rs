//! /verif/KNOWN_FINDINGS.txt — committed, never written at run time.
//!
//!   known: property=C03 key=shal-v-is-msb witness={...case json...} :: description
//!   fixed: property=C02 commit=<sha> witness={...case json...} :: description
//!
//! `known:` lines suppress exactly the behaviour their key's defect model reproduces
//! (DESIGN.md §7.3).  `fixed:` lines suppress nothing; their witnesses are permanent
//! regression cases.
use serde_json::Value;
use std::path::Path;

#[derive(Clone, Debug)]
pub struct Known {
    pub is_known: bool, // false = fixed
    pub property: String,
    pub key: String,
    pub commit: String,
    pub witness: Option<Value>,
    pub text: String,
}

pub fn load(path: &Path) -> Result<Vec<Known>, String> {
    let mut out = Vec::new();
    let s = match std::fs::read_to_string(path) {
        Ok(s) => s,
        Err(_) => return Ok(out),
    };
    for (ln, line) in s.lines().enumerate() {
        let line = line.trim();
        if line.is_empty() || line.starts_with('#') {
            continue;
        }
        let (is_known, rest) = if let Some(r) = line.strip_prefix("known:") {
            (true, r)
        } else if let Some(r) = line.strip_prefix("fixed:") {
            (false, r)
        } else {
            return Err(format!("KNOWN_FINDINGS.txt:{}: unrecognised line", ln + 1));
        };
        let (head, text) = match rest.split_once(" :: ") {
            Some((h, t)) => (h.trim(), t.trim().to_string()),
            None => (rest.trim(), String::new()),
        };
        let mut k = Known { is_known, property: String::new(), key: String::new(), commit: String::new(), witness: None, text };
        let (fields, witness) = match head.split_once("witness=") {
            Some((f, w)) => (f, Some(w.trim())),
            None => (head, None),
        };
        for tok in fields.split_whitespace() {
            if let Some(v) = tok.strip_prefix("property=") {
                k.property = v.to_string();
            } else if let Some(v) = tok.strip_prefix("key=") {
                k.key = v.to_string();
            } else if let Some(v) = tok.strip_prefix("commit=") {
                k.commit = v.to_string();
            }
        }
        if let Some(w) = witness {
            match serde_json::from_str::<Value>(w) {
                Ok(v) => k.witness = Some(v),
                Err(e) => return Err(format!("KNOWN_FINDINGS.txt:{}: bad witness json: {}", ln + 1, e)),
            }
        }
        if k.property.is_empty() || (is_known && k.key.is_empty()) {
            return Err(format!("KNOWN_FINDINGS.txt:{}: property= / key= missing", ln + 1));
        }
        out.push(k);
    }
    Ok(out)
}

/// keys with a defect model / explainer compiled into the harness
pub fn has_explainer(key: &str) -> bool {
    super::sem::Defects::known_key(key) || super::explainers::EXTRA_KEYS.contains(&key)
}
