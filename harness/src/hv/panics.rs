//! Quiet panic hook that remembers where the last panic happened (for C15's site classes).
use std::cell::RefCell;
use std::sync::Once;

thread_local! {
    static LAST: RefCell<String> = RefCell::new(String::new());
}

static INSTALL: Once = Once::new();

pub fn install_quiet_hook() {
    INSTALL.call_once(|| {
        std::panic::set_hook(Box::new(|info| {
            let loc = info.location().map(|l| format!("{}:{}", l.file(), l.line())).unwrap_or_else(|| "?".into());
            LAST.with(|l| *l.borrow_mut() = loc);
        }));
    });
}

pub fn take_last_location() -> String {
    LAST.with(|l| std::mem::take(&mut *l.borrow_mut()))
}

/// A logger that formats every record (so that the arguments of the emulator's log calls are really
/// evaluated, as they are under the real binary's env_logger) and throws the text away.
struct EvalLogger;
impl log::Log for EvalLogger {
    fn enabled(&self, _m: &log::Metadata) -> bool {
        true
    }
    fn log(&self, record: &log::Record) {
        let s = format!("{}", record.args());
        std::hint::black_box(s);
    }
    fn flush(&self) {}
}
static EVAL_LOGGER: EvalLogger = EvalLogger;

/// Switch evaluation of log arguments on/off (off by default: logging is disabled in the harness).
pub fn eval_log_args(on: bool) {
    static SET: Once = Once::new();
    SET.call_once(|| {
        let _ = log::set_logger(&EVAL_LOGGER);
    });
    log::set_max_level(if on { log::LevelFilter::Trace } else { log::LevelFilter::Off });
}
