//! Quiet panic hook that remembers where the last panic happened (for C15's site classes).
use std::cell::RefCell;
use std::sync::Once;

thread_local! {
    static LAST: RefCell<String> = RefCell::new(String::new());
}

static INSTALL: Once = Once::new();

pub fn install_quiet_hook() {
    INSTALL.call_once(|| {
        std::panic::set_hook(Box::new(|info| {
            let loc = info.location().map(|l| format!("{}:{}", l.file(), l.line())).unwrap_or_else(|| "?".into());
            LAST.with(|l| *l.borrow_mut() = loc);
        }));
    });
}

pub fn take_last_location() -> String {
    LAST.with(|l| std::mem::take(&mut *l.borrow_mut()))
}
