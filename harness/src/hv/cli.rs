//! Command line: check <id> --tier <t> | shard <id> <tier> <i> <n> | replay <path> | selfcheck
use super::e1::{Case, Ctx};
use super::known;
use super::props;
use super::shard::{self, Tier};
use serde_json::Value;
use std::path::PathBuf;

pub fn main() {
    // debug-assertion builds default to printing every opcode
    *crate::setting::ENABLE_PRINT_OPCODE.write().unwrap() = false;
    let args: Vec<String> = std::env::args().collect();
    let code = match args.get(1).map(|s| s.as_str()) {
        Some("check") => {
            let id = args.get(2).cloned().unwrap_or_default();
            let mut tier = Tier::parse(&std::env::var("VERIF_TIER").unwrap_or_else(|_| "quick".into()));
            if let Some(p) = args.iter().position(|a| a == "--tier") {
                if let Some(t) = args.get(p + 1) {
                    tier = Tier::parse(t);
                }
            }
            check(&id, tier)
        }
        Some("shard") => {
            let id = &args[2];
            let tier = Tier::parse(&args[3]);
            let i: usize = args[4].parse().unwrap();
            let n: usize = args[5].parse().unwrap();
            let vd = shard::verif_dir();
            let all = known::load(&vd.join("KNOWN_FINDINGS.txt")).unwrap_or_default();
            let mut foreign: Vec<String> = all.iter().filter(|k| k.is_known && &k.property != id).map(|k| k.key.clone()).collect();
            let kn: Vec<_> = all.into_iter().filter(|k| &k.property == id).collect();
            foreign.retain(|f| !kn.iter().any(|k| k.is_known && &k.key == f));
            foreign.sort();
            foreign.dedup();
            std::env::set_var("H8V_FOREIGN_KEYS", foreign.join(","));
            match props::build(id, tier, shard::seed(), &kn) {
                Some(p) => {
                    let out = match args.get(6) {
                        Some(p) if !p.is_empty() => PathBuf::from(p),
                        _ => vd.join(".work").join(format!("{}.{}.{}.json", id, tier.name(), i)),
                    };
                    shard::run_shard(&p, tier, i, n, &out, &kn)
                }
                None => 2,
            }
        }
        Some("c14child") => {
            let tier = Tier::parse(&args[2]);
            super::props::mes::console_child(tier, args[3].parse().unwrap_or(0), args[4].parse().unwrap_or(0))
        }
        Some("replay") => replay(&PathBuf::from(args.get(2).cloned().unwrap_or_default())),
        Some("selfcheck") => selfcheck(),
        _ => {
            eprintln!("usage: h8verif check <id> --tier quick|thorough | replay <path> | selfcheck");
            2
        }
    };
    std::process::exit(code);
}

fn check(id: &str, tier: Tier) -> i32 {
    let vd = shard::verif_dir();
    let all = match known::load(&vd.join("KNOWN_FINDINGS.txt")) {
        Ok(a) => a,
        Err(e) => {
            println!("MACHINERY-ERROR: {}", e);
            return 2;
        }
    };
    let kn: Vec<_> = all.into_iter().filter(|k| k.property == id).collect();
    // table self-consistency before anything is trusted
    let isa = super::isa::Isa::new();
    if let Err(e) = isa.self_check() {
        println!("MACHINERY-ERROR: encoding table self-check failed: {}", e);
        return 2;
    }
    match props::build(id, tier, shard::seed(), &kn) {
        Some(p) => shard::run_check(&p, tier),
        None => {
            println!("MACHINERY-ERROR: no check registered for property {}", id);
            2
        }
    }
}

fn selfcheck() -> i32 {
    let isa = super::isa::Isa::new();
    match isa.self_check() {
        Ok(n) => {
            println!("encoding table: {} rows, {} consistency checks ok", super::isa::ROWS.len(), n);
            0
        }
        Err(e) => {
            println!("encoding table self-check FAILED: {}", e);
            2
        }
    }
}

/// Replay one counterexample file on the real code, without the explorer.
fn replay(path: &PathBuf) -> i32 {
    super::panics::install_quiet_hook();
    *crate::setting::ENABLE_PRINT_OPCODE.write().unwrap() = false;
    let doc: Value = match std::fs::read(path).ok().and_then(|b| serde_json::from_slice(&b).ok()) {
        Some(d) => d,
        None => {
            println!("cannot read replay file {}", path.display());
            return 2;
        }
    };
    let prop = doc["property"].as_str().unwrap_or("?").to_string();
    // a counterexample found in the overflow-checking build is replayed by that build
    let unit = doc["violation"]["unit"].as_str().unwrap_or("").to_string();
    let me = std::env::current_exe().map(|p| p.display().to_string()).unwrap_or_default();
    if unit.starts_with("ovf:") && me.contains("/release/") {
        let other = me.replace("/release/", "/ovf/");
        return match std::process::Command::new(&other).args(["replay", &path.display().to_string()]).status() {
            Ok(s) => s.code().unwrap_or(2),
            Err(e) => {
                println!("cannot run {}: {}", other, e);
                2
            }
        };
    }
    match doc["engine"].as_str() {
        Some("e1") => {
            let v = &doc["violation"];
            let case = match Case::from_json(&v["case"]) {
                Some(c) => c,
                None => {
                    println!("bad case in replay file");
                    return 2;
                }
            };
            let mut ctx = Ctx::new();
            ctx.unit = "replay".into();
            ctx.paranoid = true;
            ctx.frozen = false;
            let all = known::load(&shard::verif_dir().join("KNOWN_FINDINGS.txt")).unwrap_or_default();
            ctx.known_keys = all.iter().filter(|k| k.is_known && k.property == prop).map(|k| k.key.clone()).collect();
            ctx.foreign_keys = all.iter().filter(|k| k.is_known && k.property != prop && !ctx.known_keys.contains(&k.key)).map(|k| k.key.clone()).collect();
            ctx.panic_only = prop == "C15";
            if prop == "C15" {
                // C15's cases run with the message channel attached and log arguments evaluated
                super::props::mes::ensure_socket(&mut ctx);
                super::panics::eval_log_args(true);
            }
            ctx.cycles_only = prop == "C20";
            if v["case"]["regen"]["oracle"] == "long-program" {
                super::props::longprog::replay(&mut ctx, &v["case"]["regen"]);
            } else if v["case"]["regen"]["oracle"] == "c05-nesting" {
                // re-create the generated program and run it with the unit's own oracles (call stack, marker log)
                super::props::flow::replay_nesting(&mut ctx, &v["case"]["regen"]);
            } else if let Some(seq) = v["case"]["sequence"].as_array() {
                // a recorded history: replay exactly the same actions in lock step with the reference
                let acts: Vec<super::e1::Act> = seq.iter().filter_map(|s| s.as_str()).map(super::e1::Act::parse).collect();
                ctx.track_queue = v["case"]["track_queue"].as_bool().unwrap_or(false);
                if !acts.is_empty() {
                    let mut k = 0usize;
                    let first = acts[0];
                    let n = acts.len();
                    ctx.run_seq(&case, first, n, &mut |_o| {
                        k += 1;
                        if k < n {
                            super::e1::Next::Continue(acts[k])
                        } else {
                            super::e1::Next::Stop
                        }
                    });
                }
            } else {
                ctx.run(&case);
            }
            println!("case:     {}", v["case"]);
            if ctx.st.violations_total > 0 {
                let got = &ctx.st.violations[0];
                println!("what:     {}", got.what);
                println!("expected: {}", got.expected);
                println!("actual:   {}", got.actual);
                println!("VIOLATION property={} replay={}", prop, path.display());
                1
            } else {
                println!("the case passes on the current tree (recorded failure: {})", v["what"]);
                0
            }
        }
        _ => super::props::replay_other(&prop, &doc, path),
    }
}
