fn main() {
    // The guard for the hooks in /repo/src (MANIFEST.hooks.guard).
    println!("cargo:rustc-check-cfg=cfg(koge29_verif)");
    println!("cargo:rustc-cfg=koge29_verif");
    println!("cargo:rerun-if-changed=build.rs");
}
